//go:build verif

package props

import (
	"fmt"

	"gopkg.in/typ.v4/sync2"
	"verifharness/internal/core"
)

// layoutKey abstracts a VerifLayout to the state of the read/dirty/expunged
// machine (counts saturated at 2). Evidence and workload steering only: no
// verdict ever depends on it.
func layoutKey(l sync2.VerifLayout) string {
	sat := func(n int) int {
		if n > 2 {
			return 2
		}
		return n
	}
	return fmt.Sprintf("amended=%v dirtyNil=%v live=%d nil=%d expunged=%d dirtyOnly=%d", l.Amended, l.DirtyNil, sat(l.NLive), sat(l.NNil), sat(l.NExpunged), sat(l.NDirtyOnly))
}

func noteLayout[T comparable](c *core.Ctx, s *sync2.Set[T]) {
	k := layoutKey(s.VerifLayout())
	c.Distinct("concurrent_set_layouts_at_binary_ops", core.HashString(k))
}

func layoutOfMap[K comparable, V any](m *sync2.Map[K, V]) string { return layoutKey(m.VerifLayout()) }
