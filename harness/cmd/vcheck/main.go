// vcheck is the DRIVER: it rebuilds the worker from /repo's current working
// tree, runs the fixed case list of one property in worker processes, collects
// what the monitors observed, and turns that into the verdict lines, the exit
// code and the evidence file.
//
//	vcheck -root /verif C04 quick
//	vcheck -root /verif replay /verif/replays/C04/....json
package main

import (
	"encoding/binary"
	"encoding/json"
	"flag"
	"fmt"
	"os"
	"os/exec"
	"path/filepath"
	"regexp"
	"sort"
	"strconv"
	"strings"
	"sync"
	"syscall"
	"time"

	"verifharness/internal/core"
	"verifharness/internal/plan"
)

type job struct {
	mode     plan.Mode
	first, n int64
	procs    int
	id       int
	confirm  bool // single-case confirmation run
}

type modeStat struct {
	Name     string  `json:"name"`
	Build    string  `json:"build"`
	Go       string  `json:"go,omitempty"`
	Planned  int64   `json:"cases_planned"`
	Run      int64   `json:"cases_run"`
	Jobs     int     `json:"worker_processes"`
	Deaths   int     `json:"worker_deaths"`
	Skipped  string  `json:"skipped,omitempty"`
	WallS    float64 `json:"wall_s"`
	Tagged   bool    `json:"hooks_enabled"`
	GoVer    string  `json:"go_version,omitempty"`
	RaceRpts int     `json:"race_reports"`
}

type driver struct {
	root, harness, work string
	prop, tier          string
	seed                uint64
	bins                map[string]string // build|go -> path
	binTagged           map[string]bool
	mu                  sync.Mutex
	counters            map[string]int64
	maxes               map[string]int64
	distinct            map[string]map[uint64]struct{}
	nontrivial          map[uint64]struct{}
	samples             []any
	violations          []core.Violation
	inconclusive        []string
	notes               map[string]string
	evaluations         int64
	jobSeq              int
	buildS              float64
	verbose             bool
	param               string
}

func goEnv(extra ...string) []string {
	env := os.Environ()
	out := env[:0:0]
	for _, e := range env {
		if strings.HasPrefix(e, "GOFLAGS=") || strings.HasPrefix(e, "GOPROXY=") || strings.HasPrefix(e, "GOSUMDB=") ||
			strings.HasPrefix(e, "GOTOOLCHAIN=") || strings.HasPrefix(e, "GORACE=") || strings.HasPrefix(e, "GOMAXPROCS=") ||
			strings.HasPrefix(e, "GOWORK=") {
			continue
		}
		out = append(out, e)
	}
	out = append(out, "GOFLAGS=-mod=mod", "GOPROXY=off", "GOSUMDB=off", "GOTOOLCHAIN=local", "GOWORK=off")
	return append(out, extra...)
}

func (d *driver) build(build, gobin string) (string, bool, error) {
	key := build + "|" + gobin
	if p, ok := d.bins[key]; ok {
		return p, d.binTagged[key], nil
	}
	g := "go"
	if gobin != "" {
		g = gobin
	}
	outp := filepath.Join(d.work, "vwork-"+build+strings.ReplaceAll(gobin, ".", "_"))
	try := func(tag bool) (string, error) {
		args := []string{"build"}
		switch build {
		case "race":
			args = append(args, "-race")
		case "asan":
			args = append(args, "-asan")
		}
		if tag {
			args = append(args, "-tags", "verif")
		}
		if alt := os.Getenv("VERIF_REPO"); alt != "" {
			// development aid (mutation testing in a scratch worktree): build against
			// another checkout of the library. The registered commands never set it.
			mf := filepath.Join(d.work, "alt.mod")
			if _, err := os.Stat(mf); err != nil {
				gm, _ := os.ReadFile(filepath.Join(d.harness, "go.mod"))
				os.WriteFile(mf, []byte(strings.Replace(string(gm), "=> /repo", "=> "+alt, 1)), 0o644)
				gs, _ := os.ReadFile(filepath.Join(d.harness, "go.sum"))
				os.WriteFile(filepath.Join(d.work, "alt.sum"), gs, 0o644)
			}
			args = append(args, "-modfile="+mf)
		}
		args = append(args, "-o", outp, "./cmd/vwork")
		cmd := exec.Command(g, args...)
		cmd.Dir = d.harness
		cmd.Env = goEnv()
		b, err := cmd.CombinedOutput()
		return string(b), err
	}
	t0 := time.Now()
	msg, err := try(true)
	tagged := true
	if err != nil {
		msg2, err2 := try(false)
		if err2 != nil {
			return "", false, fmt.Errorf("tagged build: %v\n%s\nuntagged build: %v\n%s", err, msg, err2, msg2)
		}
		tagged = false
		fmt.Printf("INCONCLUSIVE property=%s reason=verif-tag-build-failed (hooks off; public-API oracles only)\n", d.prop)
		d.note("tag_build_error", firstLines(msg, 12))
	}
	d.mu.Lock()
	d.buildS += time.Since(t0).Seconds()
	d.bins[key] = outp
	d.binTagged[key] = tagged
	d.mu.Unlock()
	return outp, tagged, nil
}

func firstLines(s string, n int) string {
	ls := strings.Split(s, "\n")
	if len(ls) > n {
		ls = ls[:n]
	}
	return strings.Join(ls, "\n")
}

func (d *driver) note(k, v string) {
	d.mu.Lock()
	d.notes[k] = v
	d.mu.Unlock()
}

func (d *driver) merge(r *core.Result) {
	d.mu.Lock()
	defer d.mu.Unlock()
	d.evaluations += r.CasesRun
	for k, v := range r.Counters {
		d.counters[k] += v
	}
	for k, v := range r.Maxes {
		if old, ok := d.maxes[k]; !ok || v > old {
			d.maxes[k] = v
		}
	}
	for c, enc := range r.Distinct {
		m := d.distinct[c]
		if m == nil {
			m = map[uint64]struct{}{}
			d.distinct[c] = m
		}
		core.DecodeSet(enc, m)
	}
	core.DecodeSet(r.NonTrivial, d.nontrivial)
	for _, s := range r.Samples {
		if len(d.samples) < 6 {
			d.samples = append(d.samples, map[string]any{"mode": r.Mode, "build": r.Build, "case": s})
		}
	}
	d.violations = append(d.violations, r.Violations...)
	for _, ic := range r.Inconclusive {
		if len(d.inconclusive) < 50 {
			d.inconclusive = append(d.inconclusive, fmt.Sprintf("mode=%s case=%d seed=%d %s", ic.Mode, ic.Index, ic.CaseSeed, ic.Reason))
		}
	}
	for k, v := range r.Notes {
		d.notes[k] = v
	}
}

type jobOutcome struct {
	res      *core.Result
	exit     int
	stderr   string
	diedAt   int64 // case index from the journal, -1 if unknown
	diedSeed uint64
	races    []raceReport
	timedOut bool
}

func (d *driver) runJob(j job, bin string, tagged bool) jobOutcome {
	d.mu.Lock()
	d.jobSeq++
	id := d.jobSeq
	d.mu.Unlock()
	base := filepath.Join(d.work, fmt.Sprintf("job%05d", id))
	outp, jr, errp := base+".json", base+".journal", base+".err"
	args := []string{"-prop", d.prop, "-mode", j.mode.Name, "-build", j.mode.Build, "-tier", d.tier,
		"-first", strconv.FormatInt(j.first, 10), "-n", strconv.FormatInt(j.n, 10),
		"-seed", strconv.FormatUint(d.seed, 10), "-out", outp, "-journal", jr,
		"-watchdog", strconv.Itoa(j.mode.WatchdogS)}
	if d.verbose {
		args = append(args, "-v")
	}
	if d.param != "" {
		args = append(args, "-param", d.param)
	}
	cmd := exec.Command(bin, args...)
	var extra []string
	if j.procs > 0 {
		extra = append(extra, "GOMAXPROCS="+strconv.Itoa(j.procs))
	}
	racePrefix := base + ".race"
	if j.mode.Build == "race" {
		extra = append(extra, "GORACE=halt_on_error=0 exitcode=0 history_size=3 log_path="+racePrefix)
	}
	if j.mode.Build == "asan" {
		extra = append(extra, "ASAN_OPTIONS=detect_leaks=0:abort_on_error=0:exitcode=77")
	}
	extra = append(extra, "GOTRACEBACK=all")
	cmd.Env = goEnv(extra...)
	ef, _ := os.Create(errp)
	cmd.Stdout, cmd.Stderr = ef, ef
	cmd.SysProcAttr = &syscall.SysProcAttr{Setpgid: true}
	var oc jobOutcome
	oc.diedAt = -1
	if err := cmd.Start(); err != nil {
		ef.Close()
		oc.exit = 127
		oc.stderr = err.Error()
		return oc
	}
	done := make(chan error, 1)
	go func() { done <- cmd.Wait() }()
	// Outer wall-clock guard: far beyond anything a batch needs; its firing is
	// inconclusive by itself (the per-case watchdog inside the worker is the
	// one that names a case).
	limit := time.Duration(j.mode.WatchdogS)*time.Second*3 + 45*time.Minute
	var err error
	select {
	case err = <-done:
	case <-time.After(limit):
		syscall.Kill(-cmd.Process.Pid, syscall.SIGKILL)
		err = <-done
		oc.timedOut = true
	}
	ef.Close()
	if err != nil {
		if ee, ok := err.(*exec.ExitError); ok {
			oc.exit = ee.ExitCode()
			if oc.exit < 0 {
				oc.exit = 128
			}
		} else {
			oc.exit = 127
		}
	}
	if b, e := os.ReadFile(errp); e == nil {
		if len(b) > 400000 {
			b = append(b[:200000:200000], b[len(b)-200000:]...)
		}
		oc.stderr = string(b)
	}
	if b, e := os.ReadFile(outp); e == nil {
		var r core.Result
		if json.Unmarshal(b, &r) == nil {
			oc.res = &r
		}
	}
	if oc.res == nil || oc.exit != 0 {
		if b, e := os.ReadFile(jr); e == nil && len(b) >= 16 {
			idx := binary.LittleEndian.Uint64(b[0:])
			if idx != ^uint64(0) {
				oc.diedAt = int64(idx)
				oc.diedSeed = binary.LittleEndian.Uint64(b[8:])
			}
		}
	}
	if j.mode.Build == "race" {
		files, _ := filepath.Glob(racePrefix + ".*")
		for _, f := range files {
			if b, e := os.ReadFile(f); e == nil {
				oc.races = append(oc.races, parseRaceLog(string(b))...)
			}
			os.Remove(f)
		}
		// a race report can also land on stderr when log_path cannot be opened
		oc.races = append(oc.races, parseRaceLog(oc.stderr)...)
	}
	os.Remove(outp)
	os.Remove(jr)
	if oc.exit == 0 {
		os.Remove(errp)
	}
	return oc
}

type raceReport struct {
	sig  string
	text string
}

var reFrameLine = regexp.MustCompile(`^\s{2}(\S.*)\(.*\)\s*$`)

type bracketStripper struct{}

// ReplaceAllString removes [...] groups (generic instantiations), nesting included.
func (bracketStripper) ReplaceAllString(s, _ string) string {
	out := make([]byte, 0, len(s))
	depth := 0
	for i := 0; i < len(s); i++ {
		switch s[i] {
		case '[':
			depth++
		case ']':
			if depth > 0 {
				depth--
			}
		default:
			if depth == 0 {
				out = append(out, s[i])
			}
		}
	}
	return string(out)
}

var reGeneric bracketStripper

// parseRaceLog splits race-detector output into reports and derives for each a
// signature from the two access stacks: per stack the innermost and the
// outermost frame inside gopkg.in/typ.v4 (or, when the stack never enters the
// library, the innermost frame), line numbers and instantiations stripped.
func parseRaceLog(s string) []raceReport {
	var out []raceReport
	parts := strings.Split(s, "WARNING: DATA RACE")
	for _, p := range parts[1:] {
		if i := strings.Index(p, "\n=================="); i >= 0 {
			p = p[:i]
		}
		lines := strings.Split(p, "\n")
		var stacks [][]string
		var cur []string
		in := false
		for _, ln := range lines {
			t := strings.TrimSpace(ln)
			isHdr := strings.HasSuffix(t, ":") && (strings.Contains(t, " by goroutine ") || strings.Contains(t, " by main goroutine"))
			if isHdr {
				if in {
					stacks = append(stacks, cur)
				}
				cur = nil
				in = len(stacks) < 2 && (strings.HasPrefix(t, "Read at") || strings.HasPrefix(t, "Write at") ||
					strings.HasPrefix(t, "Previous read at") || strings.HasPrefix(t, "Previous write at") ||
					strings.HasPrefix(t, "Atomic") || strings.HasPrefix(t, "Previous atomic"))
				continue
			}
			if strings.HasPrefix(t, "Goroutine ") {
				if in {
					stacks = append(stacks, cur)
				}
				in = false
				continue
			}
			if in {
				if m := reFrameLine.FindStringSubmatch(ln); m != nil && !strings.HasPrefix(ln, "      ") {
					fn := reGeneric.ReplaceAllString(m[1], "")
					cur = append(cur, fn)
				}
			}
		}
		if in {
			stacks = append(stacks, cur)
		}
		var sigs []string
		for _, st := range stacks {
			var lib []string
			for _, f := range st {
				if strings.Contains(f, "gopkg.in/typ.v4") {
					lib = append(lib, strings.TrimPrefix(f, "gopkg.in/typ.v4/"))
				}
			}
			switch {
			case len(lib) > 0:
				if lib[0] == lib[len(lib)-1] {
					sigs = append(sigs, lib[0])
				} else {
					sigs = append(sigs, lib[0]+"<-"+lib[len(lib)-1])
				}
			case len(st) > 0:
				sigs = append(sigs, "user:"+st[0])
			default:
				sigs = append(sigs, "?")
			}
		}
		sort.Strings(sigs)
		out = append(out, raceReport{sig: "race:" + strings.Join(sigs, "|"), text: "WARNING: DATA RACE" + p})
	}
	return out
}

var reCrashHead = regexp.MustCompile(`(?m)^(fatal error: .*|panic: .*|SIGSEGV.*|==\d+==ERROR: AddressSanitizer.*|unexpected fault address.*)$`)
var reLibFrame = regexp.MustCompile(`(?m)^(gopkg\.in/typ\.v4/.*)\([^()]*\)\s*$`)
var reCreatedBy = regexp.MustCompile(`(?m)^created by (gopkg\.in/typ\.v4/[^\s]+)`)

// crashSig summarises a process death: the first fatal line plus the first
// library frames of the first goroutine that mentions the library.
func crashSig(stderr string) (string, string) {
	head := reCrashHead.FindString(stderr)
	if head == "" {
		return "", ""
	}
	if len(head) > 160 {
		head = head[:160]
	}
	idx := strings.Index(stderr, head)
	rest := stderr[idx:]
	// first goroutine block after the head
	blk := rest
	if i := strings.Index(rest, "\ngoroutine "); i >= 0 {
		blk = rest[i+1:]
		if k := strings.Index(blk, "\n\n"); k >= 0 {
			blk = blk[:k]
		}
	}
	var frames []string
	for _, m := range reLibFrame.FindAllStringSubmatch(blk, 3) {
		f := reGeneric.ReplaceAllString(m[1], "")
		frames = append(frames, strings.TrimPrefix(f, "gopkg.in/typ.v4/"))
	}
	created := ""
	if m := reCreatedBy.FindStringSubmatch(blk); m != nil {
		created = ";created-by=" + strings.TrimPrefix(reGeneric.ReplaceAllString(m[1], ""), "gopkg.in/typ.v4/")
	}
	h := strings.ReplaceAll(head, " ", "-")
	if i := strings.Index(h, "-[recovered]"); i > 0 {
		h = h[:i]
	}
	return "crash:" + h + ";frames=" + strings.Join(frames, "<-") + created, head
}

func (d *driver) addViolation(v core.Violation) {
	d.mu.Lock()
	d.violations = append(d.violations, v)
	d.mu.Unlock()
}

func (d *driver) addInconclusive(s string) {
	d.mu.Lock()
	if len(d.inconclusive) < 50 {
		d.inconclusive = append(d.inconclusive, s)
	}
	d.counters["inconclusive"]++
	d.mu.Unlock()
}

func (d *driver) runMode(m plan.Mode, st *modeStat) {
	t0 := time.Now()
	defer func() { st.WallS = time.Since(t0).Seconds() }()
	bin, tagged, err := d.build(m.Build, m.Go)
	if err != nil {
		st.Skipped = "build failed"
		fmt.Printf("INCONCLUSIVE property=%s reason=harness-build-failed mode=%s build=%s\n", d.prop, m.Name, m.Build)
		d.note("build_error_"+m.Build, firstLines(err.Error(), 30))
		d.addInconclusive("build failed for " + m.Build + ": " + firstLines(err.Error(), 6))
		return
	}
	st.Tagged = tagged
	if m.NeedTag && !tagged {
		st.Skipped = "needs hooks; tagged build failed"
		fmt.Printf("INCONCLUSIVE property=%s reason=mode-needs-hooks mode=%s\n", d.prop, m.Name)
		d.addInconclusive("mode " + m.Name + " needs hooks, tagged build failed")
		return
	}
	var queue []job
	bi := 0
	for f := int64(0); f < m.Cases; f += m.Batch {
		n := m.Batch
		if f+n > m.Cases {
			n = m.Cases - f
		}
		p := 0
		if len(m.Procs) > 0 {
			p = m.Procs[bi%len(m.Procs)]
		}
		queue = append(queue, job{mode: m, first: f, n: n, procs: p})
		bi++
	}
	var qmu sync.Mutex
	deaths := 0
	pending := 0
	cond := sync.NewCond(&qmu)
	next := func() (job, bool) {
		qmu.Lock()
		defer qmu.Unlock()
		for {
			if deaths >= 8 {
				return job{}, false
			}
			if len(queue) > 0 {
				j := queue[0]
				queue = queue[1:]
				pending++
				return j, true
			}
			if pending == 0 {
				return job{}, false
			}
			cond.Wait()
		}
	}
	finish := func(more ...job) {
		qmu.Lock()
		queue = append(queue, more...)
		pending--
		qmu.Unlock()
		cond.Broadcast()
	}
	par := m.Par
	if par <= 0 {
		par = 1
	}
	var wg sync.WaitGroup
	for w := 0; w < par; w++ {
		wg.Add(1)
		go func() {
			defer wg.Done()
			for {
				j, ok := next()
				if !ok {
					cond.Broadcast()
					return
				}
				oc := d.runJob(j, bin, tagged)
				d.mu.Lock()
				st.Jobs++
				d.mu.Unlock()
				var more []job
				// race reports (any exit status)
				if len(oc.races) > 0 {
					seen := map[string]bool{}
					d.mu.Lock()
					st.RaceRpts += len(oc.races)
					d.counters["race_reports"] += int64(len(oc.races))
					d.mu.Unlock()
					for _, rr := range oc.races {
						if seen[rr.sig] {
							continue
						}
						seen[rr.sig] = true
						d.addViolation(core.Violation{Prop: d.prop, Mode: m.Name, Build: m.Build, Index: j.first, RunSeed: d.seed,
							Sig: rr.sig, Msg: "race detector report (batch first=" + strconv.FormatInt(j.first, 10) + " n=" + strconv.FormatInt(j.n, 10) + ")",
							Detail: map[string]any{"report": rr.text, "batch_first": j.first, "batch_n": j.n, "gomaxprocs": j.procs}})
					}
				}
				if oc.res != nil && oc.exit == 0 {
					d.merge(oc.res)
					d.mu.Lock()
					st.Run += oc.res.CasesRun
					st.GoVer = oc.res.GoVersion
					d.mu.Unlock()
					finish()
					continue
				}
				// the worker died
				d.mu.Lock()
				st.Deaths++
				d.mu.Unlock()
				qmu.Lock()
				deaths++
				qmu.Unlock()
				at := oc.diedAt
				kind := "crash"
				switch {
				case oc.timedOut:
					kind = "outer-timeout"
				case oc.exit == 3:
					kind = "hang"
				case oc.exit == 4:
					kind = "memory"
				}
				detail := map[string]any{"exit": oc.exit, "stderr": tail(oc.stderr, 12000), "batch_first": j.first, "batch_n": j.n, "gomaxprocs": j.procs}
				if kind == "crash" {
					sig, head := crashSig(oc.stderr)
					if sig == "" {
						sig = fmt.Sprintf("crash:exit-%d", oc.exit)
						head = fmt.Sprintf("worker exited with status %d", oc.exit)
					}
					d.addViolation(core.Violation{Prop: d.prop, Mode: m.Name, Build: m.Build, Index: at, CaseSeed: oc.diedSeed, RunSeed: d.seed,
						Sig: sig + ";mode=" + m.Name, Msg: "worker process died while running this case: " + head, Detail: detail})
				} else if kind == "outer-timeout" {
					d.addInconclusive(fmt.Sprintf("mode=%s batch first=%d outer wall-clock guard fired", m.Name, j.first))
				} else {
					// hang or memory blow-up at a journaled case
					if m.HangIs == "violation" && at >= 0 && !j.confirm {
						cj := job{mode: m, first: at, n: 1, procs: j.procs, confirm: true}
						oc2 := d.runJob(cj, bin, tagged)
						d.mu.Lock()
						st.Jobs++
						d.mu.Unlock()
						if oc2.exit == oc.exit {
							detail["confirmed_by_rerun"] = true
							d.addViolation(core.Violation{Prop: d.prop, Mode: m.Name, Build: m.Build, Index: at, CaseSeed: oc.diedSeed, RunSeed: d.seed,
								Sig: kind + ":" + lastOp(oc.stderr), Msg: "deterministic case does not terminate / blows up memory (twice, in fresh processes): " + lastOp(oc.stderr), Detail: detail})
						} else {
							d.addInconclusive(fmt.Sprintf("mode=%s case=%d %s not reproduced on re-run", m.Name, at, kind))
							if oc2.res != nil {
								d.merge(oc2.res)
							}
						}
					} else {
						d.addInconclusive(fmt.Sprintf("mode=%s case=%d watchdog (%s) in a free-running case", m.Name, at, kind))
					}
				}
				if at >= 0 && !j.confirm {
					if at > j.first {
						more = append(more, job{mode: m, first: j.first, n: at - j.first, procs: j.procs})
					}
					if at+1 < j.first+j.n {
						more = append(more, job{mode: m, first: at + 1, n: j.first + j.n - at - 1, procs: j.procs})
					}
				}
				finish(more...)
			}
		}()
	}
	wg.Wait()
	if deaths >= 8 {
		st.Skipped = "mode aborted after 8 worker deaths"
	}
}

var reLastOp = regexp.MustCompile(`(?m)^VWORK-OP (.*)$`)

func lastOp(stderr string) string {
	ms := reLastOp.FindAllStringSubmatch(stderr, -1)
	if len(ms) == 0 {
		return "unknown-op"
	}
	return ms[len(ms)-1][1]
}

func tail(s string, n int) string {
	if len(s) <= n {
		return s
	}
	return s[:n/2] + "\n...[cut]...\n" + s[len(s)-n/2:]
}

type knownLine struct {
	prop string
	re   *regexp.Regexp
	raw  string
	text string
	seen int
}

func loadKnown(path, prop string) []*knownLine {
	b, err := os.ReadFile(path)
	if err != nil {
		return nil
	}
	var out []*knownLine
	for _, ln := range strings.Split(string(b), "\n") {
		ln = strings.TrimSpace(ln)
		if !strings.HasPrefix(ln, "known:") {
			continue
		}
		rest := strings.TrimSpace(strings.TrimPrefix(ln, "known:"))
		f := strings.SplitN(rest, " :: ", 2)
		head := strings.Fields(f[0])
		kl := &knownLine{}
		for _, h := range head {
			if strings.HasPrefix(h, "property=") {
				kl.prop = strings.TrimPrefix(h, "property=")
			}
			if strings.HasPrefix(h, "sig=") {
				kl.raw = strings.TrimPrefix(h, "sig=")
			}
		}
		if len(f) == 2 {
			kl.text = f[1]
		}
		if kl.prop != prop || kl.raw == "" {
			continue
		}
		re, err := regexp.Compile(kl.raw)
		if err != nil {
			fmt.Fprintf(os.Stderr, "KNOWN_FINDINGS.txt: bad sig regexp %q: %v\n", kl.raw, err)
			continue
		}
		kl.re = re
		out = append(out, kl)
	}
	return out
}

func main() {
	root := flag.String("root", "", "the /verif directory")
	verbose := flag.Bool("v", false, "verbose workers")
	param := flag.String("param", "", "extra k=v,... handed to the monitors")
	only := flag.String("only", "", "run only this mode (development)")
	scale := flag.Float64("scale", 1, "multiply case counts (development)")
	flag.Parse()
	args := flag.Args()
	if *root == "" {
		exe, _ := os.Executable()
		*root = filepath.Dir(filepath.Dir(exe))
	}
	if len(args) >= 2 && args[0] == "replay" {
		os.Exit(replay(*root, args[1]))
	}
	if len(args) < 1 {
		fmt.Fprintln(os.Stderr, "usage: vcheck [-root dir] <property> [quick|thorough] | replay <file>")
		os.Exit(2)
	}
	tier := os.Getenv("VERIF_TIER")
	if len(args) >= 2 {
		tier = args[1]
	}
	if tier != "thorough" {
		tier = "quick"
	}
	seed := uint64(1)
	if s := os.Getenv("VERIF_SEED"); s != "" {
		if v, err := strconv.ParseInt(s, 0, 64); err == nil {
			seed = uint64(v)
		} else if u, err := strconv.ParseUint(s, 0, 64); err == nil {
			seed = u
		}
	}
	d := &driver{root: *root, harness: filepath.Join(*root, "harness"), prop: args[0], tier: tier, seed: seed,
		bins: map[string]string{}, binTagged: map[string]bool{}, counters: map[string]int64{}, maxes: map[string]int64{},
		distinct: map[string]map[uint64]struct{}{}, nontrivial: map[uint64]struct{}{}, notes: map[string]string{},
		verbose: *verbose, param: *param}
	os.Exit(d.main(*only, *scale))
}

func (d *driver) main(only string, scale float64) int {
	t0 := time.Now()
	modes := plan.Plan(d.prop, d.tier)
	if len(modes) == 0 {
		fmt.Printf("INCONCLUSIVE property=%s reason=no-plan-for-this-property\n", d.prop)
		return 2
	}
	d.work = filepath.Join(d.root, "bin", fmt.Sprintf("work-%s-%d", d.prop, os.Getpid()))
	os.MkdirAll(d.work, 0o755)
	defer os.RemoveAll(d.work)
	os.MkdirAll(filepath.Join(d.root, "evidence"), 0o755)

	var stats []*modeStat
	for _, m := range modes {
		if only != "" && m.Name != only && m.Name+"/"+m.Build != only {
			continue
		}
		if scale != 1 {
			m.Cases = int64(float64(m.Cases) * scale)
			if m.Cases < 1 {
				m.Cases = 1
			}
		}
		st := &modeStat{Name: m.Name, Build: m.Build, Go: m.Go, Planned: m.Cases}
		stats = append(stats, st)
		d.runMode(m, st)
	}

	// verdict
	known := loadKnown(filepath.Join(d.root, "KNOWN_FINDINGS.txt"), d.prop)
	type group struct {
		v core.Violation
		n int
	}
	groups := map[string]*group{}
	var order []string
	for _, v := range d.violations {
		matched := false
		for _, k := range known {
			if k.re.MatchString(v.Sig) {
				k.seen++
				matched = true
				break
			}
		}
		if matched {
			continue
		}
		g := groups[v.Sig]
		if g == nil {
			g = &group{v: v}
			groups[v.Sig] = g
			order = append(order, v.Sig)
		}
		g.n++
	}
	for _, k := range known {
		fmt.Printf("KNOWN-FINDING: property=%s %s (sig=%s observed=%d)\n", d.prop, k.text, k.raw, k.seen)
	}
	nviol := 0
	for gi, sig := range order {
		g := groups[sig]
		nviol += g.n
		if gi >= 12 {
			if gi == 12 {
				fmt.Printf("  (... %d further violation signatures not listed)\n", len(order)-12)
			}
			continue
		}
		dir := filepath.Join(d.root, "replays", d.prop)
		os.MkdirAll(dir, 0o755)
		name := fmt.Sprintf("%s-%s-%d-%d-%x.json", g.v.Mode, g.v.Build, g.v.Index, g.v.CaseSeed, core.HashString(sig)&0xffffff)
		p := filepath.Join(dir, name)
		b, _ := json.MarshalIndent(map[string]any{"violation": g.v, "occurrences_with_this_signature": g.n, "tier": d.tier, "param": d.param,
			"how_to_replay": "./check replay " + p}, "", " ")
		os.WriteFile(p, b, 0o644)
		fmt.Printf("VIOLATION property=%s replay=%s\n", d.prop, p)
		fmt.Printf("  sig=%s occurrences=%d mode=%s build=%s case=%d\n  %s\n", sig, g.n, g.v.Mode, g.v.Build, g.v.Index, firstLines(g.v.Msg, 6))
	}
	for _, ic := range d.inconclusive {
		fmt.Printf("INCONCLUSIVE property=%s %s\n", d.prop, ic)
	}

	// evidence
	meta := plan.MetaOf(d.prop)
	dc := map[string]int{}
	for c, m := range d.distinct {
		dc[c] = len(m)
	}
	goVers := map[string]bool{}
	hooks := false
	for _, s := range stats {
		if s.GoVer != "" {
			goVers[s.GoVer] = true
		}
		hooks = hooks || s.Tagged
	}
	var gv []string
	for g := range goVers {
		gv = append(gv, g)
	}
	sort.Strings(gv)
	knownSeen := map[string]int{}
	for _, k := range known {
		knownSeen[k.raw] = k.seen
	}
	if len(d.samples) == 0 {
		d.samples = []any{}
		for i, v := range d.violations {
			if i >= 3 {
				break
			}
			d.samples = append(d.samples, map[string]any{"mode": v.Mode, "build": v.Build, "violating_case_index": v.Index, "case_seed": v.CaseSeed, "observed": firstLines(v.Msg, 4)})
		}
	}
	cov := map[string]any{
		"evaluations":         d.evaluations,
		"distinct_nontrivial": len(d.nontrivial),
		"rule":                meta.Rule,
		"samples":             d.samples,
		"exhaustive":          false,
		"counters":            d.counters,
		"maxima":              d.maxes,
		"distinct_sets":       dc,
		"modes":               stats,
		"inconclusive":        d.inconclusive,
		"known_findings_seen": knownSeen,
		"hooks_enabled":       hooks,
		"go_versions":         gv,
		"build_s":             d.buildS,
		"notes":               d.notes,
	}
	if x, ok := d.counters["exhaustive_sweeps_completed"]; ok && x > 0 {
		cov["exhaustive_part"] = meta.ExhaustivePart
	}
	ev := map[string]any{
		"property_id": d.prop, "tier": d.tier, "seed": int64(d.seed), "level": "exploration",
		"coverage": cov, "assumptions": meta.Assumptions, "wall_s": time.Since(t0).Seconds(), "violations": nviol,
	}
	b, _ := json.MarshalIndent(ev, "", " ")
	evp := filepath.Join(d.root, "evidence", d.prop+".json")
	if os.Getenv("VERIF_REPO") != "" {
		evp = filepath.Join(d.root, "bin", "evidence-scratch-"+d.prop+".json") // never clobber real evidence
	}
	os.WriteFile(evp+".tmp", b, 0o644)
	os.Rename(evp+".tmp", evp)

	fmt.Printf("SUMMARY property=%s tier=%s seed=%d evaluations=%d distinct_nontrivial=%d violations=%d known=%d inconclusive=%d wall=%.1fs\n",
		d.prop, d.tier, d.seed, d.evaluations, len(d.nontrivial), nviol, len(known), len(d.inconclusive), time.Since(t0).Seconds())
	keys := make([]string, 0, len(d.counters))
	for k := range d.counters {
		keys = append(keys, k)
	}
	sort.Strings(keys)
	var sb strings.Builder
	for _, k := range keys {
		fmt.Fprintf(&sb, " %s=%d", k, d.counters[k])
	}
	fmt.Printf("OBSERVED%s\n", sb.String())
	if nviol > 0 {
		return 1
	}
	if d.evaluations == 0 {
		fmt.Printf("INCONCLUSIVE property=%s reason=nothing-was-observed\n", d.prop)
		return 2
	}
	return 0
}

// replay re-executes the case of a stored violation against the current tree.
func replay(root, path string) int {
	b, err := os.ReadFile(path)
	if err != nil {
		fmt.Fprintln(os.Stderr, err)
		return 2
	}
	var doc struct {
		Violation core.Violation `json:"violation"`
		Tier      string         `json:"tier"`
		Param     string         `json:"param"`
	}
	if err := json.Unmarshal(b, &doc); err != nil {
		fmt.Fprintln(os.Stderr, err)
		return 2
	}
	v := doc.Violation
	d := &driver{root: root, harness: filepath.Join(root, "harness"), prop: v.Prop, tier: doc.Tier, seed: v.RunSeed,
		bins: map[string]string{}, binTagged: map[string]bool{}, counters: map[string]int64{}, maxes: map[string]int64{},
		distinct: map[string]map[uint64]struct{}{}, nontrivial: map[uint64]struct{}{}, notes: map[string]string{}, verbose: true, param: doc.Param}
	d.work = filepath.Join(root, "bin", fmt.Sprintf("work-replay-%d", os.Getpid()))
	os.MkdirAll(d.work, 0o755)
	defer os.RemoveAll(d.work)
	var mode *plan.Mode
	for _, t := range []string{doc.Tier, "quick", "thorough"} {
		for _, m := range plan.Plan(v.Prop, t) {
			if m.Name == v.Mode && m.Build == v.Build {
				mm := m
				mode = &mm
				break
			}
		}
		if mode != nil {
			break
		}
	}
	if mode == nil {
		fmt.Fprintf(os.Stderr, "replay: no mode %s/%s for %s\n", v.Mode, v.Build, v.Prop)
		return 2
	}
	first, n := v.Index, int64(1)
	reps := 1
	if det, ok := v.Detail.(map[string]any); ok {
		if bf, ok := det["batch_first"].(float64); ok {
			first = int64(bf)
			if bn, ok := det["batch_n"].(float64); ok {
				n = int64(bn)
			}
		}
	}
	if mode.HangIs == "inconclusive" {
		reps = 20 // free-running case: the schedule may not recur, re-run it a few times
	}
	if first < 0 {
		first = 0
	}
	mode.Cases = n
	mode.Batch = n
	bin, tagged, err := d.build(mode.Build, mode.Go)
	if err != nil {
		fmt.Fprintln(os.Stderr, err)
		return 2
	}
	found := false
	for r := 0; r < reps && !found; r++ {
		oc := d.runJob(job{mode: *mode, first: first, n: n}, bin, tagged)
		if oc.res != nil {
			for _, vv := range oc.res.Violations {
				fmt.Printf("REPRODUCED sig=%s :: %s\n", vv.Sig, vv.Msg)
				found = true
			}
		}
		for _, rr := range oc.races {
			fmt.Printf("REPRODUCED %s\n%s\n", rr.sig, rr.text)
			found = true
		}
		if oc.exit != 0 {
			fmt.Printf("REPRODUCED worker exit=%d\n%s\n", oc.exit, tail(oc.stderr, 6000))
			found = true
		}
	}
	if found {
		return 1
	}
	fmt.Printf("not reproduced in %d run(s) of case %d (mode %s/%s) on the current tree\n", reps, v.Index, v.Mode, v.Build)
	return 0
}
