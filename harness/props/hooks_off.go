//go:build !verif

package props

import "verifharness/internal/sched"

const hooksAvailable = false

func hooksOff()                           {}
func hooksTierA(yieldLog2, sleepLog2 int) {}
func hooksTierB(s *sched.Sched)           {}
func siteName(site int) string            { return "" }
func numSites() int                       { return 0 }
