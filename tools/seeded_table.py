#!/usr/bin/env python3
"""Regenerates the table of section 8 of DESIGN.md from seeded/*/meta.json."""
import json, glob, os, re
here = os.path.dirname(os.path.dirname(os.path.abspath(__file__)))
rows = []
for d in sorted(x for x in glob.glob(here + '/seeded/*') if os.path.isdir(x)):
    m = json.load(open(d + '/meta.json'))
    res = m['check_result'].replace('|', '/')
    needs = m['needs_to_manifest'].replace('|', '/')
    first = 'MISSED' in res.split(';')[0] or res.startswith('MISSED') or res.startswith('NOT caught')
    rows.append((m['name'], m['property'], needs, res))
out = ["<!-- SEEDED-TABLE-BEGIN -->",
       "%d changes written by independent sub-agents are kept under `seeded/<name>/` (patch.diff, demo_test.go," % len(rows),
       "notes.md, meta.json, check_output.txt). `tools/reverify_seeded.sh` re-applies each to `/repo` HEAD, runs the",
       "quick check of its property and undoes it. \"MISSED at first\" marks the changes that led to a stronger monitor.",
       "",
       "| seeded change | prop | what it needs in order to manifest | result |",
       "|---|---|---|---|"]
for n, p, needs, res in rows:
    out.append("| %s | %s | %s | %s |" % (n, p, needs, res))
missed = [r for r in rows if 'MISSED' in r[3] or 'NOT caught' in r[3]]
out += ["", "Summary: %d kept, %d caught by the first version of the check, %d missed at first and caught after strengthening"
        " (what was added is in the *As built* paragraphs of section 4), %d outside the quantifier of the property it was written for"
        " (C03-m1, C03-m4, C03-m12: need two or three goroutines; caught by C04 and/or C05). Eleven rounds were run (first-try miss rates 64%%, 49%%, 33%%, 38%%, 37%%, 13%%, 42%%, 49%%, 48%% and 38%% in rounds 2..11 - from round 8 on the agents were asked for triggers of a KIND not seen before; every miss was answered by a strengthened monitor; from round 6 on the misses were measured with the checks as committed before the round, and four produced changes (rounds 6, 9 and 10) were judged not to break their property and discarded - section 7.1): from the second round on, the agents were given the names and triggers of the earlier changes and asked for different, harder ones. During round 11 all 411 earlier changes were re-run against the current checks on a heavily loaded machine: three were no longer caught (C10-m1 and C18-m1 had been caught by timing luck, C11-m6 had been silenced by an observer that grew in round 5); each got a deterministic scenario (As built, C10, C11, C18) and is caught again. After the last change of a monitor all 451 kept changes were re-run once more on the final code (tools/reverify_all.sh, three streams): all 451 are caught, the hang-type ones of C10 and C19 through core.PatientWait." % (len(rows), len(rows) - len(missed), len([r for r in missed if 'MISSED' in r[3]]), len([r for r in missed if 'NOT caught' in r[3]])),
        "<!-- SEEDED-TABLE-END -->"]
p = here + '/DESIGN.md'
s = open(p).read()
block = "\n".join(out)
if 'SEEDED_TABLE_PLACEHOLDER' in s:
    s = s.replace('SEEDED_TABLE_PLACEHOLDER', block)
else:
    s = re.sub(r'<!-- SEEDED-TABLE-BEGIN -->.*<!-- SEEDED-TABLE-END -->', lambda m: block, s, flags=re.S)
open(p, 'w').write(s)
print(len(rows), 'rows')
