// vwork is the WORKER: it runs a contiguous range of cases of one property in
// one mode inside this process and leaves a result file. Before each case it
// journals the case index and seed, so that when the process dies (fatal error,
// panic in a library goroutine, sanitizer abort, watchdog) the driver knows
// which case was running.
package main

import (
	"encoding/binary"
	"flag"
	"fmt"
	"os"
	"runtime"
	"runtime/debug"
	"runtime/pprof"
	"strconv"
	"sync/atomic"
	"time"

	"verifharness/internal/core"
	"verifharness/props"
)

func main() {
	var (
		prop     = flag.String("prop", "", "property id")
		mode     = flag.String("mode", "", "mode name")
		build    = flag.String("build", "plain", "build flavour (informational)")
		tier     = flag.String("tier", "quick", "tier")
		first    = flag.Int64("first", 0, "first case index")
		n        = flag.Int64("n", 1, "number of cases")
		seed     = flag.Uint64("seed", 1, "run seed (VERIF_SEED)")
		out      = flag.String("out", "", "result file")
		journal  = flag.String("journal", "", "journal file")
		verbose  = flag.Bool("v", false, "verbose")
		watchdog = flag.Int("watchdog", 60, "per-case watchdog seconds")
		list     = flag.Bool("list", false, "list properties")
		params   = flag.String("param", "", "k=v,k=v extra parameters for the monitors")
	)
	flag.Parse()
	if *list {
		for _, id := range props.IDs() {
			fmt.Println(id)
		}
		return
	}
	run := props.Lookup(*prop)
	if run == nil {
		fmt.Fprintf(os.Stderr, "vwork: unknown property %q\n", *prop)
		os.Exit(2)
	}
	res := core.NewResult(*prop, *mode, *build)
	res.First, res.N = *first, *n
	res.Tagged = props.Tagged
	res.GoVersion = runtime.Version()

	var jf *os.File
	if *journal != "" {
		var err error
		jf, err = os.OpenFile(*journal, os.O_CREATE|os.O_WRONLY|os.O_TRUNC, 0o644)
		if err != nil {
			fmt.Fprintln(os.Stderr, "vwork: journal:", err)
			os.Exit(2)
		}
	}

	// Watchdogs: per-case wall clock (a firing is reported with exit code 3 and
	// a goroutine dump; the DRIVER decides what it means) and heap size.
	var caseStart atomic.Int64
	var curIdx atomic.Int64
	caseStart.Store(time.Now().UnixNano())
	go func() {
		var ms runtime.MemStats
		tick := 0
		for {
			time.Sleep(250 * time.Millisecond)
			tick++
			if time.Duration(time.Now().UnixNano()-caseStart.Load()) > time.Duration(*watchdog)*time.Second {
				fmt.Fprintf(os.Stderr, "\nVWORK-WATCHDOG case_index=%d exceeded %ds; goroutine dump follows\n", curIdx.Load(), *watchdog)
				pprof.Lookup("goroutine").WriteTo(os.Stderr, 2)
				os.Exit(3)
			}
			if tick%4 == 0 {
				runtime.ReadMemStats(&ms)
				if ms.HeapAlloc > 6<<30 {
					fmt.Fprintf(os.Stderr, "\nVWORK-MEMORY case_index=%d heap=%d\n", curIdx.Load(), ms.HeapAlloc)
					os.Exit(4)
				}
			}
		}
	}()

	pm := map[string]string{}
	if *params != "" {
		for _, kv := range splitComma(*params) {
			for i := 0; i < len(kv); i++ {
				if kv[i] == '=' {
					pm[kv[:i]] = kv[i+1:]
					break
				}
			}
		}
	}

	propH := core.HashString(*prop)
	modeH := core.HashString(*mode)
	for i := *first; i < *first+*n; i++ {
		cs := core.Mix(*seed, propH, modeH, uint64(i))
		if jf != nil {
			var b [16]byte
			binary.LittleEndian.PutUint64(b[0:], uint64(i))
			binary.LittleEndian.PutUint64(b[8:], cs)
			jf.WriteAt(b[:], 0)
		}
		curIdx.Store(i)
		caseStart.Store(time.Now().UnixNano())
		c := core.NewCtx(res, i, cs, *seed, *tier, *verbose, props.Tagged)
		c.Param = pm
		func() {
			defer func() {
				if r := recover(); r != nil {
					c.Violate("harness-level-panic:"+firstLine(fmt.Sprint(r)), fmt.Sprintf("panic escaped the monitor: %v", r),
						map[string]any{"stack": string(debug.Stack())})
				}
			}()
			run(c)
		}()
		res.CasesRun++
		if len(res.Violations) >= 25 {
			break
		}
	}
	if jf != nil {
		var b [16]byte
		binary.LittleEndian.PutUint64(b[0:], ^uint64(0))
		jf.WriteAt(b[:], 0)
		jf.Close()
	}
	if *out != "" {
		if err := res.Write(*out); err != nil {
			fmt.Fprintln(os.Stderr, "vwork: write result:", err)
			os.Exit(2)
		}
	} else {
		fmt.Printf("cases=%d violations=%d counters=%v\n", res.CasesRun, len(res.Violations), res.Counters)
		for _, v := range res.Violations {
			fmt.Printf("  VIOL case=%d seed=%s sig=%s :: %s\n", v.Index, strconv.FormatUint(v.CaseSeed, 10), v.Sig, v.Msg)
		}
	}
}

func firstLine(s string) string {
	for i := 0; i < len(s); i++ {
		if s[i] == '\n' {
			return s[:i]
		}
	}
	if len(s) > 120 {
		return s[:120]
	}
	return s
}

func splitComma(s string) []string {
	var out []string
	cur := ""
	for i := 0; i < len(s); i++ {
		if s[i] == ',' {
			out = append(out, cur)
			cur = ""
		} else {
			cur += string(s[i])
		}
	}
	return append(out, cur)
}
