package props

import (
	"fmt"
	"math"
	"math/big"
	"strconv"
	"time"

	typ "gopkg.in/typ.v4"
	"verifharness/internal/core"
)

// C20 — numeric and utility helpers are correct over the whole value range.
// Reference computations independent of the implementation (strconv digit
// counts, widened / big-integer arithmetic, explicit comparisons).
// Case layout (fixed): 0..255  int8 first argument (all pairs, all triples)
//                      256..511 uint8 first argument (all pairs, all triples)
//                      512..527 16-bit sweeps (int16, uint16 and named types)
//                      528..    boundary-dense samples of 32/64-bit, int, uintptr, floats, utilities
// thorough adds mode "full32": all 2^32 values of int32 and uint32 for the
// one-argument functions.

func init() { register("C20", runC20) }

type myInt8 int8
type myU16 uint16
type c20err struct{}

func (*c20err) Error() string { return "e" }

type zeroer struct{ V, Mark int }

func (z zeroer) IsZero() bool { return z.V == 0 }

// weirdZero's method disagrees with the zero value: IsZero "returns true if the
// value is zero; the method is ALSO used" - so both {0} and {5} are zero.
type weirdZero struct{ V int }

func (w weirdZero) IsZero() bool { return w.V == 5 }

func digitsRefI(v int64) (d, ds int) {
	s := strconv.FormatInt(v, 10)
	if v < 0 {
		return len(s) - 1, len(s)
	}
	return len(s), len(s)
}

func runC20(c *core.Ctx) {
	if c.Mode == "full32" {
		c20full32(c)
		return
	}
	switch {
	case c.Index < 256:
		c20int8(c, int8(int(c.Index)-128))
	case c.Index < 512:
		c20uint8(c, uint8(c.Index-256))
	case c.Index < 528:
		c20sixteen(c, int(c.Index-512))
	default:
		c20samples(c)
	}
}

func c20fail(c *core.Ctx, sig, msg string) bool {
	c.Violate(sig, msg, nil)
	return false
}

func c20int8(c *core.Ctx, a int8) {
	// one-argument functions
	d, ds := digitsRefI(int64(a))
	if g := typ.Digits10(a); g != d {
		c20fail(c, "Digits10:int8", fmt.Sprintf("Digits10(int8 %d)=%d want %d", a, g, d))
		return
	}
	if g := typ.DigitsSign10(a); g != ds {
		c20fail(c, "DigitsSign10:int8", fmt.Sprintf("DigitsSign10(int8 %d)=%d want %d", a, g, ds))
		return
	}
	if g := typ.Digits10(myInt8(a)); g != d {
		c20fail(c, "Digits10:named-int8", fmt.Sprintf("Digits10(myInt8 %d)=%d want %d", a, g, d))
		return
	}
	if a != math.MinInt8 {
		w := a
		if w < 0 {
			w = -w
		}
		if g := typ.Abs(a); g != w {
			c20fail(c, "Abs:int8", fmt.Sprintf("Abs(%d)=%d", a, g))
			return
		}
	}
	if g, w := typ.Clamp01(a), clampRef(int64(a), 0, 1); int64(g) != w {
		c20fail(c, "Clamp01:int8", fmt.Sprintf("Clamp01(%d)=%d", a, g))
		return
	}
	if typ.IsZero(a) != (a == 0) || typ.Zero[int8]() != 0 || typ.ZeroOf(a) != 0 {
		c20fail(c, "IsZero/Zero:int8", fmt.Sprintf("IsZero/Zero/ZeroOf wrong for %d", a))
		return
	}
	for bi := -128; bi <= 127; bi++ {
		b := int8(bi)
		if !c20pairI8(c, a, b) {
			return
		}
		for ci := -128; ci <= 127; ci++ {
			cc := int8(ci)
			// triples: Min, Max, Sum, Product, Clamp (lo<=hi)
			mn, mx := a, a
			if b < mn {
				mn = b
			}
			if cc < mn {
				mn = cc
			}
			if b > mx {
				mx = b
			}
			if cc > mx {
				mx = cc
			}
			if typ.Min(a, b, cc) != mn || typ.Max(a, b, cc) != mx {
				c20fail(c, "Min/Max:int8-triple", fmt.Sprintf("Min/Max(%d,%d,%d)=%d/%d want %d/%d", a, b, cc, typ.Min(a, b, cc), typ.Max(a, b, cc), mn, mx))
				return
			}
			if g, w := typ.Sum(a, b, cc), int8(int64(a)+int64(b)+int64(cc)); g != w {
				c20fail(c, "Sum:int8-triple", fmt.Sprintf("Sum(%d,%d,%d)=%d want %d", a, b, cc, g, w))
				return
			}
			if g, w := typ.Product(a, b, cc), int8(int64(a)*int64(b)*int64(cc)); g != w {
				c20fail(c, "Product:int8-triple", fmt.Sprintf("Product(%d,%d,%d)=%d want %d", a, b, cc, g, w))
				return
			}
			if b <= cc {
				if g, w := typ.Clamp(a, b, cc), clampRef(int64(a), int64(b), int64(cc)); int64(g) != w {
					c20fail(c, "Clamp:int8", fmt.Sprintf("Clamp(%d,%d,%d)=%d want %d", a, b, cc, g, w))
					return
				}
			}
		}
	}
	c.Count("int8_first_args_all_pairs_and_triples", 1)
	c.Count("evaluations_of_library_functions", 256*256*5)
	c.Count("exhaustive_sweeps_completed", 1)
	c.NonTrivial(core.Mix(20, uint64(uint8(a))))
	if c.WantSample() {
		c.Sample(map[string]any{"sweep": "int8", "first_argument": a, "covered": "all 256 second and 65536 (second,third) arguments of Min/Max/Sum/Product/Clamp/Compare/Less"})
	}
}

func clampRef(v, lo, hi int64) int64 {
	if lo <= v && v <= hi {
		return v
	}
	if v < lo {
		return lo
	}
	return hi
}

func c20pairI8(c *core.Ctx, a, b int8) bool {
	cmp := 0
	if a < b {
		cmp = -1
	} else if a > b {
		cmp = 1
	}
	if typ.Compare(a, b) != cmp || typ.Less(a, b) != (a < b) {
		return c20fail(c, "Compare/Less:int8", fmt.Sprintf("Compare/Less(%d,%d)=%d/%v", a, b, typ.Compare(a, b), typ.Less(a, b)))
	}
	mn, mx := a, b
	if b < a {
		mn, mx = b, a
	}
	if typ.Min(a, b) != mn || typ.Max(a, b) != mx {
		return c20fail(c, "Min/Max:int8-pair", fmt.Sprintf("Min/Max(%d,%d)", a, b))
	}
	if typ.Sum(a, b) != int8(int64(a)+int64(b)) || typ.Product(a, b) != int8(int64(a)*int64(b)) {
		return c20fail(c, "Sum/Product:int8-pair", fmt.Sprintf("Sum/Product(%d,%d)=%d/%d", a, b, typ.Sum(a, b), typ.Product(a, b)))
	}
	want := b
	if a != 0 {
		want = a
	}
	if typ.Coal(a, b) != want || typ.Coal(int8(0), a, b) != want {
		return c20fail(c, "Coal:int8", fmt.Sprintf("Coal(%d,%d)=%d", a, b, typ.Coal(a, b)))
	}
	return true
}

func c20uint8(c *core.Ctx, a uint8) {
	s := strconv.FormatUint(uint64(a), 10)
	if typ.Digits10(a) != len(s) || typ.DigitsSign10(a) != len(s) {
		c20fail(c, "Digits10:uint8", fmt.Sprintf("Digits10/DigitsSign10(uint8 %d)=%d/%d want %d", a, typ.Digits10(a), typ.DigitsSign10(a), len(s)))
		return
	}
	if typ.Abs(a) != a || int64(typ.Clamp01(a)) != clampRef(int64(a), 0, 1) || typ.IsZero(a) != (a == 0) {
		c20fail(c, "Abs/Clamp01/IsZero:uint8", fmt.Sprintf("wrong for %d", a))
		return
	}
	for bi := 0; bi < 256; bi++ {
		b := uint8(bi)
		cmp := 0
		if a < b {
			cmp = -1
		} else if a > b {
			cmp = 1
		}
		if typ.Compare(a, b) != cmp || typ.Less(a, b) != (a < b) {
			c20fail(c, "Compare/Less:uint8", fmt.Sprintf("Compare/Less(%d,%d)", a, b))
			return
		}
		if typ.Sum(a, b) != a+b || typ.Product(a, b) != a*b {
			c20fail(c, "Sum/Product:uint8-pair", fmt.Sprintf("Sum/Product(%d,%d)", a, b))
			return
		}
		for ci := 0; ci < 256; ci++ {
			cc := uint8(ci)
			mn, mx := a, a
			if b < mn {
				mn = b
			}
			if cc < mn {
				mn = cc
			}
			if b > mx {
				mx = b
			}
			if cc > mx {
				mx = cc
			}
			if typ.Min(a, b, cc) != mn || typ.Max(a, b, cc) != mx {
				c20fail(c, "Min/Max:uint8-triple", fmt.Sprintf("Min/Max(%d,%d,%d)", a, b, cc))
				return
			}
			if typ.Sum(a, b, cc) != a+b+cc || typ.Product(a, b, cc) != a*b*cc {
				c20fail(c, "Sum/Product:uint8-triple", fmt.Sprintf("Sum/Product(%d,%d,%d)", a, b, cc))
				return
			}
			if b <= cc {
				if g, w := typ.Clamp(a, b, cc), clampRef(int64(a), int64(b), int64(cc)); int64(g) != w {
					c20fail(c, "Clamp:uint8", fmt.Sprintf("Clamp(%d,%d,%d)=%d want %d", a, b, cc, g, w))
					return
				}
			}
		}
	}
	c.Count("uint8_first_args_all_pairs_and_triples", 1)
	c.Count("evaluations_of_library_functions", 256*256*5)
	c.Count("exhaustive_sweeps_completed", 1)
	c.NonTrivial(core.Mix(21, uint64(a)))
}

// c20sixteen: slice k of 16 of all 16-bit values (int16, uint16, named uint16)
func c20sixteen(c *core.Ctx, k int) {
	for i := k * 4096; i < (k+1)*4096; i++ {
		u := uint16(i)
		s := int16(u)
		us := strconv.FormatUint(uint64(u), 10)
		if typ.Digits10(u) != len(us) || typ.DigitsSign10(u) != len(us) || typ.Digits10(myU16(u)) != len(us) {
			c20fail(c, "Digits10:uint16", fmt.Sprintf("Digits10(uint16 %d)=%d want %d", u, typ.Digits10(u), len(us)))
			return
		}
		d, ds := digitsRefI(int64(s))
		if g := typ.Digits10(s); g != d {
			c20fail(c, "Digits10:int16", fmt.Sprintf("Digits10(int16 %d)=%d want %d", s, g, d))
			return
		}
		if g := typ.DigitsSign10(s); g != ds {
			c20fail(c, "DigitsSign10:int16", fmt.Sprintf("DigitsSign10(int16 %d)=%d want %d", s, g, ds))
			return
		}
		if s != math.MinInt16 {
			w := s
			if w < 0 {
				w = -w
			}
			if typ.Abs(s) != w {
				c20fail(c, "Abs:int16", fmt.Sprintf("Abs(%d)=%d", s, typ.Abs(s)))
				return
			}
		}
		if int64(typ.Clamp01(s)) != clampRef(int64(s), 0, 1) || int64(typ.Clamp01(u)) != clampRef(int64(u), 0, 1) {
			c20fail(c, "Clamp01:16bit", fmt.Sprintf("Clamp01 wrong for %d/%d", s, u))
			return
		}
		if typ.IsZero(s) != (s == 0) || typ.IsZero(u) != (u == 0) {
			c20fail(c, "IsZero:16bit", fmt.Sprintf("IsZero wrong for %d", s))
			return
		}
		// pairs against a boundary set
		for _, t := range []int16{math.MinInt16, -1, 0, 1, math.MaxInt16, s, -s} {
			if typ.Compare(s, t) != cmpInt(int(s), int(t)) || typ.Less(s, t) != (s < t) ||
				typ.Min(s, t) != int16(minI(int64(s), int64(t))) || typ.Max(t, s) != int16(maxI(int64(s), int64(t))) ||
				typ.Sum(s, t) != int16(int64(s)+int64(t)) || typ.Product(s, t) != int16(int64(s)*int64(t)) {
				c20fail(c, "pairs:int16", fmt.Sprintf("Compare/Less/Min/Max/Sum/Product wrong for (%d,%d)", s, t))
				return
			}
		}
	}
	c.Count("sixteen_bit_values", 4096*2)
	c.Count("exhaustive_sweeps_completed", 1)
	c.NonTrivial(core.Mix(22, uint64(k)))
}

func minI(a, b int64) int64 {
	if a < b {
		return a
	}
	return b
}
func maxI(a, b int64) int64 {
	if a > b {
		return a
	}
	return b
}

// boundary-dense 64-bit candidates
func boundary64(r *core.Rand) []int64 {
	out := []int64{0, 1, -1, math.MaxInt64, math.MinInt64, math.MinInt64 + 1, math.MaxInt32, math.MinInt32, math.MinInt32 - 1, math.MaxInt32 + 1,
		math.MaxInt16, math.MinInt16, math.MaxInt8, math.MinInt8}
	p := int64(1)
	for k := 0; k < 18; k++ {
		p *= 10
		out = append(out, p, p-1, p+1, -p, -p+1, -p-1)
	}
	for k := 0; k < 12; k++ {
		out = append(out, int64(r.Uint64()), int64(r.Uint64()>>uint(r.Intn(64))), -int64(r.Uint64()>>uint(1+r.Intn(63))))
	}
	return out
}

func c20samples(c *core.Ctx) {
	r := c.R
	vals := boundary64(r)
	for _, v := range vals {
		d, ds := digitsRefI(v)
		if g := typ.Digits10(v); g != d {
			c20fail(c, "Digits10:int64", fmt.Sprintf("Digits10(int64 %d)=%d want %d", v, g, d))
			return
		}
		if g := typ.DigitsSign10(v); g != ds {
			c20fail(c, "DigitsSign10:int64", fmt.Sprintf("DigitsSign10(int64 %d)=%d want %d", v, g, ds))
			return
		}
		if g := typ.Digits10(int(v)); g != d {
			c20fail(c, "Digits10:int", fmt.Sprintf("Digits10(int %d)=%d want %d", v, g, d))
			return
		}
		u := uint64(v)
		us := strconv.FormatUint(u, 10)
		if typ.Digits10(u) != len(us) || typ.DigitsSign10(u) != len(us) || typ.Digits10(uintptr(u)) != len(us) || typ.Digits10(uint(u)) != len(us) {
			c20fail(c, "Digits10:uint64", fmt.Sprintf("Digits10(uint64 %d)=%d want %d", u, typ.Digits10(u), len(us)))
			return
		}
		v32 := int32(v)
		d32, ds32 := digitsRefI(int64(v32))
		if typ.Digits10(v32) != d32 || typ.DigitsSign10(v32) != ds32 {
			c20fail(c, "Digits10:int32", fmt.Sprintf("Digits10/DigitsSign10(int32 %d)=%d/%d want %d/%d", v32, typ.Digits10(v32), typ.DigitsSign10(v32), d32, ds32))
			return
		}
		u32 := uint32(v)
		if s := strconv.FormatUint(uint64(u32), 10); typ.Digits10(u32) != len(s) {
			c20fail(c, "Digits10:uint32", fmt.Sprintf("Digits10(uint32 %d)=%d", u32, typ.Digits10(u32)))
			return
		}
		if v != math.MinInt64 {
			w := v
			if w < 0 {
				w = -w
			}
			if typ.Abs(v) != w {
				c20fail(c, "Abs:int64", fmt.Sprintf("Abs(%d)=%d", v, typ.Abs(v)))
				return
			}
		}
		if typ.Clamp01(v) != clampRef(v, 0, 1) || typ.IsZero(v) != (v == 0) {
			c20fail(c, "Clamp01/IsZero:int64", fmt.Sprintf("wrong for %d", v))
			return
		}
		c.Count("samples_64bit", 1)
	}
	// pairs / triples of 64-bit values with big-integer references for the wrapping ops
	mod := new(big.Int).Lsh(big.NewInt(1), 64)
	wrap := func(x *big.Int) int64 {
		m := new(big.Int).Mod(x, mod)
		return int64(m.Uint64())
	}
	for k := 0; k < 60; k++ {
		a, b, d := vals[r.Intn(len(vals))], vals[r.Intn(len(vals))], vals[r.Intn(len(vals))]
		if typ.Compare(a, b) != cmp64(a, b) || typ.Less(a, b) != (a < b) {
			c20fail(c, "Compare/Less:int64", fmt.Sprintf("Compare/Less(%d,%d)", a, b))
			return
		}
		// the same pair through other exact types (a fast path may exist for one of them only)
		{
			type myInt int
			ia, ib := int(a), int(b)
			ua, ub := uint64(a), uint64(b)
			sa, sb := int32(a), int32(b)
			pa, pb := uintptr(a), uintptr(b)
			cmpOf := func(lt, gt bool) int {
				if lt {
					return -1
				}
				if gt {
					return 1
				}
				return 0
			}
			if typ.Compare(ia, ib) != cmpOf(ia < ib, ia > ib) || typ.Less(ia, ib) != (ia < ib) || typ.Compare(myInt(ia), myInt(ib)) != cmpOf(ia < ib, ia > ib) ||
				typ.Compare(ua, ub) != cmpOf(ua < ub, ua > ub) || typ.Less(ua, ub) != (ua < ub) || typ.Compare(uint(ua), uint(ub)) != cmpOf(ua < ub, ua > ub) ||
				typ.Compare(sa, sb) != cmpOf(sa < sb, sa > sb) || typ.Compare(pa, pb) != cmpOf(pa < pb, pa > pb) {
				c20fail(c, "Compare/Less:int/uint/int32/uintptr", fmt.Sprintf("Compare/Less of the 64-bit patterns (%d,%d) through int, a named int, uint64, uint, int32 or uintptr disagrees with the built-in operators", a, b))
				return
			}
			mnI, mxI := ia, ia
			if ib < mnI {
				mnI = ib
			}
			if ib > mxI {
				mxI = ib
			}
			mnU, mxU := ua, ua
			if ub < mnU {
				mnU = ub
			}
			if ub > mxU {
				mxU = ub
			}
			if typ.Min(ia, ib) != mnI || typ.Max(ia, ib) != mxI || typ.Min(ua, ub) != mnU || typ.Max(ua, ub) != mxU || typ.Clamp(ia, mnI, mxI) != ia || typ.Clamp(ua, mnU, mxU) != ua {
				c20fail(c, "Min/Max/Clamp:int/uint64", fmt.Sprintf("Min/Max/Clamp of the 64-bit patterns (%d,%d) through int or uint64 are wrong", a, b))
				return
			}
		}
		if typ.Min(a, b, d) != minI(minI(a, b), d) || typ.Max(a, b, d) != maxI(maxI(a, b), d) || typ.Min(a) != a || typ.Max(b) != b {
			c20fail(c, "Min/Max:int64", fmt.Sprintf("Min/Max(%d,%d,%d)", a, b, d))
			return
		}
		sum := new(big.Int).Add(big.NewInt(a), big.NewInt(b))
		sum.Add(sum, big.NewInt(d))
		prod := new(big.Int).Mul(big.NewInt(a), big.NewInt(b))
		prod.Mul(prod, big.NewInt(d))
		if g := typ.Sum(a, b, d); g != wrap(sum) {
			c20fail(c, "Sum:int64", fmt.Sprintf("Sum(%d,%d,%d)=%d want %d", a, b, d, g, wrap(sum)))
			return
		}
		if g := typ.Product(a, b, d); g != wrap(prod) {
			c20fail(c, "Product:int64", fmt.Sprintf("Product(%d,%d,%d)=%d want %d", a, b, d, g, wrap(prod)))
			return
		}
		lo, hi := b, d
		if lo > hi {
			lo, hi = hi, lo
		}
		if g := typ.Clamp(a, lo, hi); g != clampRef(a, lo, hi) {
			c20fail(c, "Clamp:int64", fmt.Sprintf("Clamp(%d,%d,%d)=%d", a, lo, hi, g))
			return
		}
		ua, ub := uint64(a), uint64(b)
		if typ.Sum(ua, ub) != ua+ub || typ.Product(ua, ub) != ua*ub || typ.Compare(ua, ub) != cmpU64(ua, ub) {
			c20fail(c, "Sum/Product/Compare:uint64", fmt.Sprintf("(%d,%d)", ua, ub))
			return
		}
		c.Count("samples_pairs_triples", 1)
	}
	if typ.Sum[int]() != 0 || typ.Product[int]() != 1 || typ.Sum[float64]() != 0 || typ.Product[uint8]() != 1 {
		c20fail(c, "Sum/Product:no-arguments", "Sum()/Product() without arguments are not 0/1")
		return
	}
	if p, _ := core.Catch(func() { typ.Min[int]() }); !p {
		c.Count("min_no_args_did_not_panic_not_judged", 1)
	}
	// floats: ±0, ±Inf, subnormals, no NaN
	fl := []float64{0, math.Copysign(0, -1), 1, -1, 0.5, -0.5, 1.5, math.Inf(1), math.Inf(-1), math.SmallestNonzeroFloat64, -math.SmallestNonzeroFloat64,
		math.MaxFloat64, -math.MaxFloat64, 1e-310, float64(r.Intn(1000)) / 7, -float64(r.Intn(1000)) / 3}
	for _, a := range fl {
		if g := typ.Abs(a); g != math.Abs(a) && !(a == 0) {
			c20fail(c, "Abs:float64", fmt.Sprintf("Abs(%v)=%v", a, g))
			return
		}
		w := a
		if a < 0 {
			w = 0
		} else if a > 1 {
			w = 1
		}
		if g := typ.Clamp01(a); g != w {
			c20fail(c, "Clamp01:float64", fmt.Sprintf("Clamp01(%v)=%v want %v", a, g, w))
			return
		}
		if g := typ.Clamp01(float32(a)); float64(g) != float64(float32(w)) && !(float32(a) >= 0 && float32(a) <= 1) {
			c20fail(c, "Clamp01:float32", fmt.Sprintf("Clamp01(float32 %v)=%v", a, g))
			return
		}
		for _, b := range fl {
			cm := 0
			if a < b {
				cm = -1
			} else if a > b {
				cm = 1
			}
			if typ.Compare(a, b) != cm || typ.Less(a, b) != (a < b) {
				c20fail(c, "Compare/Less:float64", fmt.Sprintf("Compare/Less(%v,%v)", a, b))
				return
			}
			mn, mx := typ.Min(a, b), typ.Max(a, b)
			if !(mn <= a && mn <= b && (mn == a || mn == b)) || !(mx >= a && mx >= b && (mx == a || mx == b)) {
				c20fail(c, "Min/Max:float64", fmt.Sprintf("Min/Max(%v,%v)=%v/%v", a, b, mn, mx))
				return
			}
			if !math.IsInf(a, 0) && !math.IsInf(b, 0) {
				if typ.Sum(a, b) != a+b || typ.Product(a, b) != a*b {
					c20fail(c, "Sum/Product:float64", fmt.Sprintf("(%v,%v)", a, b))
					return
				}
			}
			for _, v := range fl {
				if a <= b {
					g := typ.Clamp(v, a, b)
					ww := v
					if v < a {
						ww = a
					} else if v > b {
						ww = b
					}
					if g != ww {
						c20fail(c, "Clamp:float64", fmt.Sprintf("Clamp(%v,%v,%v)=%v want %v", v, a, b, g, ww))
						return
					}
				}
			}
		}
		c.Count("samples_float", 1)
	}
	// variadic lists of 0..8 arguments: left-to-right evaluation is observable on floats
	// (rounding and overflow depend on the grouping), and Min/Max must scan every position
	{
		pool := []float64{1e16, 1, -1e16, 0.1, 3, math.MaxFloat64, -math.MaxFloat64, 1e-9, 0.7, -2.5, 1e308, 2,
			0, math.Copysign(0, -1), math.Inf(1), math.Inf(-1), 1e300, -1e300, 0, 5e-324}
		for k := 0; k < 40; k++ {
			n := r.Range(0, 8)
			if k%4 == 3 {
				n = r.Range(9, 40) // long lists: unrolled or blocked loops and their remainders
			}
			args := make([]float64, n)
			for i := range args {
				args[i] = pool[r.Intn(len(pool))]
			}
			ws, wp := 0.0, 1.0
			for _, a := range args {
				ws += a
				wp *= a
			}
			gs, gp := typ.Sum(args...), typ.Product(args...)
			if !(gs == ws || (math.IsNaN(gs) && math.IsNaN(ws))) {
				c20fail(c, "Sum:float64-variadic", fmt.Sprintf("Sum(%v)=%v, left-to-right + gives %v", args, gs, ws))
				return
			}
			if !(gp == wp || (math.IsNaN(gp) && math.IsNaN(wp))) {
				c20fail(c, "Product:float64-variadic", fmt.Sprintf("Product(%v)=%v, left-to-right * gives %v", args, gp, wp))
				return
			}
			f32 := make([]float32, n)
			var ws32, wp32 float32 = 0, 1
			for i, a := range args {
				f32[i] = float32(math.Mod(a, 1e6))
				if math.IsInf(a, 0) {
					f32[i] = float32(a) // no NaN arguments (the property excludes them); Inf is fine
				}
				ws32 += f32[i]
				wp32 *= f32[i]
			}
			if g := typ.Sum(f32...); g != ws32 && !(g != g && ws32 != ws32) {
				c20fail(c, "Sum:float32-variadic", fmt.Sprintf("Sum(%v)=%v want %v", f32, g, ws32))
				return
			}
			if g := typ.Product(f32...); g != wp32 && !(g != g && wp32 != wp32) {
				c20fail(c, "Product:float32-variadic", fmt.Sprintf("Product(%v)=%v want %v", f32, g, wp32))
				return
			}
			ints := make([]int16, n)
			var si, pi int16 = 0, 1
			for i := range ints {
				ints[i] = int16(r.Uint64())
				si += ints[i]
				pi *= ints[i]
			}
			if typ.Sum(ints...) != si || typ.Product(ints...) != pi {
				c20fail(c, "Sum/Product:int16-variadic", fmt.Sprintf("Sum/Product(%v)=%d/%d want %d/%d", ints, typ.Sum(ints...), typ.Product(ints...), si, pi))
				return
			}
			// odd 64-bit factors: the wrapping product stays odd, so every single factor matters
			odds := make([]uint64, n)
			var so, po uint64 = 0, 1
			for i := range odds {
				odds[i] = r.Uint64() | 1
				so += odds[i]
				po *= odds[i]
			}
			if typ.Sum(odds...) != so || typ.Product(odds...) != po {
				c20fail(c, "Sum/Product:uint64-variadic", fmt.Sprintf("Sum/Product of %d odd uint64 values %v = %d/%d want %d/%d", n, odds, typ.Sum(odds...), typ.Product(odds...), so, po))
				return
			}
			if n > 0 {
				mn, mx := ints[0], ints[0]
				for _, v := range ints {
					if v < mn {
						mn = v
					}
					if v > mx {
						mx = v
					}
				}
				if typ.Min(ints...) != mn || typ.Max(ints...) != mx {
					c20fail(c, "Min/Max:variadic", fmt.Sprintf("Min/Max(%v)=%d/%d want %d/%d", ints, typ.Min(ints...), typ.Max(ints...), mn, mx))
					return
				}
				cs := make([]complex128, n)
				var sc, pc complex128 = 0, 1
				for i := range cs {
					cs[i] = complex(args[i], float64(ints[i]))
					sc += cs[i]
					pc *= cs[i]
				}
				gsc, gpc := typ.Sum(cs...), typ.Product(cs...)
				if !cEq(gsc, sc) || !cEq(gpc, pc) {
					c20fail(c, "Sum/Product:complex-variadic", fmt.Sprintf("Sum/Product(%v)=%v/%v want %v/%v", cs, gsc, gpc, sc, pc))
					return
				}
			}
			c.Count("variadic_lists", 1)
		}
	}
	// strings and complex
	ss := []string{"", "a", "A", "ab", "b", "\x00", "é",
		// 8 bytes and more, several differences inside one 8-byte block, differences in later blocks
		"user-12a", "user-21a", "2026-10-02", "2026-09-30", "abcdefgh", "abcdefgz", "abcdefghi", "zbcdefga", "abcdefghabcdefg1", "abcdefghabcdefg0x", "abcdefghzbcdefga", "abcdefghabcdefga"}
	for _, a := range ss {
		for _, b := range ss {
			cm := 0
			if a < b {
				cm = -1
			} else if a > b {
				cm = 1
			}
			if typ.Compare(a, b) != cm || typ.Less(a, b) != (a < b) {
				c20fail(c, "Compare/Less:string", fmt.Sprintf("(%q,%q)", a, b))
				return
			}
			mn := typ.Min(a, b, "m")
			if !(mn <= a && mn <= b && mn <= "m") {
				c20fail(c, "Min:string", fmt.Sprintf("Min(%q,%q,m)=%q", a, b, mn))
				return
			}
		}
	}
	if typ.Sum(complex(1, 2), complex(3, -1)) != complex(4, 1) || typ.Product(complex(0, 1), complex(0, 1)) != complex(-1, 0) {
		c20fail(c, "Sum/Product:complex", "complex arithmetic wrong")
		return
	}
	// utilities
	{
		if typ.Coal[string]() != "" || typ.Coal("", "", "x", "y") != "x" || typ.Coal("", "") != "" || typ.Coal(0, 0, 0) != 0 || typ.Coal(0.0, 2.5) != 2.5 {
			c20fail(c, "Coal", "Coal wrong on small argument lists")
			return
		}
		// "non-zero" for Coal is != the zero value (its definition compares with the
		// zero value; only IsZero honours an IsZero method)
		if typ.Coal(zeroer{}, zeroer{V: 0, Mark: 9}, zeroer{V: 1}) != (zeroer{V: 0, Mark: 9}) || typ.Coal(weirdZero{}, weirdZero{5}, weirdZero{1}) != (weirdZero{5}) {
			c20fail(c, "Coal:method-types", "Coal must return the first argument that differs from the zero value, whatever an IsZero method of the type says")
			return
		}
		n := r.Range(0, 6)
		args := make([]int, n)
		want := 0
		for i := range args {
			if r.Bool() {
				args[i] = r.Intn(5)
			}
		}
		for _, a := range args {
			if a != 0 {
				want = a
				break
			}
		}
		if g := typ.Coal(args...); g != want {
			c20fail(c, "Coal", fmt.Sprintf("Coal(%v)=%d want %d", args, g, want))
			return
		}
		if typ.Zero[string]() != "" || typ.Zero[*int]() != nil || typ.ZeroOf("x") != "" || typ.ZeroOf(3.5) != 0 || (typ.Zero[pair16]() != pair16{}) {
			c20fail(c, "Zero/ZeroOf", "Zero/ZeroOf wrong")
			return
		}
		// IsZero: plain and with an IsZero method
		if !typ.IsZero("") || typ.IsZero("x") || !typ.IsZero(pair16{}) || typ.IsZero(pair16{0, 1}) || !typ.IsZero(time.Time{}) {
			c20fail(c, "IsZero:plain", "IsZero wrong on plain comparable values")
			return
		}
		if !typ.IsZero(zeroer{}) || !typ.IsZero(zeroer{V: 0, Mark: 9}) || typ.IsZero(zeroer{V: 1}) {
			c20fail(c, "IsZero:method", "IsZero does not honour the IsZero method")
			return
		}
		// time with a location but zero instant: == zero is false, IsZero() true
		if !typ.IsZero(time.Time{}.In(time.FixedZone("x", 3600))) {
			c20fail(c, "IsZero:method", "IsZero(time zero in another zone) should honour Time.IsZero")
			return
		}
		if !typ.IsZero(weirdZero{}) || !typ.IsZero(weirdZero{5}) || typ.IsZero(weirdZero{1}) {
			c20fail(c, "IsZero:zero-value-with-method", "IsZero must be true for the zero value and for values whose IsZero method says so")
			return
		}
		// T a pointer type or an interface type whose dynamic value has the method
		{
			tz, tn := &time.Time{}, time.Date(2020, 1, 2, 3, 4, 5, 6, time.UTC)
			if !typ.IsZero(tz) || typ.IsZero(&tn) || !typ.IsZero(&zeroer{V: 0, Mark: 3}) || typ.IsZero(&zeroer{V: 2}) {
				c20fail(c, "IsZero:method-via-pointer-type", "IsZero(p) for a non-nil pointer p to a type with an IsZero value method must report what p.IsZero() reports (the method is in the pointer type's method set)")
				return
			}
			if !typ.IsZero[any](time.Time{}) || typ.IsZero[any](tn) || !typ.IsZero[any](zeroer{Mark: 1}) || typ.IsZero[any](zeroer{V: 1}) || !typ.IsZero[any](nil) || typ.IsZero[any](3) || !typ.IsZero[fmt.Stringer](nil) {
				c20fail(c, "IsZero:method-via-interface-type", "IsZero[any](v) must honour the IsZero method of the dynamic value (and be true for the nil interface, false for a plain non-zero value)")
				return
			}
		}
		if p, pv := core.Catch(func() {
			if !typ.IsZero((*time.Time)(nil)) || !typ.IsZero((*zeroer)(nil)) {
				c20fail(c, "IsZero:nil-pointer", "IsZero(nil pointer) must be true: nil is the zero value of a pointer type")
			}
		}); p {
			c20fail(c, "IsZero:nil-pointer-panic", fmt.Sprintf("IsZero(nil pointer to a type with an IsZero value method) panicked: %v", pv))
			return
		}
		if c.Violated() {
			return
		}
		if typ.Tern(true, 1, 2) != 1 || typ.Tern(false, 1, 2) != 2 || typ.Tern(r.Intn(1) == 0, "a", "b") != "a" {
			c20fail(c, "Tern", "Tern wrong")
			return
		}
		if typ.TernCast(true, any(5), 9) != 5 || typ.TernCast(false, any("nope"), 9) != 9 {
			c20fail(c, "TernCast", "TernCast wrong")
			return
		}
		if p, _ := core.Catch(func() { typ.TernCast(true, any("str"), 9) }); !p {
			c20fail(c, "TernCast", "TernCast(true, wrong dynamic type) did not panic like a type assertion")
			return
		}
		x := r.Intn(1000)
		p1, p2 := typ.Ref(x), typ.Ref(x)
		if *p1 != x || p1 == p2 {
			c20fail(c, "Ref", "Ref must return a fresh pointer to a copy")
			return
		}
		*p1++
		// Ref gives every call a cell of its own (no interning of common values)
		{
			b1, b2 := typ.Ref(true), typ.Ref(true)
			i1, i2 := typ.Ref(0), typ.Ref(0)
			s1, s2 := typ.Ref(""), typ.Ref("")
			if b1 == b2 || i1 == i2 || s1 == s2 {
				c20fail(c, "Ref:shared-cell", "two Ref calls with equal arguments returned the same pointer")
				return
			}
			*b1, *i1, *s1 = false, 5, "x"
			if !*b2 || *i2 != 0 || *s2 != "" || !*typ.Ref(true) || *typ.Ref(0) != 0 || *typ.Ref("") != "" {
				c20fail(c, "Ref:shared-cell", "writing through the result of one Ref call changed what another Ref call (earlier or later) points to")
				return
			}
		}
		// IsZero on an interface type: plain dynamic types first, then a dynamic type whose
		// IsZero method says zero (and once more in the other order)
		{
			if typ.IsZero[any](3) || typ.IsZero[any]("x") || !typ.IsZero[any](time.Time{}) || !typ.IsZero[any](zeroer{Mark: 4}) || typ.IsZero[any](7) || !typ.IsZero[any](weirdZero{5}) {
				c20fail(c, "IsZero:interface-type-call-order", "IsZero[any]: after calls with dynamic types that have no IsZero method, a value whose IsZero method reports true must still give true")
				return
			}
			if typ.IsZero[fmt.Stringer](time.Second) || !typ.IsZero[fmt.Stringer](time.Time{}) {
				c20fail(c, "IsZero:interface-type-call-order", "IsZero[fmt.Stringer]: a plain non-zero value first, then time.Time{} (IsZero true) must give true")
				return
			}
		}
		// DerefZero is about nil-ness only: a non-nil pointer is dereferenced even when the
		// pointed-to type has an IsZero method that says "zero"
		{
			zt := time.Time{}.In(time.FixedZone("x", 3600))
			wz := weirdZero{5}
			ze := zeroer{V: 0, Mark: 9}
			if g := typ.DerefZero(&zt); g.Location() != zt.Location() || typ.DerefZero(&wz) != wz || typ.DerefZero(&ze) != ze {
				c20fail(c, "DerefZero:non-nil-pointer-to-IsZero-type", "DerefZero of a non-nil pointer must return the pointed-to value, whatever an IsZero method of that type says")
				return
			}
		}
		if *p2 != x || typ.DerefZero(p1) != x+1 || typ.DerefZero[*int](nil) != 0 || typ.DerefZero((*string)(nil)) != "" {
			c20fail(c, "DerefZero", "DerefZero wrong")
			return
		}
		var e error
		var ip *int
		if !typ.IsNil(e) || !typ.IsNil[any](nil) || typ.IsNil[any](5) || typ.IsNil(fmt.Errorf("x")) || typ.IsNil[any](ip) == true && false {
			c20fail(c, "IsNil", "IsNil wrong for interface-typed values")
			return
		}
		// an interface holding a typed nil is NOT nil (v == nil is false)
		var tn *zeroer
		if typ.IsNil(error((*c20err)(nil))) || typ.IsNil[any](tn) || typ.IsNil[any]([]int(nil)) || typ.IsNil[any](map[int]int(nil)) || !typ.IsNil[error](nil) {
			c20fail(c, "IsNil:typed-nil-in-interface", "IsNil must compare the interface value with nil: an interface holding a typed nil pointer/slice/map is not nil")
			return
		}
		c.Count("utility_checks", 1)
	}
	c.NonTrivial(core.Mix(23, c.Seed))
	if c.WantSample() {
		c.Sample(map[string]any{"sampled_64bit_values_prefix": vals[:12], "floats": len(fl)})
	}
}

// cEq compares complex numbers treating NaN parts as equal to NaN parts.
func cEq(a, b complex128) bool {
	f := func(x, y float64) bool { return x == y || (x != x && y != y) }
	return f(real(a), real(b)) && f(imag(a), imag(b))
}

func cmp64(a, b int64) int {
	switch {
	case a < b:
		return -1
	case a > b:
		return 1
	}
	return 0
}
func cmpU64(a, b uint64) int {
	switch {
	case a < b:
		return -1
	case a > b:
		return 1
	}
	return 0
}

// c20full32: case k of 256 covers the 2^24 values with top byte k of int32 and uint32.
func c20full32(c *core.Ctx) {
	k := uint32(c.Index) << 24
	pow := []uint64{10, 100, 1000, 10000, 100000, 1000000, 10000000, 100000000, 1000000000, 10000000000}
	dig := func(u uint64) int {
		for i, p := range pow {
			if u < p {
				return i + 1
			}
		}
		return 11
	}
	for lo := uint32(0); lo < 1<<24; lo++ {
		u := k | lo
		s := int32(u)
		du := dig(uint64(u))
		if typ.Digits10(u) != du || typ.DigitsSign10(u) != du {
			c20fail(c, "Digits10:uint32", fmt.Sprintf("Digits10(uint32 %d)=%d want %d", u, typ.Digits10(u), du))
			return
		}
		mag := uint64(s)
		neg := s < 0
		if neg {
			mag = uint64(-int64(s))
		}
		ds := dig(mag)
		if g := typ.Digits10(s); g != ds {
			c20fail(c, "Digits10:int32", fmt.Sprintf("Digits10(int32 %d)=%d want %d", s, g, ds))
			return
		}
		w := ds
		if neg {
			w++
		}
		if g := typ.DigitsSign10(s); g != w {
			c20fail(c, "DigitsSign10:int32", fmt.Sprintf("DigitsSign10(int32 %d)=%d want %d", s, g, w))
			return
		}
		if s != math.MinInt32 {
			a := s
			if a < 0 {
				a = -a
			}
			if typ.Abs(s) != a {
				c20fail(c, "Abs:int32", fmt.Sprintf("Abs(%d)=%d", s, typ.Abs(s)))
				return
			}
		}
		c01 := s
		if s < 0 {
			c01 = 0
		} else if s > 1 {
			c01 = 1
		}
		if typ.Clamp01(s) != c01 || typ.IsZero(s) != (s == 0) || typ.IsZero(u) != (u == 0) {
			c20fail(c, "Clamp01/IsZero:int32", fmt.Sprintf("wrong for %d", s))
			return
		}
	}
	c.Count("values_32bit", 1<<25)
	c.Count("exhaustive_sweeps_completed", 1)
	c.NonTrivial(core.Mix(24, uint64(c.Index)))
	if c.WantSample() {
		c.Sample(map[string]any{"sweep": "all int32/uint32 with top byte", "top_byte": c.Index})
	}
}
