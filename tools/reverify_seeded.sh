#!/bin/bash
# tools/reverify_seeded.sh [names...]: re-run every kept mutant against /repo HEAD with the check of its property
# (quick tier, or the tier named in meta.json) and print one line per mutant. Applies patches to /repo and undoes them: do not run while another
# check is using /repo.
here=$(cd "$(dirname "$0")/.." && pwd); cd $here
names="$@"; [ -z "$names" ] && names=$(ls -d seeded/*/ | xargs -n1 basename)
for n in $names; do
  d=$here/seeded/$n
  prop=$(python3 -c "import json;print(json.load(open('$d/meta.json'))['property'])")
  alt=$(python3 -c "import json;print(json.load(open('$d/meta.json')).get('also_run',''))")
  tier=$(python3 -c "import json;print(json.load(open('$d/meta.json')).get('tier','quick'))")
  if ! git -C /repo apply --check $d/patch.diff 2>/dev/null; then echo "SEEDED $n prop=$prop PATCH-DOES-NOT-APPLY"; continue; fi
  git -C /repo apply $d/patch.diff
  res=""
  for p in $prop $alt; do
    ./check $p $tier > /tmp/reverify.out 2>&1; rc=$?
    sigs=$(grep -E '^  sig=' /tmp/reverify.out | sed -E 's/^  sig=([^ ]*) occ.*/\1/' | cut -c1-70 | head -3 | tr '\n' ' ')
    res="$res $p:exit=$rc [$sigs]"
  done
  git -C /repo checkout -- .
  echo "SEEDED $n$res"
done
