package props

import (
	"errors"
	"fmt"
	"math"
	"runtime"
	"sort"
	"strings"
	"sync"
	"time"

	tmaps "gopkg.in/typ.v4/maps"
	"gopkg.in/typ.v4/sets"
	"gopkg.in/typ.v4/slices"
	"gopkg.in/typ.v4/sync2"
	"verifharness/internal/core"
)

// C14 — functional slice and map helpers equal their reference definitions.
// Naive reference loops; callbacks chosen to expose position/order/threading
// errors (non-commutative accumulators, call-counting converters, predicates
// driven by position, keyers with collisions). Every input is snapshotted
// before and compared after each call, and every returned slice/map is then
// scribbled on and the input compared again.
// Systematic: case index L < 7 <-> ALL slices over {a,A,b} of length L.

func init() { register("C14", runC14) }

var c14alpha = []string{"a", "A", "b"}

func runC14(c *core.Ctx) {
	if c.Mode == "readers" {
		c14readers(c)
		return
	}
	r := c.R
	if c.Index < 7 {
		L := int(c.Index)
		total := 1
		for i := 0; i < L; i++ {
			total *= 3
		}
		for code := 0; code < total; code++ {
			s := make([]string, L)
			x := code
			for i := range s {
				s[i] = c14alpha[x%3]
				x /= 3
			}
			if !funcAll(c, s, r) {
				return
			}
		}
		c.Count("exhaustive_sweeps_completed", 1)
		c.NonTrivial(core.Mix(14, uint64(L)))
		if c.WantSample() {
			c.Sample(map[string]any{"systematic": true, "length": L, "alphabet": "{a,A,b}", "slices": total})
		}
		return
	}
	n := r.Range(0, 2000)
	if r.Chance(2, 3) {
		n = r.Range(0, 30)
	}
	if c.Index%400 == 11 && c.Mode != "par" {
		c14big(c)
		return
	}
	if c.Index == 7 {
		// float elements with both zeros: == decides, not the bit pattern
		nz := math.Copysign(0, -1)
		fs := []float64{1, nz, 2, 0, nz, 3}
		ex := tmaps.NewSetFromSlice([]float64{0})
		d := slices.Distinct(fs)
		if slices.Index(fs, 0.0) != 1 || !slices.Contains([]float64{5, nz}, 0.0) || len(d) != 4 || !math.Signbit(d[1]) ||
			len(slices.Except(fs, []float64{0})) != 3 || len(slices.ExceptSet(fs, ex)) != 3 || len(slices.Trim(fs[1:2], []float64{0})) != 0 ||
			len(slices.CountBy(fs, func(v float64) float64 { return v })) != 4 {
			c.Violate("floats:signed-zero", fmt.Sprintf("over %v (with -0.0 and +0.0): Index(+0.0)=%d, Distinct=%v, Except([0])=%v, ExceptSet({0})=%v, CountBy groups=%d; -0.0 == +0.0 must be treated as one value (first occurrence kept)", fs, slices.Index(fs, 0.0), d, slices.Except(fs, []float64{0}), slices.ExceptSet(fs, ex), len(slices.CountBy(fs, func(v float64) float64 { return v }))), nil)
			return
		}
		c.Count("float_element_cases", 1)
		// byte slices with bytes >= 0x80: every byte is an element of its own (not UTF-8)
		bs := []byte{0x80, 'a', 0xC3, 'b', 0xA9, 0xFF}
		if got := slices.Trim(bs, []byte{0xFF}); !eqSlice(got, bs[:5]) {
			c.Violate("Trim:high-bytes", fmt.Sprintf("Trim(%v, [0xFF]) = %v", bs, got), nil)
			return
		}
		if got := slices.Trim([]byte{0xC3, 'a', 'b', 0xA9}, []byte{0xC3, 0xA9}); !eqSlice(got, []byte{'a', 'b'}) {
			c.Violate("Trim:high-bytes", fmt.Sprintf("Trim([0xC3 a b 0xA9], [0xC3 0xA9]) = %v", got), nil)
			return
		}
		if got := slices.TrimLeft(bs, []byte{0x80, 0xFF}); !eqSlice(got, bs[1:]) || !eqSlice(slices.TrimRight(bs, []byte{0x80, 0xFF}), bs[:5]) || slices.Index(bs, 0xA9) != 4 {
			c.Violate("Trim:high-bytes", fmt.Sprintf("TrimLeft/TrimRight/Index over %v with high bytes are wrong", bs), nil)
			return
		}
		// element types with an Equal method: the helpers compare with ==, nothing else
		t1 := time.Date(2024, 5, 6, 7, 8, 9, 0, time.UTC)
		t2 := t1.In(time.FixedZone("east", 3600)) // t1.Equal(t2) but t1 != t2
		ts := []time.Time{t1, t1, t2}
		if slices.Index(ts, t2) != 2 || slices.Contains(ts[:2], t2) || len(slices.Distinct(ts)) != 2 || len(slices.Except(ts, []time.Time{t2})) != 2 || len(slices.Trim(ts, []time.Time{t2})) != 2 {
			c.Violate("Equal-method-element-type", "over time.Time values that are Equal but not == (same instant, two locations): Index/Contains/Distinct/Except/Trim must compare with ==", nil)
			return
		}
	}
	alpha := []string{"a", "A", "b", "B", "c", "dd", "", "e", "E", "zz"}[:r.Range(1, 10)]
	if r.Chance(1, 2) {
		// large universes: many distinct values / keys, with case-fold collisions
		u := r.Range(11, 64)
		alpha = alpha[:0:0]
		for i := 0; i < u; i++ {
			if i%3 == 2 {
				alpha = append(alpha, fmt.Sprintf("K%d", i-1))
			} else {
				alpha = append(alpha, fmt.Sprintf("k%d", i))
			}
		}
		if n < 100 && r.Bool() {
			n = r.Range(u, 4*u)
		}
	}
	s := make([]string, n)
	for i := range s {
		s[i] = alpha[r.Intn(len(alpha))]
	}
	if r.Chance(1, 10) {
		s = nil
	}
	if !funcAll(c, s, r) {
		return
	}
	if !c14nested(c, s, r) {
		return
	}
	c.NonTrivial(core.Mix(15, c.Seed))
	if c.WantSample() {
		c.Sample(map[string]any{"length": len(s), "prefix": clipS(s)})
	}
}

// c14nested: callbacks that use the helpers themselves. While an outer Map / Filter /
// Fold / GroupBy / DistinctFunc / IndexFunc / Any call is in progress, some of its
// callback invocations run inner helper calls on another slice; inner and outer
// results must both equal the plain definitions (a helper that keeps scratch state
// between calls - a pooled buffer, a package-level map - mixes them up).
func c14nested(c *core.Ctx, in []string, r *core.Rand) bool {
	if len(in) == 0 || len(in) > 80 {
		return true
	}
	other := make([]string, r.Range(1, 40))
	for i := range other {
		other[i] = in[r.Intn(len(in))] + fmt.Sprint(i%5)
	}
	innerMsg := ""
	budget := 60
	inner := func() {
		if innerMsg != "" || budget == 0 || !r.Chance(1, 6) {
			return
		}
		budget--
		c.Count("nested_helper_calls_in_callbacks", 1)
		// plain definitions
		var wantF, wantD []string
		seen := map[string]bool{}
		for _, v := range other {
			if strings.HasSuffix(v, "1") || strings.HasSuffix(v, "3") {
				wantF = append(wantF, v)
			}
			if !seen[v] {
				seen[v] = true
				wantD = append(wantD, v)
			}
		}
		if got := slices.Filter(other, func(v string) bool { return strings.HasSuffix(v, "1") || strings.HasSuffix(v, "3") }); !eqSlice(got, wantF) {
			innerMsg = fmt.Sprintf("inner Filter gives %q want %q", got, wantF)
		}
		if got := slices.Distinct(other); !eqSlice(got, wantD) {
			innerMsg = fmt.Sprintf("inner Distinct gives %q want %q", got, wantD)
		}
		if got := slices.Map(other, func(v string) int { return len(v) }); len(got) != len(other) || got[0] != len(other[0]) || got[len(got)-1] != len(other[len(other)-1]) {
			innerMsg = fmt.Sprintf("inner Map gives %v", got)
		}
		g := slices.GroupBy(other, func(v string) byte { return v[len(v)-1] })
		tot := 0
		for _, gr := range g {
			tot += len(gr.Values)
		}
		if tot != len(other) {
			innerMsg = fmt.Sprintf("inner GroupBy groups hold %d of %d values", tot, len(other))
		}
		if got := slices.Except(other, other[:1]); len(got) > len(other)-1 {
			innerMsg = fmt.Sprintf("inner Except kept %d of %d values although the first one is excluded", len(got), len(other))
		}
		if got := slices.Fold(other, "", func(st, v string) string { return st + v[:1] }); len(got) != len(other) {
			innerMsg = fmt.Sprintf("inner Fold visited %d of %d values", len(got), len(other))
		}
	}
	snap := append([]string(nil), in...)
	fail := func(sig, msg string) bool {
		c.Violate(sig, fmt.Sprintf("%s [input %q; the callbacks of this call used the helpers on another slice %q]", msg, clipS(snap), clipS(other)), nil)
		return false
	}
	// outer calls
	var wantM []string
	var wantFil []string
	var wantDis []string
	for i, v := range snap {
		wantM = append(wantM, v+"!")
		if i%2 == 0 {
			wantFil = append(wantFil, v)
		}
		dup := false
		for _, d := range wantDis {
			if strings.EqualFold(d, v) {
				dup = true
			}
		}
		if !dup {
			wantDis = append(wantDis, v)
		}
	}
	// callbacks may look at the input while the helper runs: it must read as the caller left it
	sawChanged := false
	look := func() {
		if in[0] != snap[0] || in[len(in)-1] != snap[len(snap)-1] || in[len(in)/2] != snap[len(snap)/2] {
			sawChanged = true
		}
	}
	if got := slices.Map(in, func(v string) string { inner(); look(); return v + "!" }); !eqSlice(got, wantM) {
		return fail("Map:nested-helper-calls", fmt.Sprintf("Map gives %q want %q", clipS(got), clipS(wantM)))
	}
	pos := 0
	if got := slices.Filter(in, func(v string) bool { inner(); pos++; return (pos-1)%2 == 0 }); !eqSlice(got, wantFil) {
		return fail("Filter:nested-helper-calls", fmt.Sprintf("Filter (every other position) gives %q want %q", clipS(got), clipS(wantFil)))
	}
	if got := slices.Fold(in, "", func(st, v string) string { inner(); look(); return st + v + "," }); got != strings.Join(snap, ",")+"," {
		return fail("Fold:nested-helper-calls", fmt.Sprintf("Fold gives %q", got))
	}
	if got := slices.FoldReverse(in, 0, func(st int, v string) int { inner(); look(); return st*31 + len(v) }); got != func() int {
		st := 0
		for i := len(snap) - 1; i >= 0; i-- {
			st = st*31 + len(snap[i])
		}
		return st
	}() {
		return fail("FoldReverse:nested-helper-calls", "FoldReverse gives a wrong state")
	}
	if got := slices.DistinctFunc(in, func(a, b string) bool { inner(); return strings.EqualFold(a, b) }); !eqSlice(got, wantDis) {
		return fail("DistinctFunc:nested-helper-calls", fmt.Sprintf("DistinctFunc gives %q want %q", clipS(got), clipS(wantDis)))
	}
	gs := slices.GroupBy(in, func(v string) string { inner(); return strings.ToLower(v) })
	tot := 0
	for _, g := range gs {
		for _, v := range g.Values {
			if strings.ToLower(v) != g.Key {
				return fail("GroupBy:nested-helper-calls", fmt.Sprintf("group %q holds %q", g.Key, v))
			}
		}
		tot += len(g.Values)
	}
	if tot != len(snap) {
		return fail("GroupBy:nested-helper-calls", fmt.Sprintf("groups hold %d of %d values", tot, len(snap)))
	}
	last := len(snap) - 1
	k := 0
	if got := slices.IndexFunc(in, func(v string) bool { inner(); k++; return k-1 == last }); got != last {
		return fail("IndexFunc:nested-helper-calls", fmt.Sprintf("IndexFunc (match at the last position) = %d want %d", got, last))
	}
	if got := slices.All(in, func(v string) bool { inner(); return true }); !got {
		return fail("All:nested-helper-calls", "All(true) = false")
	}
	if innerMsg != "" {
		return fail("nested-helper-call", "inside a callback: "+innerMsg)
	}
	slices.Filter(in, func(string) bool { look(); return false })
	slices.GroupBy(in, func(v string) int { look(); return len(v) })
	slices.DistinctFunc(in, func(a, b string) bool { look(); return a == b })
	if sawChanged {
		return fail("input-changed-during-call", "a callback of Map/Fold/FoldReverse/Filter/GroupBy/DistinctFunc looked at the input slice while the helper was running and found it changed")
	}
	// the helpers instantiated with a DEFINED slice type: same results as with []string
	{
		type names []string
		ni := names(in)
		same := func(a names, b []string) bool { return eqSlice([]string(a), b) }
		pred := func(v string) bool { return len(v)%2 == 1 }
		if !same(slices.Filter(ni, pred), slices.Filter(in, pred)) || !same(slices.Distinct(ni), slices.Distinct(in)) ||
			!same(slices.Except(ni, ni[:1]), slices.Except(in, in[:1])) || !same(slices.Trim(ni, ni[:1]), slices.Trim(in, in[:1])) ||
			!same(slices.DistinctFunc(ni, strings.EqualFold), slices.DistinctFunc(in, strings.EqualFold)) ||
			slices.Index(ni, in[len(in)-1]) != slices.Index(in, in[len(in)-1]) || len(slices.GroupBy(ni, func(v string) int { return len(v) })) != len(slices.GroupBy(in, func(v string) int { return len(v) })) {
			return fail("defined-slice-type", "with a defined slice type (type names []string) Filter/Distinct/Except/Trim/DistinctFunc/Index/GroupBy give other results than with []string")
		}
	}
	// the same slice changed in place and passed again: every helper must look at it afresh
	{
		_ = slices.Distinct(in)
		_ = slices.Index(in, in[0])
		_ = slices.GroupBy(in, func(v string) string { return v })
		_ = slices.CountBy(in, func(v string) string { return v })
		old0 := in[0]
		in[0] = "<changed-in-place>"
		d := slices.Distinct(in)
		g := slices.GroupBy(in, func(v string) string { return v })
		cb := slices.CountBy(in, func(v string) string { return v })
		bad := len(d) == 0 || d[0] != in[0] || slices.Index(in, in[0]) != 0 || !slices.Contains(in, in[0]) ||
			len(g) == 0 || g[0].Key != in[0] || len(cb) == 0 || cb[0].Key != in[0] || cb[0].Count != 1 ||
			slices.Last(in) != in[len(in)-1] || slices.Map(in, func(v string) string { return v })[0] != in[0]
		in[0] = old0
		if bad {
			return fail("stale-after-in-place-change", "a helper called again after the slice was changed in place does not show the change")
		}
	}
	// callbacks that panic half way (the caller recovers): the next, ordinary call of the
	// same helper must not see anything left over from the aborted one
	{
		boomAt := r.Intn(len(in))
		try := func(f func()) { defer func() { recover() }(); f() }
		calls := 0
		boom := func() {
			if calls == boomAt {
				calls++
				panic("callback panics")
			}
			calls++
		}
		try(func() { slices.CountBy(in, func(v string) string { boom(); return strings.ToLower(v) }) })
		calls = 0
		try(func() { slices.GroupBy(in, func(v string) string { boom(); return strings.ToLower(v) }) })
		calls = 0
		try(func() { slices.Filter(in, func(v string) bool { boom(); return true }) })
		calls = 0
		try(func() { slices.Map(in, func(v string) string { boom(); return v }) })
		calls = 0
		try(func() { slices.DistinctFunc(in, func(a, b string) bool { boom(); return a == b }) })
		calls = 0
		try(func() { slices.Fold(in, 0, func(st int, v string) int { boom(); return st + 1 }) })
		calls = 0
		try(func() { slices.FoldReverse(in, 0, func(st int, v string) int { boom(); return st + 1 }) })
		if !eqSlice(in, snap) {
			return fail("input-modified-after-panicking-callback", "after a helper call whose callback panicked (recovered by the caller) the input slice is not what it was")
		}
		cnt := map[string]int{}
		var order []string
		for _, v := range snap {
			k := strings.ToLower(v)
			if cnt[k] == 0 {
				order = append(order, k)
			}
			cnt[k]++
		}
		cs := slices.CountBy(in, func(v string) string { return strings.ToLower(v) })
		gs2 := slices.GroupBy(in, func(v string) string { return strings.ToLower(v) })
		okc := len(cs) == len(order) && len(gs2) == len(order)
		for i := 0; okc && i < len(order); i++ {
			okc = cs[i].Key == order[i] && cs[i].Count == cnt[order[i]] && gs2[i].Key == order[i] && len(gs2[i].Values) == cnt[order[i]]
		}
		if !okc {
			return fail("CountBy/GroupBy:after-panicking-callback", fmt.Sprintf("after a CountBy/GroupBy call whose keyer panicked (recovered by the caller), an ordinary call gives %v / %d groups; the definition gives keys %q with counts %v", cs, len(gs2), order, cnt))
		}
		if got := slices.Filter(in, func(v string) bool { return true }); !eqSlice(got, snap) {
			return fail("Filter:after-panicking-callback", "after a Filter call whose predicate panicked, Filter(true) does not return every element")
		}
		if got := slices.Map(in, func(v string) string { return v }); !eqSlice(got, snap) {
			return fail("Map:after-panicking-callback", "after a Map call whose converter panicked, Map(identity) is not the identity")
		}
		if got := slices.Fold(in, 0, func(st int, v string) int { return st + 1 }); got != len(snap) {
			return fail("Fold:after-panicking-callback", "after a Fold call whose accumulator panicked, a counting Fold miscounts")
		}
		c.Count("helper_calls_after_panicking_callbacks", 1)
	}
	// results are the caller's: kept across later calls of the same helpers on OTHER
	// data, they must not change (a helper handing out a pooled or shared buffer would)
	{
		k1 := slices.Filter(in, func(v string) bool { return len(v)%2 == 0 })
		k2 := slices.Map(in, func(v string) string { return v + "?" })
		k3 := slices.Distinct(in)
		k4 := slices.Except(in, in[:1])
		k5 := slices.GroupBy(in, func(v string) int { return len(v) })
		s1, s2, s3, s4 := append([]string(nil), k1...), append([]string(nil), k2...), append([]string(nil), k3...), append([]string(nil), k4...)
		var s5 [][]string
		for _, g := range k5 {
			s5 = append(s5, append([]string(nil), g.Values...))
		}
		runtime.GC() // the kept results are partly the only reference to what they hold (Map builds new strings)
		for rep := 0; rep < 2; rep++ {
			_ = slices.Filter(other, func(v string) bool { return true })
			_ = slices.Map(other, func(v string) string { return "x" + v })
			_ = slices.Distinct(other)
			_ = slices.Except(other, other[:1])
			_ = slices.GroupBy(other, func(v string) int { return len(v) })
		}
		same := eqSlice(k1, s1) && eqSlice(k2, s2) && eqSlice(k3, s3) && eqSlice(k4, s4)
		for i, g := range k5 {
			same = same && eqSlice(g.Values, s5[i])
		}
		if !same {
			return fail("result-changed-by-later-call", "a slice returned by Filter/Map/Distinct/Except/GroupBy changed when the helper was called again on other data")
		}
	}
	if !eqSlice(in, snap) {
		return fail("nested:input-modified", "the input was modified")
	}
	c.Count("nested_callback_cases", 1)
	return true
}

// c14big: the linear helpers on 33 000..70 000 elements (beyond 2^15 and 2^16), under
// the default GOMAXPROCS and under 2, 3 and NumCPU/2+1 - thresholds above which a
// helper might switch to blocked or parallel processing.
func c14big(c *core.Ctx) {
	r := c.R
	n := r.Range(33000, 70000)
	in := make([]int, n, n+3)
	for i := range in {
		in[i] = r.Intn(50)
	}
	for i := n; i < n+3; i++ {
		in[:n+3][i] = -99
	}
	snap := append([]int(nil), in...)
	var wantF, wantM, wantD []int
	seen := map[int]bool{}
	cnt := map[int]int{}
	var order []int
	sum := 0
	for i, v := range snap {
		if (i+v)%3 == 0 {
			wantF = append(wantF, v)
		}
		wantM = append(wantM, v*2+i%2)
		if !seen[v] {
			seen[v] = true
			wantD = append(wantD, v)
			order = append(order, v)
		}
		cnt[v]++
		sum = sum*31 + v
	}
	excl := []int{3, 7, 11}
	var wantE []int
	for _, v := range snap {
		if v != 3 && v != 7 && v != 11 {
			wantE = append(wantE, v)
		}
	}
	old := runtime.GOMAXPROCS(0)
	defer runtime.GOMAXPROCS(old)
	for _, procs := range []int{old, 2, 3, runtime.NumCPU()/2 + 1} {
		runtime.GOMAXPROCS(procs)
		fail := func(sig, msg string) {
			c.Violate(sig+"[big]", fmt.Sprintf("%s [%d elements over 50 values, GOMAXPROCS=%d]", msg, n, procs), nil)
		}
		pos := 0
		if got := slices.Filter(in, func(v int) bool { pos++; return (pos-1+v)%3 == 0 }); !eqSlice(got, wantF) {
			fail("Filter:result", fmt.Sprintf("Filter keeps %d elements, the definition %d (or other ones)", len(got), len(wantF)))
			return
		}
		pos = 0
		if got := slices.Map(in, func(v int) int { pos++; return v*2 + (pos-1)%2 }); !eqSlice(got, wantM) {
			fail("Map:result", "Map gives other values than the definition (or calls the converter out of order)")
			return
		}
		if got := slices.Distinct(in); !eqSlice(got, wantD) {
			fail("Distinct:result", fmt.Sprintf("Distinct gives %v want %v", clip(got), clip(wantD)))
			return
		}
		if got := slices.Except(in, excl); !eqSlice(got, wantE) {
			fail("Except:result", fmt.Sprintf("Except keeps %d elements, the definition %d", len(got), len(wantE)))
			return
		}
		if got := slices.Fold(in, 0, func(st, v int) int { return st*31 + v }); got != sum {
			fail("Fold:result", "Fold gives another state than the left-to-right definition")
			return
		}
		gs := slices.GroupBy(in, func(v int) int { return v })
		cs := slices.CountBy(in, func(v int) int { return v })
		if len(gs) != len(order) || len(cs) != len(order) {
			fail("GroupBy:groups", fmt.Sprintf("GroupBy/CountBy give %d/%d groups want %d", len(gs), len(cs), len(order)))
			return
		}
		for i, k := range order {
			if gs[i].Key != k || len(gs[i].Values) != cnt[k] || cs[i].Key != k || cs[i].Count != cnt[k] {
				fail("GroupBy:group", fmt.Sprintf("group %d: key %d with %d members / count %d, want key %d with %d", i, gs[i].Key, len(gs[i].Values), cs[i].Count, k, cnt[k]))
				return
			}
		}
		last := -1
		for i, v := range snap {
			if v == 49 {
				last = i
				break
			}
		}
		if got := slices.Index(in, 49); got != last || slices.Contains(in, 50) || !slices.Contains(in, snap[n-1]) || slices.IndexFunc(in, func(v int) bool { return v == 49 }) != last {
			fail("Index:result", fmt.Sprintf("Index/IndexFunc(49)=%d want %d, or Contains wrong", got, last))
			return
		}
		if !slices.All(in, func(v int) bool { return v < 50 }) || slices.Any(in, func(v int) bool { return v >= 50 }) || slices.Last(in) != snap[n-1] {
			fail("Any/All/Last", "Any/All/Last wrong")
			return
		}
		if !eqSlice(in, snap) || in[:n+3][n] != -99 || in[:n+3][n+2] != -99 {
			fail("input-modified", "a helper modified its input or its spare capacity")
			return
		}
	}
	c.Count("inputs_beyond_32768_elements", 1)
	c.NonTrivial(core.Mix(c.Seed, uint64(n), 1414))
}

func clipS(s []string) []string {
	if len(s) > 16 {
		return s[:16]
	}
	return s
}

func funcAll(c *core.Ctx, in []string, r *core.Rand) bool {
	n := len(in)
	// re-home the input in a buffer with 0..3 elements of spare capacity holding
	// sentinels: helpers must work on len(slice), never read or write up to cap
	spare := (n + len(in)*7) % 4
	if in != nil {
		buf := make([]string, n, n+spare)
		copy(buf, in)
		for i := n; i < n+spare; i++ {
			buf[:n+spare][i] = "<spare>"
		}
		in = buf
	}
	snap := append([]string(nil), in...)
	fail := func(sig, msg string) bool {
		c.Violate(sig, fmt.Sprintf("%s [input %q]", msg, clipS(snap)), map[string]any{"input": snap})
		return false
	}
	unchanged := func(op string) bool {
		if !eqSlice(in, snap) {
			return fail(op+":input-modified", op+" modified its input slice")
		}
		if in != nil {
			for _, v := range in[:cap(in)][len(in):] {
				if v != "<spare>" {
					return fail(op+":wrote-beyond-len", op+" wrote into the spare capacity of its input slice")
				}
			}
		}
		return true
	}
	scribble := func(op string, res []string) bool {
		for i := range res {
			res[i] = "#"
		}
		if cap(res) > len(res) {
			ext := res[:cap(res)]
			for i := len(res); i < len(ext); i++ {
				ext[i] = "#"
			}
		}
		if !eqSlice(in, snap) {
			return fail(op+":result-shares-memory", "modifying the slice returned by "+op+" changed the input")
		}
		return true
	}
	c.Count("inputs", 1)
	ints := make([]int, n)
	for i, v := range in {
		ints[i] = int(core.HashString(v)%7) + 1
	}
	intSnap := append([]int(nil), ints...)

	// ---- Fold / FoldReverse: non-commutative, non-associative accumulators
	{
		accS := func(st, v string) string { return "(" + st + v + ")" }
		accI := func(st, v int) int { return st*31 + v }
		wantS, wantI := "seed", 7
		for i := 0; i < n; i++ {
			wantS, wantI = accS(wantS, snap[i]), accI(wantI, intSnap[i])
		}
		wantRS, wantRI := "seed", 7
		for i := n - 1; i >= 0; i-- {
			wantRS, wantRI = accS(wantRS, snap[i]), accI(wantRI, intSnap[i])
		}
		var gS, gRS string
		var gI, gRI int
		calls := 0
		if p, pv := core.Catch(func() {
			gS = slices.Fold(in, "seed", func(st, v string) string { calls++; return accS(st, v) })
			gI = slices.Fold(ints, 7, accI)
		}); p {
			return fail("Fold:panic", fmt.Sprintf("Fold panicked: %v", pv))
		}
		if gS != wantS || gI != wantI {
			return fail("Fold:result", fmt.Sprintf("Fold gives %q / %d, reference %q / %d", gS, gI, wantS, wantI))
		}
		if calls != n {
			return fail("Fold:calls", fmt.Sprintf("accumulator called %d times for %d elements", calls, n))
		}
		if p, pv := core.Catch(func() {
			gRS = slices.FoldReverse(in, "seed", accS)
			gRI = slices.FoldReverse(ints, 7, accI)
		}); p {
			return fail("FoldReverse:panic", fmt.Sprintf("FoldReverse panicked: %v", pv))
		}
		if gRS != wantRS || gRI != wantRI {
			return fail("FoldReverse:result", fmt.Sprintf("FoldReverse gives %q / %d, reference %q / %d", gRS, gRI, wantRS, wantRI))
		}
		c.Count("fold", 4)
		if !unchanged("Fold") {
			return false
		}
	}
	// ---- Map / MapErr
	{
		calls := 0
		got := slices.Map(in, func(v string) string { calls++; return fmt.Sprintf("%d:%s", calls-1, v) })
		if len(got) != n {
			return fail("Map:length", fmt.Sprintf("Map returned %d elements", len(got)))
		}
		for i := range got {
			if got[i] != fmt.Sprintf("%d:%s", i, snap[i]) {
				return fail("Map:element", fmt.Sprintf("Map element %d is %q (conversion must be applied once per element, in order)", i, got[i]))
			}
		}
		if !unchanged("Map") || !scribble("Map", got) {
			return false
		}
		for _, p := range []int{0, n / 2, n - 1, n} {
			if p < 0 {
				continue
			}
			calls = 0
			boom := errors.New("boom")
			res, err := slices.MapErr(in, func(v string) (string, error) {
				calls++
				if calls-1 == p {
					return "partial", boom
				}
				return v + "!", nil
			})
			if p < n {
				if err != boom || res != nil {
					return fail("MapErr:error-path", fmt.Sprintf("MapErr failing at position %d returned (%v, %v), want (nil, boom)", p, res, err))
				}
				if calls != p+1 {
					return fail("MapErr:calls", fmt.Sprintf("MapErr failing at position %d called conv %d times, want %d", p, calls, p+1))
				}
			} else {
				if err != nil || len(res) != n {
					return fail("MapErr:ok-path", fmt.Sprintf("MapErr without error returned (%d elements, %v)", len(res), err))
				}
				for i := range res {
					if res[i] != snap[i]+"!" {
						return fail("MapErr:element", fmt.Sprintf("MapErr element %d is %q", i, res[i]))
					}
				}
				if !scribble("MapErr", res) {
					return false
				}
			}
		}
		c.Count("map", 5)
		if !unchanged("MapErr") {
			return false
		}
	}
	// ---- Filter / Any / All with position-driven predicates
	{
		mask := r.Uint64()
		if n <= 6 {
			mask = uint64(r.Intn(1 << uint(n+1)))
		}
		calls := 0
		got := slices.Filter(in, func(v string) bool { calls++; return mask>>(uint(calls-1)%64)&1 == 1 })
		var want []string
		for i := 0; i < n; i++ {
			if mask>>(uint(i)%64)&1 == 1 {
				want = append(want, snap[i])
			}
		}
		if !eqSlice(got, want) {
			return fail("Filter:result", fmt.Sprintf("Filter with position mask %b gives %q want %q", mask, clipS(got), clipS(want)))
		}
		if !unchanged("Filter") || !scribble("Filter", got) {
			return false
		}
		for _, t := range []string{"a", "A", "b", "nope"} {
			anyW, allW := false, true
			for _, v := range snap {
				if v == t {
					anyW = true
				} else {
					allW = false
				}
			}
			if g := slices.Any(in, func(v string) bool { return v == t }); g != anyW {
				return fail("Any:result", fmt.Sprintf("Any(==%q)=%v want %v", t, g, anyW))
			}
			if g := slices.All(in, func(v string) bool { return v == t }); g != allW {
				return fail("All:result", fmt.Sprintf("All(==%q)=%v want %v", t, g, allW))
			}
		}
		c.Count("filter_any_all", 9)
	}
	// ---- Index / IndexFunc / Contains / ContainsFunc
	for _, t := range []string{"a", "A", "b", "B", "nope"} {
		want := -1
		for i, v := range snap {
			if v == t {
				want = i
				break
			}
		}
		wantFold := -1
		for i, v := range snap {
			if strings.EqualFold(v, t) {
				wantFold = i
				break
			}
		}
		if g := slices.Index(in, t); g != want {
			return fail("Index:result", fmt.Sprintf("Index(%q)=%d want %d", t, g, want))
		}
		if g := slices.IndexFunc(in, func(v string) bool { return strings.EqualFold(v, t) }); g != wantFold {
			return fail("IndexFunc:result", fmt.Sprintf("IndexFunc(fold %q)=%d want %d", t, g, wantFold))
		}
		if g := slices.Contains(in, t); g != (want >= 0) {
			return fail("Contains:result", fmt.Sprintf("Contains(%q)=%v", t, g))
		}
		if g := slices.ContainsFunc(in, t, strings.EqualFold); g != (wantFold >= 0) {
			return fail("ContainsFunc:result", fmt.Sprintf("ContainsFunc(%q, EqualFold)=%v", t, g))
		}
		c.Count("index_contains", 4)
	}
	// ---- Distinct / DistinctFunc: first occurrences, original order
	{
		var want, wantFold []string
		for _, v := range snap {
			f, ff := false, false
			for _, w := range want {
				if w == v {
					f = true
				}
			}
			for _, w := range wantFold {
				if strings.EqualFold(w, v) {
					ff = true
				}
			}
			if !f {
				want = append(want, v)
			}
			if !ff {
				wantFold = append(wantFold, v)
			}
		}
		got := slices.Distinct(in)
		if !eqSlice(got, want) {
			return fail("Distinct:result", fmt.Sprintf("Distinct gives %q want %q", clipS(got), clipS(want)))
		}
		gotF := slices.DistinctFunc(in, strings.EqualFold)
		if !eqSlice(gotF, wantFold) {
			return fail("DistinctFunc:result", fmt.Sprintf("DistinctFunc(EqualFold) gives %q want %q", clipS(gotF), clipS(wantFold)))
		}
		if !unchanged("Distinct") || !scribble("Distinct", got) || !scribble("DistinctFunc", gotF) {
			return false
		}
		// a symmetric but NON-transitive equals (|a-b| <= 1): the definition is still
		// the plain loop "keep v unless some KEPT element equals it"
		near := func(a, b int) bool { return a-b <= 1 && b-a <= 1 }
		var wantN []int
		for _, v := range intSnap {
			dup := false
			for _, k := range wantN {
				if near(k, v) {
					dup = true
					break
				}
			}
			if !dup {
				wantN = append(wantN, v)
			}
		}
		if gotN := slices.DistinctFunc(ints, near); !eqSlice(gotN, wantN) {
			return fail("DistinctFunc:non-transitive-equals", fmt.Sprintf("DistinctFunc(%v, |a-b|<=1) gives %v, the plain loop gives %v", clip(intSnap), clip(gotN), clip(wantN)))
		}
		if !eqSlice(ints, intSnap) {
			return fail("DistinctFunc:input-modified", "DistinctFunc modified its input")
		}
		c.Count("distinct", 3)
	}
	// ---- Except / ExceptSet (both Set implementations)
	{
		excl := []string{c14alpha[r.Intn(3)], "zz"}
		if r.Bool() {
			excl = append(excl, c14alpha[r.Intn(3)], excl[0])
		}
		exSnap := append([]string(nil), excl...)
		var want []string
		for _, v := range snap {
			if !contains(exSnap, v) {
				want = append(want, v)
			}
		}
		got := slices.Except(in, excl)
		if !eqSlice(got, want) {
			return fail("Except:result", fmt.Sprintf("Except(%q) gives %q want %q", exSnap, clipS(got), clipS(want)))
		}
		if !eqSlice(excl, exSnap) {
			return fail("Except:exclude-modified", "Except modified the exclude slice")
		}
		for k, set := range []sets.Set[string]{tmaps.NewSetFromSlice(exSnap), sync2.NewSetFromSlice(exSnap)} {
			g2 := slices.ExceptSet(in, set)
			if !eqSlice(g2, want) {
				return fail("ExceptSet:result", fmt.Sprintf("ExceptSet(impl %d) gives %q want %q", k, clipS(g2), clipS(want)))
			}
			if set.Len() != len(dedup(exSnap)) {
				return fail("ExceptSet:set-modified", "ExceptSet modified the exclusion set")
			}
			if !scribble("ExceptSet", g2) {
				return false
			}
		}
		if !unchanged("Except") || !scribble("Except", got) {
			return false
		}
		// a long exclusion list in a buffer the caller re-uses: edited in place
		// between two calls, the second call must see the new contents
		{
			ex := make([]string, 9+r.Intn(4))
			for i := range ex {
				ex[i] = fmt.Sprintf("k%d", i)
			}
			for round := 0; round < 3; round++ {
				var w []string
				for _, v := range snap {
					if !contains(ex, v) {
						w = append(w, v)
					}
				}
				if g := slices.Except(in, ex); !eqSlice(g, w) {
					return fail("Except:reused-exclusion-buffer", fmt.Sprintf("Except with a re-used, edited exclusion buffer %q gives %q want %q (call %d)", ex, clipS(g), clipS(w), round+1))
				}
				ex[r.Intn(len(ex))] = c14alpha[r.Intn(3)]
				if len(snap) > 0 {
					ex[r.Intn(len(ex))] = snap[r.Intn(len(snap))]
				}
			}
		}
		// an exclusion list many times longer than the slice (and with repeats), holding
		// values that occur several times in the slice
		if n > 0 && n <= 400 {
			ex := make([]string, 0, 20*n+20)
			for i := 0; i < r.Range(8*n+1, 20*n+17); i++ {
				if i%5 == 0 {
					ex = append(ex, snap[r.Intn(n)])
				} else {
					ex = append(ex, fmt.Sprintf("absent%d", i%37))
				}
			}
			var w []string
			exm := map[string]bool{}
			for _, v := range ex {
				exm[v] = true
			}
			for _, v := range snap {
				if !exm[v] {
					w = append(w, v)
				}
			}
			if g := slices.Except(in, ex); !eqSlice(g, w) {
				return fail("Except:long-exclusion-list", fmt.Sprintf("Except with an exclusion list of %d entries (slice of %d) gives %q want %q", len(ex), n, clipS(g), clipS(w)))
			}
		}
		c.Count("except", 6)
	}
	// ---- GroupBy / CountBy: keyer with collisions
	{
		keyer := func(v string) string { return strings.ToLower(v) }
		var order []string
		members := map[string][]string{}
		for _, v := range snap {
			k := keyer(v)
			if _, ok := members[k]; !ok {
				order = append(order, k)
			}
			members[k] = append(members[k], v)
		}
		gs := slices.GroupBy(in, keyer)
		if len(gs) != len(order) {
			return fail("GroupBy:groups", fmt.Sprintf("GroupBy returned %d groups want %d", len(gs), len(order)))
		}
		total := 0
		for i, g := range gs {
			if g.Key != order[i] {
				return fail("GroupBy:group-order", fmt.Sprintf("group %d has key %q, first-appearance order gives %q", i, g.Key, order[i]))
			}
			if !eqSlice(g.Values, members[g.Key]) {
				return fail("GroupBy:members", fmt.Sprintf("group %q has members %q want %q", g.Key, clipS(g.Values), clipS(members[g.Key])))
			}
			total += len(g.Values)
		}
		if total != n {
			return fail("GroupBy:sizes", fmt.Sprintf("group sizes sum to %d, n=%d", total, n))
		}
		cs := slices.CountBy(in, keyer)
		if len(cs) != len(order) {
			return fail("CountBy:groups", fmt.Sprintf("CountBy returned %d groups want %d", len(cs), len(order)))
		}
		for i, g := range cs {
			if g.Key != order[i] || g.Count != len(members[g.Key]) {
				return fail("CountBy:entry", fmt.Sprintf("CountBy entry %d is %v, want {%s %d}", i, g, order[i], len(members[order[i]])))
			}
		}
		if !unchanged("GroupBy") {
			return false
		}
		for _, g := range gs {
			if !scribble("GroupBy", g.Values) {
				return false
			}
		}
		c.Count("groupby_countby", 2)
	}
	// ---- GroupBy / CountBy with keys that are == yet distinguishable (+0.0 and -0.0):
	// the straightforward definition keeps the key of the FIRST member of each group
	{
		keyer := func(v string) float64 {
			f := float64(len(v) % 2)
			if v != "" && v[0] >= 'A' && v[0] <= 'Z' {
				f = -f
			}
			return f
		}
		var order []float64
		idx := map[float64]int{}
		var members [][]string
		for _, v := range snap {
			k := keyer(v)
			i, ok := idx[k]
			if !ok {
				i = len(order)
				idx[k] = i
				order = append(order, k)
				members = append(members, nil)
			}
			members[i] = append(members[i], v)
		}
		gs := slices.GroupBy(in, keyer)
		cs := slices.CountBy(in, keyer)
		if len(gs) != len(order) || len(cs) != len(order) {
			return fail("GroupBy:groups[float keys]", fmt.Sprintf("GroupBy/CountBy returned %d/%d groups want %d (keys %v)", len(gs), len(cs), len(order), order))
		}
		for i := range order {
			if math.Float64bits(gs[i].Key) != math.Float64bits(order[i]) || math.Float64bits(cs[i].Key) != math.Float64bits(order[i]) {
				return fail("GroupBy:group-key[float keys]", fmt.Sprintf("group %d has key %v (GroupBy) / %v (CountBy); its first member gives the key %v", i, gs[i].Key, cs[i].Key, order[i]))
			}
			if !eqSlice(gs[i].Values, members[i]) || cs[i].Count != len(members[i]) {
				return fail("GroupBy:members[float keys]", fmt.Sprintf("group %v has members %q (count %d) want %q", order[i], clipS(gs[i].Values), cs[i].Count, clipS(members[i])))
			}
		}
		c.Count("groupby_countby_signed_zero_keys", 1)
	}
	// ---- Trim family
	{
		unw := []string{c14alpha[r.Intn(3)]}
		if r.Bool() {
			unw = append(unw, c14alpha[r.Intn(3)])
		}
		uw := func(v string) bool { return contains(unw, v) }
		lo, hi := 0, n
		for lo < hi && uw(snap[lo]) {
			lo++
		}
		hiL := hi // TrimLeft only
		for hi > lo && uw(snap[hi-1]) {
			hi--
		}
		hiR := n
		for hiR > 0 && uw(snap[hiR-1]) {
			hiR--
		}
		type tc struct {
			name string
			got  []string
			want []string
		}
		var cases []tc
		if p, pv := core.Catch(func() {
			cases = []tc{
				{"Trim", slices.Trim(in, unw), snap[lo:hi]},
				{"TrimLeft", slices.TrimLeft(in, unw), snap[lo:hiL]},
				{"TrimRight", slices.TrimRight(in, unw), snap[:hiR]},
				{"TrimFunc", slices.TrimFunc(in, uw), snap[lo:hi]},
				{"TrimLeftFunc", slices.TrimLeftFunc(in, uw), snap[lo:hiL]},
				{"TrimRightFunc", slices.TrimRightFunc(in, uw), snap[:hiR]},
			}
		}); p {
			return fail("Trim:panic", fmt.Sprintf("Trim family panicked: %v", pv))
		}
		for _, t := range cases {
			if !eqSlice(t.got, t.want) {
				return fail(t.name+":result", fmt.Sprintf("%s(unwanted %q) gives %q want %q", t.name, unw, clipS(t.got), clipS(t.want)))
			}
		}
		if !unchanged("Trim") {
			return false
		}
		c.Count("trim", 6)
	}
	// ---- TryGet / SafeGet / SafeGetOr / Last
	for i := -2; i <= n+1; i++ {
		if n > 12 && i > 2 && i < n-2 && i != n/2 {
			continue
		}
		inb := i >= 0 && i < n
		v, ok := slices.TryGet(in, i)
		sg := slices.SafeGet(in, i)
		so := slices.SafeGetOr(in, i, "fb")
		if inb {
			if !ok || v != snap[i] || sg != snap[i] || so != snap[i] {
				return fail("TryGet/SafeGet:in-range", fmt.Sprintf("index %d: TryGet=(%q,%v) SafeGet=%q SafeGetOr=%q want %q", i, v, ok, sg, so, snap[i]))
			}
		} else if ok || v != "" || sg != "" || so != "fb" {
			return fail("TryGet/SafeGet:out-of-range", fmt.Sprintf("index %d of %d: TryGet=(%q,%v) SafeGet=%q SafeGetOr=%q", i, n, v, ok, sg, so))
		}
		c.Count("get_helpers", 3)
	}
	for _, i := range []int{math.MaxInt, math.MaxInt - 1, math.MinInt, math.MinInt + 1, math.MaxInt / 2} {
		var v, sg, so string
		var ok bool
		if p, pv := core.Catch(func() {
			v, ok = slices.TryGet(in, i)
			sg = slices.SafeGet(in, i)
			so = slices.SafeGetOr(in, i, "fb")
		}); p {
			return fail("TryGet/SafeGet:extreme-index-panic", fmt.Sprintf("index %d: %v", i, pv))
		}
		if ok || v != "" || sg != "" || so != "fb" {
			return fail("TryGet/SafeGet:out-of-range", fmt.Sprintf("index %d of %d: TryGet=(%q,%v) SafeGet=%q SafeGetOr=%q", i, n, v, ok, sg, so))
		}
	}
	if n > 0 {
		if l := slices.Last(in); l != snap[n-1] {
			return fail("Last:result", fmt.Sprintf("Last=%q want %q", l, snap[n-1]))
		}
	}
	// ---- maps helpers, on index->value (duplicate values) and value->count maps
	{
		m := map[int]string{}
		for i, v := range snap {
			m[i*3] = v
		}
		msnap := map[int]string{}
		for k, v := range m {
			msnap[k] = v
		}
		same := func(op string) bool {
			if len(m) != len(msnap) {
				return fail(op+":map-modified", op+" modified its input map")
			}
			for k, v := range msnap {
				if m[k] != v {
					return fail(op+":map-modified", op+" modified its input map")
				}
			}
			return true
		}
		ks := tmaps.Keys(m)
		sort.Ints(ks)
		if len(ks) != n {
			return fail("Keys:result", fmt.Sprintf("Keys returned %d keys for %d entries", len(ks), n))
		}
		for i, k := range ks {
			if k != i*3 {
				return fail("Keys:result", fmt.Sprintf("Keys (sorted) element %d is %d", i, k))
			}
		}
		vs := tmaps.Values(m)
		if !sameMultiset(vs, snap) {
			return fail("Values:result", fmt.Sprintf("Values gives %q, not the multiset of values %q", clipS(vs), clipS(snap)))
		}
		for i := range ks {
			ks[i] = -1
		}
		for i := range vs {
			vs[i] = "#"
		}
		if !same("Keys/Values") {
			return false
		}
		for _, t := range []string{"a", "A", "b", "nope"} {
			k, ok := tmaps.KeyOf(m, t)
			wantOK := contains(snap, t)
			if ok != wantOK || (ok && msnap[k] != t) || (!ok && k != 0) {
				return fail("KeyOf:result", fmt.Sprintf("KeyOf(%q)=(%d,%v); present=%v", t, k, ok, wantOK))
			}
			if g := tmaps.ContainsValue(m, t); g != wantOK {
				return fail("ContainsValue:result", fmt.Sprintf("ContainsValue(%q)=%v want %v", t, g, wantOK))
			}
		}
		for _, k := range []int{-3, 0, 3, 3*n - 3, 3 * n, 1} {
			_, want := msnap[k]
			if g := tmaps.HasKey(m, k); g != want {
				return fail("HasKey:result", fmt.Sprintf("HasKey(%d)=%v want %v", k, g, want))
			}
		}
		cl := tmaps.Clone(m)
		if len(cl) != len(msnap) {
			return fail("maps.Clone:result", "clone has a different size")
		}
		for k, v := range msnap {
			if cl[k] != v {
				return fail("maps.Clone:result", "clone differs from the original")
			}
		}
		cl[-99] = "new"
		for k := range cl {
			cl[k] = "#"
		}
		if !same("maps.Clone") {
			return false
		}
		tmaps.Clear(cl)
		if len(cl) != 0 {
			return fail("maps.Clear:result", fmt.Sprintf("Clear left %d entries", len(cl)))
		}
		if !same("maps.Clear(of the clone)") {
			return false
		}
		// maps with unusual keys: NaN keys are distinct entries that can only be
		// reached by ranging; struct keys with a NaN part likewise
		{
			fm := map[float64]string{}
			nan := math.NaN()
			for i, v := range snap {
				if i%3 == 0 {
					fm[nan] = v // a new entry every time
				} else {
					fm[float64(i)] = v
				}
			}
			var before []string
			for _, v := range fm {
				before = append(before, v)
			}
			fc := tmaps.Clone(fm)
			var after []string
			for _, v := range fc {
				after = append(after, v)
			}
			if len(fc) != len(fm) || !sameMultiset(before, after) {
				return fail("maps.Clone:nan-keys", fmt.Sprintf("clone of a map with NaN keys holds values %q, original %q", clipS(after), clipS(before)))
			}
			if vs := tmaps.Values(fm); !sameMultiset(vs, before) {
				return fail("Values:nan-keys", "Values of a map with NaN keys differs from ranging it")
			}
			if ks := tmaps.Keys(fm); len(ks) != len(fm) {
				return fail("Keys:nan-keys", fmt.Sprintf("Keys returned %d keys for %d entries", len(ks), len(fm)))
			}
		}
		var nilm map[int]string
		if len(tmaps.Keys(nilm)) != 0 || len(tmaps.Values(nilm)) != 0 || tmaps.HasKey(nilm, 1) || tmaps.ContainsValue(nilm, "a") || len(tmaps.Clone(nilm)) != 0 {
			return fail("maps:nil-map", "map helpers misbehave on a nil map")
		}
		tmaps.Clear(nilm)
		// "every returned map is new and can be modified": also the clone of a nil map
		if p, pv := core.Catch(func() {
			cn := tmaps.Clone(nilm)
			cn[1] = "x"
			if len(cn) != 1 || len(nilm) != 0 {
				panic("clone of nil map is not an independent map")
			}
		}); p {
			return fail("maps.Clone:nil-map-not-writable", fmt.Sprintf("writing to the clone of a nil map: %v", pv))
		}
		c.Count("map_helpers", 9)
	}
	return unchanged("final")
}

func contains(s []string, v string) bool {
	for _, x := range s {
		if x == v {
			return true
		}
	}
	return false
}

// c14readers (race build): "none of them modifies its input" must also hold while
// other goroutines are reading the same input. Several goroutines call every
// read-only helper on ONE shared slice / map; a helper that scribbles on its
// input, even temporarily, is a race report (and often a wrong result).
func c14readers(c *core.Ctx) {
	r := c.R
	n := r.Range(0, 200)
	if r.Bool() {
		n = r.Range(32, 600)
	}
	in := make([]string, n, n+r.Intn(3))
	for i := range in {
		in[i] = fmt.Sprintf("k%d", r.Intn(n/2+1))
	}
	m := map[int]string{}
	for i, v := range in {
		m[i] = v
	}
	excl := tmaps.NewSetFromSlice([]string{"k1", "k3"})
	ng := r.Range(2, 6)
	bad := make([]string, ng)
	var wg sync.WaitGroup
	start := make(chan struct{})
	for g := 0; g < ng; g++ {
		g := g
		seed := r.Uint64()
		wg.Add(1)
		go func() {
			defer wg.Done()
			rr := core.NewRand(seed)
			<-start
			for it := 0; it < 6; it++ {
				t := fmt.Sprintf("k%d", rr.Intn(n/2+2))
				want := -1
				for i, v := range in {
					if v == t {
						want = i
						break
					}
				}
				if got := slices.Index(in, t); got != want {
					bad[g] = fmt.Sprintf("Index(%q)=%d want %d while other goroutines read the same slice", t, got, want)
				}
				if slices.Contains(in, t) != (want >= 0) {
					bad[g] = "Contains wrong under concurrent readers"
				}
				if got := slices.IndexFunc(in, func(v string) bool { return v == t }); got != want {
					bad[g] = "IndexFunc wrong under concurrent readers"
				}
				_ = slices.ContainsFunc(in, t, strings.EqualFold)
				_ = slices.Distinct(in)
				_ = slices.DistinctFunc(in, strings.EqualFold)
				_ = slices.Filter(in, func(v string) bool { return len(v) > 2 })
				_ = slices.Map(in, func(v string) int { return len(v) })
				_ = slices.Fold(in, 0, func(st int, v string) int { return st + len(v) })
				_ = slices.FoldReverse(in, 0, func(st int, v string) int { return st*3 + len(v) })
				_ = slices.Any(in, func(v string) bool { return v == t })
				_ = slices.All(in, func(v string) bool { return v != "" })
				_ = slices.GroupBy(in, func(v string) int { return len(v) })
				_ = slices.CountBy(in, func(v string) int { return len(v) })
				_ = slices.Except(in, []string{"k0", "k2"})
				_ = slices.ExceptSet(in, excl)
				_ = slices.Trim(in, []string{"k0"})
				_ = slices.TrimFunc(in, func(v string) bool { return v == "k1" })
				_, _ = slices.TryGet(in, rr.Intn(n+1))
				_ = slices.SafeGet(in, rr.Intn(n+1))
				if n > 0 {
					_ = slices.Last(in)
				}
				_ = tmaps.Keys(m)
				_ = tmaps.Values(m)
				_ = tmaps.Clone(m)
				_, _ = tmaps.KeyOf(m, t)
				_ = tmaps.ContainsValue(m, t)
				_ = tmaps.HasKey(m, rr.Intn(n+1))
			}
		}()
	}
	close(start)
	wg.Wait()
	c.Count("reader_rounds", 1)
	c.Count("reader_goroutines", int64(ng))
	for _, b := range bad {
		if b != "" {
			c.Violate("readers:wrong-result", b, map[string]any{"n": n, "goroutines": ng})
			return
		}
	}
	c.NonTrivial(core.Mix(c.Seed, uint64(n), uint64(ng)))
	if c.WantSample() {
		c.Sample(map[string]any{"mode": "readers", "slice_length": n, "goroutines": ng, "what": "every read-only helper called concurrently on one shared slice and map"})
	}
}
