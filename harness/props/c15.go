package props

import (
	"fmt"
	"math"
	"math/rand"
	"reflect"
	"sort"

	"gopkg.in/typ.v4/slices"
	"verifharness/internal/core"
)

// C15 — sorting and searching helpers order correctly, stably where promised.
// Oracle after each sort: permutation of the input (multiset), adjacent pairs in
// order, and for the Stable variants original indices increasing within ties.
// BinarySearch: linear-scan lower bound. Systematic: case index L < 8 <-> ALL
// slices over {0,1,2} of length L; then random slices up to length 3000.

func init() { register("C15", runC15) }

type tg struct{ Key, Idx int }

func runC15(c *core.Ctx) {
	r := c.R
	if c.Index < 8 {
		L := int(c.Index)
		total := 1
		for i := 0; i < L; i++ {
			total *= 3
		}
		for code := 0; code < total; code++ {
			keys := make([]int, L)
			x := code
			for i := range keys {
				keys[i] = x % 3
				x /= 3
			}
			if !sortAll(c, keys, r) {
				return
			}
		}
		c.Count("exhaustive_sweeps_completed", 1)
		c.NonTrivial(core.Mix(15, uint64(L)))
		if c.WantSample() {
			c.Sample(map[string]any{"systematic": true, "length": L, "alphabet": "{0,1,2}", "slices": total})
		}
		return
	}
	n := r.Range(0, 3000)
	if r.Chance(1, 2) {
		n = r.Range(0, 40)
	}
	big := c.Index%25 == 7 && c.Mode != "par"
	if big {
		n = r.Range(8192, 20000) | r.Intn(2) // odd and even lengths beyond 8192 and 16384
		c.Count("inputs_beyond_8192_elements", 1)
	}
	// duplicate density: universe size
	u := []int{1, 2, 3, n/4 + 1, n + 1, 1 << 30}[r.Intn(6)]
	if big && u < 4 {
		u = []int{n + 1, n/16 + 1, 50}[r.Intn(3)]
	}
	keys := make([]int, n)
	for i := range keys {
		keys[i] = r.Intn(u) - u/2
	}
	// extreme values (negation and subtraction overflow on them) in 1 case out of 8
	if n >= 2 && r.Chance(1, 8) {
		for _, v := range []int{math.MinInt, math.MaxInt, math.MinInt + 1, -math.MaxInt}[:r.Range(1, 4)] {
			keys[r.Intn(n)] = v
		}
		c.Count("inputs_with_extreme_values", 1)
	}
	shape := r.Intn(6)
	if big {
		shape = []int{0, 1, 1, 6, 6, 7, 5}[r.Intn(7)]
	}
	switch shape {
	case 6: // strictly descending / ascending distinct values
		for i := range keys {
			keys[i] = n - i
		}
		if r.Bool() {
			for i := range keys {
				keys[i] = i
			}
		}
	case 7: // two blocks, each ascending, every value of the second block below the first block
		for i := range keys {
			keys[i] = (i + n/2) % n
		}
	case 0:
		sort.Ints(keys)
	case 1:
		sort.Sort(sort.Reverse(sort.IntSlice(keys)))
	case 2, 3:
		// nearly sorted: sorted (asc or desc) except for 1..5 spots - adaptive
		// pre-passes of a re-implemented sort live here
		sort.Ints(keys)
		if r.Bool() {
			sort.Sort(sort.Reverse(sort.IntSlice(keys)))
		}
		for k := r.Range(1, 5); k > 0 && n > 0; k-- {
			switch r.Intn(4) {
			case 0: // swap two positions (often involving an end)
				i, j := r.Intn(n), r.Intn(n)
				if r.Bool() {
					i = 0
				}
				keys[i], keys[j] = keys[j], keys[i]
			case 1: // a new minimum somewhere
				keys[r.Intn(n)] = -(1 << 40)
			case 2: // a new maximum somewhere
				keys[r.Intn(n)] = 1 << 40
			case 3: // move the last element to a random place
				i := r.Intn(n)
				v := keys[n-1]
				copy(keys[i+1:], keys[i:n-1])
				keys[i] = v
			}
		}
		c.Count("inputs_nearly_sorted", 1)
	}
	if !sortAll(c, keys, r) {
		return
	}
	if c.Index%64 == 9 {
		// zero-size elements: lengths beyond MaxInt/2, where (lo+hi)/2 overflows
		type z = struct{}
		for _, ln := range []int{math.MaxInt/2 + 2, math.MaxInt - 1, math.MaxInt, 1 << 62} {
			hs := make([]z, ln)
			var above, below int
			if p, pv := core.Catch(func() {
				above = slices.BinarySearchFunc(hs, func(z) bool { return true })  // target above every element
				below = slices.BinarySearchFunc(hs, func(z) bool { return false }) // target below every element
			}); p {
				c.Violate("BinarySearchFunc:huge-length-panic", fmt.Sprintf("BinarySearchFunc on %d zero-size elements panicked: %v", ln, pv), nil)
				return
			}
			if above != ln || below != 0 {
				c.Violate("BinarySearchFunc:huge-length", fmt.Sprintf("BinarySearchFunc on %d zero-size elements returned %d / %d, expected %d / 0", ln, above, below, ln), nil)
				return
			}
		}
		c.Count("huge_zero_size_searches", 1)
	}
	if c.Index%4 == 1 {
		// McIlroy's "killer adversary": a comparator that decides the values while
		// the sort under test runs, driving quicksort-like algorithms into their
		// worst case (and thereby into rarely taken fallback paths). The frozen
		// values are then replayed as ordinary data through every variant.
		m := r.Range(13, 1500)
		adv := killerInput(m, func(idx []int, less func(a, b int) bool) { slices.SortFunc(idx, less) })
		c.Count("inputs_killer_adversary", 1)
		if !sortAll(c, adv, r) {
			return
		}
		rev := append([]int(nil), adv...)
		slices.Reverse(rev)
		if !sortAll(c, rev, r) {
			return
		}
	}
	c.NonTrivial(core.Mix(16, c.Seed))
	if c.WantSample() {
		c.Sample(map[string]any{"length": n, "universe": u, "prefix": clip(keys)})
	}
}

func sortAll(c *core.Ctx, keys []int, r *core.Rand) bool {
	n := len(keys)
	fail := func(sig, msg string) bool {
		c.Violate(sig, fmt.Sprintf("%s [n=%d input prefix %v]", msg, n, clip(keys)), map[string]any{"input": clipN(keys, 200)})
		return false
	}
	c.Count("inputs", 1)
	if n == 0 {
		// empty but non-nil slices (also with capacity, also cut out of a longer one)
		if p, pv := core.Catch(func() {
			long := []int{4, 5, 6}
			for _, e := range [][]int{{}, make([]int, 0, 8), long[:0], long[2:2], long[3:]} {
				if slices.BinarySearch(e, 5) != 0 || slices.BinarySearch(e, -5) != 0 || slices.BinarySearchFunc(e, func(int) bool { return true }) != 0 {
					panic("BinarySearch on an empty slice did not return 0")
				}
				slices.Sort(e)
				slices.SortDesc(e)
				slices.SortFunc(e, func(a, b int) bool { return a < b })
				slices.SortStableFunc(e, func(a, b int) bool { return a < b })
				slices.Shuffle(e)
			}
			if long[0] != 4 || long[1] != 5 || long[2] != 6 {
				panic("a helper called on an empty sub-slice touched the surrounding slice")
			}
		}); p {
			return fail("empty-slice", fmt.Sprintf("a sort/search helper on an empty, non-nil slice misbehaved: %v", pv))
		}
		// nil slices are empty inputs too
		if p, pv := core.Catch(func() {
			var ni []int
			var nt []tg
			slices.Sort(ni)
			slices.SortDesc(ni)
			slices.SortFunc(nt, func(a, b tg) bool { return a.Key < b.Key })
			slices.SortStableFunc(nt, func(a, b tg) bool { return a.Key < b.Key })
			slices.SortStableDescFunc(nt, func(a, b tg) bool { return a.Key < b.Key })
			slices.Shuffle(nt)
			slices.ShuffleRand(nt, rand.New(rand.NewSource(1)))
			if slices.BinarySearch(ni, 5) != 0 || slices.BinarySearchFunc(nt, func(tg) bool { return true }) != 0 {
				panic("BinarySearch on a nil slice did not return 0")
			}
		}); p {
			return fail("nil-slice", fmt.Sprintf("a sort/search helper on a nil slice misbehaved: %v", pv))
		}
	}
	mk := func() []tg {
		// spare capacity with sentinels: sorting must stay within len(slice)
		s := make([]tg, n, n+2)
		for i, k := range keys {
			s[i] = tg{k, i}
		}
		s[:n+2][n], s[:n+2][n+1] = tg{-1 << 50, -7}, tg{1 << 50, -7}
		return s
	}
	isPerm := func(s []tg) bool {
		seen := make([]bool, n)
		if len(s) != n {
			return false
		}
		for _, e := range s {
			if e.Idx < 0 || e.Idx >= n || seen[e.Idx] || keys[e.Idx] != e.Key {
				return false
			}
			seen[e.Idx] = true
		}
		return true
	}
	if !sortFuncVariants(c, keys, "16B", fail, func(k, i int) tg { return tg{k, i} }, func(e tg) (int, int) { return e.Key, e.Idx }) {
		return false
	}
	// the same four sorts on element types of other sizes (move-minimising or
	// index-sorting paths are chosen by element size)
	switch r.Intn(6) {
	case 4:
		// an element type that has no == (a struct holding a slice): the Func sorts need none
		if !sortFuncVariants(c, keys, "uncomparable", fail, func(k, i int) tgSl { return tgSl{k, i, []int{k}} }, func(e tgSl) (int, int) { return e.Key, e.Idx }) {
			return false
		}
	case 5:
		// interface elements holding values without == (slices)
		if !sortFuncVariants(c, keys, "any(slices)", fail, func(k, i int) any { return []int{k, i} }, func(e any) (int, int) { v := e.([]int); return v[0], v[1] }) {
			return false
		}
	case 0:
		if !sortFuncVariants(c, keys, "176B", fail, func(k, i int) tgBig { return tgBig{Key: k, Idx: i} }, func(e tgBig) (int, int) { return e.Key, e.Idx }) {
			return false
		}
	case 1:
		if !sortFuncVariants(c, keys, "336B", fail, func(k, i int) tgHuge { return tgHuge{Key: k, Idx: i} }, func(e tgHuge) (int, int) { return e.Key, e.Idx }) {
			return false
		}
	case 2:
		if n < 30000 {
			if !sortFuncVariants(c, keys, "4B", fail, func(k, i int) tgTiny { return tgTiny{int16(k), int16(i)} }, func(e tgTiny) (int, int) { return int(e.Key), int(e.Idx) }) {
				return false
			}
		}
	case 3:
		if !sortFuncVariants(c, keys, "ptr", fail, func(k, i int) *tg { return &tg{k, i} }, func(e *tg) (int, int) { return e.Key, e.Idx }) {
			return false
		}
	}
	// ordered variants on ints, strings, floats
	{
		// a defined slice type that HAS Len/Less/Swap methods of its own, ordering by absolute
		// value: Sort orders by <, whatever methods the slice type carries
		{
			ab := absInts(append([]int(nil), keys...))
			slices.Sort(ab)
			for i := 1; i < len(ab); i++ {
				if ab[i-1] > ab[i] {
					return fail("Sort:slice-type-with-own-sort-methods", fmt.Sprintf("Sort on a defined slice type whose own Less orders by absolute value: element %d (%d) is less than its predecessor (%d) - Sort must order by <", i, ab[i], ab[i-1]))
				}
			}
		}
		// float slices with few distinct values and BOTH zeros: the result is a permutation,
		// so the number of negative zeros stays what it was
		if n >= 64 {
			nz := math.Copysign(0, -1)
			fz := make([]float64, n)
			negs := 0
			for i, k := range keys {
				switch (k%5 + 5) % 5 {
				case 0:
					fz[i] = nz
					negs++
				case 1:
					fz[i] = 0
				default:
					fz[i] = float64((k%5+5)%5) - 2.5
				}
			}
			gz := append([]float64(nil), fz...)
			slices.Sort(gz)
			hz := append([]float64(nil), fz...)
			slices.SortDesc(hz)
			ga, ha := 0, 0
			for i := range gz {
				if gz[i] == 0 && math.Signbit(gz[i]) {
					ga++
				}
				if hz[i] == 0 && math.Signbit(hz[i]) {
					ha++
				}
				if i > 0 && (gz[i-1] > gz[i] || hz[i-1] < hz[i]) {
					return fail("Sort:float64", "Sort/SortDesc on floats with few distinct values is out of order")
				}
			}
			if ga != negs || ha != negs {
				return fail("Sort:not-a-permutation[signed zeros]", fmt.Sprintf("Sort/SortDesc on %d floats holding %d negative zeros returned %d / %d negative zeros: the result is not a permutation of the input", n, negs, ga, ha))
			}
		}
		// defined slice types: same order as with []int
		{
			type myInts []int
			da, db := sort.IntSlice(append([]int(nil), keys...)), myInts(append([]int(nil), keys...))
			dw := append([]int(nil), keys...)
			sort.Ints(dw)
			slices.Sort(da)
			slices.SortDesc(db)
			okD := len(da) == n && len(db) == n
			for i := 0; okD && i < n; i++ {
				okD = da[i] == dw[i] && db[i] == dw[n-1-i]
			}
			if !okD || slices.BinarySearch(da, 0) != sort.SearchInts(dw, 0) {
				return fail("defined-slice-type", "Sort/SortDesc/BinarySearch instantiated with a defined slice type (sort.IntSlice, type myInts []int) give another result than with []int")
			}
		}
		a := append([]int(nil), keys...)
		slices.Sort(a)
		want := append([]int(nil), keys...)
		sort.Ints(want)
		if !eqSlice(a, want) {
			return fail("Sort:wrong", fmt.Sprintf("Sort gives %v want %v", clip(a), clip(want)))
		}
		d := append([]int(nil), keys...)
		slices.SortDesc(d)
		for i := range d {
			if d[i] != want[n-1-i] {
				return fail("SortDesc:wrong", fmt.Sprintf("SortDesc gives %v", clip(d)))
			}
		}
		fs := make([]float64, n)
		ss := make([]string, n)
		for i, k := range keys {
			fs[i] = float64(k) / 4
			ss[i] = fmt.Sprintf("%04d", k&0xfff)
		}
		// other ordered element types (specialised fast paths live here): both signs of
		// int8/int16, uint8, float32, named types
		{
			type myI8 int8
			i8, u8, i16, f32, n8 := make([]int8, n), make([]uint8, n), make([]int16, n), make([]float32, n), make([]myI8, n)
			for i, k := range keys {
				i8[i], u8[i], i16[i], f32[i], n8[i] = int8(k*37), uint8(k*37), int16(k*1237), float32(k)/8, myI8(k*37)
			}
			d8 := append([]int8(nil), i8...)
			slices.Sort(i8)
			slices.Sort(u8)
			slices.Sort(i16)
			slices.Sort(f32)
			slices.Sort(n8)
			slices.SortDesc(d8)
			for i := 1; i < n; i++ {
				if i8[i-1] > i8[i] || u8[i-1] > u8[i] || i16[i-1] > i16[i] || f32[i-1] > f32[i] || n8[i-1] > n8[i] || d8[i-1] < d8[i] {
					return fail("Sort:small-ordered-types", fmt.Sprintf("Sort/SortDesc on int8/uint8/int16/float32/named int8 is out of order at position %d (n=%d)", i, n))
				}
			}
			var c8, e8 [256]int
			for i, k := range keys {
				c8[uint8(int8(k*37))]++
				e8[uint8(i8[i])]++
			}
			if c8 != e8 {
				return fail("Sort:small-ordered-types", "Sort on int8 is not a permutation of its input")
			}
		}
		slices.Sort(fs)
		slices.SortDesc(ss)
		// strings that share prefixes, end early, or contain NUL bytes (where "the string
		// has ended" and "the next byte is 0x00" must not be confused), against sort.Strings
		{
			frag := []string{"", "a", "a\x00", "a\x00\x00", "ab", "a\x00b", "\x00", "b", "a\x00a", "aa", "\x00\x00", "a\x01"}
			hs := make([]string, n)
			for i, k := range keys {
				hs[i] = frag[(k%len(frag)+len(frag))%len(frag)]
				if k&64 != 0 {
					hs[i] = "pre" + hs[i]
				}
			}
			ws := append([]string(nil), hs...)
			sort.Strings(ws)
			as, ds := append([]string(nil), hs...), append([]string(nil), hs...)
			slices.Sort(as)
			slices.SortDesc(ds)
			for i := range ws {
				if as[i] != ws[i] || ds[i] != ws[n-1-i] {
					return fail("Sort:strings-with-prefixes-and-NUL", fmt.Sprintf("Sort/SortDesc on strings sharing prefixes and containing NUL bytes: position %d holds %q / %q, sort.Strings gives %q / %q", i, as[i], ds[i], ws[i], ws[n-1-i]))
				}
			}
			c.Count("sorts", 2)
		}
		if !sort.Float64sAreSorted(fs) {
			return fail("Sort:float64", "Sort on float64 not ascending")
		}
		for i := 1; i < n; i++ {
			if ss[i-1] < ss[i] {
				return fail("SortDesc:string", "SortDesc on strings not descending")
			}
		}
		c.Count("sorts", 4)
		// BinarySearch over the ascending slice: present, between, below, above
		targets := []int{}
		if n > 0 {
			targets = append(targets, want[0]-1, want[0], want[n-1], want[n-1]+1)
			for k := 0; k < 6; k++ {
				t := want[r.Intn(n)]
				targets = append(targets, t, t+1, t-1)
			}
			// the values sitting at block boundaries (multiples of 64) of a big slice: a
			// two-level search that mishandles a run of duplicates crossing a boundary
			if n >= 1024 {
				for i := 64; i < n; i += 64 {
					targets = append(targets, want[i])
				}
			}
		} else {
			targets = append(targets, 0, 5)
		}
		for _, t := range targets {
			ref := n
			for i, x := range want {
				if x >= t {
					ref = i
					break
				}
			}
			var g1, g2 int
			if p, pv := core.Catch(func() {
				g1 = slices.BinarySearch(want, t)
				g2 = slices.BinarySearchFunc(want, func(a int) bool { return a < t })
			}); p {
				return fail("BinarySearch:panic", fmt.Sprintf("BinarySearch(%d) panicked: %v", t, pv))
			}
			c.Count("binary_searches", 2)
			if g1 != ref {
				return fail("BinarySearch:wrong", fmt.Sprintf("BinarySearch(%v, %d)=%d, smallest index with element >= target is %d", clip(want), t, g1, ref))
			}
			if g2 != ref {
				return fail("BinarySearchFunc:wrong", fmt.Sprintf("BinarySearchFunc(%v, <%d)=%d want %d", clip(want), t, g2, ref))
			}
		}
	}
	// shuffles
	{
		seed := int64(r.Uint64() >> 1)
		s1, s2 := mk(), mk()
		slices.ShuffleRand(s1, rand.New(rand.NewSource(seed)))
		slices.ShuffleRand(s2, rand.New(rand.NewSource(seed)))
		if !isPerm(s1) {
			return fail("ShuffleRand:not-a-permutation", "ShuffleRand result is not a permutation")
		}
		if !eqSlice(s1, s2) {
			return fail("ShuffleRand:not-deterministic", "two ShuffleRand runs from equal generators differ")
		}
		// the supplied generator, and nothing else, must drive it: replay the
		// generator through rand.Shuffle on an index slice
		ref := mk()
		rand.New(rand.NewSource(seed)).Shuffle(n, func(i, j int) { ref[i], ref[j] = ref[j], ref[i] })
		if !eqSlice(s1, ref) {
			c.Count("shufflerand_differs_from_rand_shuffle_not_judged", 1)
		}
		s3 := mk()
		slices.Shuffle(s3)
		if !isPerm(s3) {
			return fail("Shuffle:not-a-permutation", "Shuffle result is not a permutation")
		}
		c.Count("shuffles", 3)
	}
	return true
}

// absInts is a slice type with sort.Interface methods of its own (ordering by absolute value).
type absInts []int

func (a absInts) Len() int      { return len(a) }
func (a absInts) Swap(i, j int) { a[i], a[j] = a[j], a[i] }
func (a absInts) Less(i, j int) bool {
	x, y := a[i], a[j]
	if x < 0 {
		x = -x
	}
	if y < 0 {
		y = -y
	}
	return x < y
}

type tgBig struct {
	Key int
	pad [20]int64
	Idx int
}
type tgHuge struct {
	pad  [20]int64
	Key  int
	pad2 [20]int64
	Idx  int
}
type tgTiny struct{ Key, Idx int16 }
type tgSl struct {
	Key, Idx int
	Tag      []int
}

// sortFuncVariants runs SortFunc, SortDescFunc, SortStableFunc and SortStableDescFunc on
// elements built from (key, original index) and judges permutation, order, stability
// and that nothing beyond len(slice) was touched.
func sortFuncVariants[E any](c *core.Ctx, keys []int, tname string, fail func(sig, msg string) bool, mkE func(k, i int) E, ki func(E) (int, int)) bool {
	n := len(keys)
	// keys as the element type can represent them (int16 truncation for the tiny type)
	ekeys := make([]int, n)
	for i, k := range keys {
		ekeys[i], _ = ki(mkE(k, i))
	}
	less := func(a, b E) bool { ka, _ := ki(a); kb, _ := ki(b); return ka < kb }
	s1, s2 := mkE(-30000, -7), mkE(30000, -7)
	mk := func() []E {
		s := make([]E, n, n+2)
		for i, k := range keys {
			s[i] = mkE(k, i)
		}
		s[:n+2][n], s[:n+2][n+1] = s1, s2
		return s
	}
	ptr := tname == "ptr"
	same := func(a, b E) bool {
		if !ptr {
			return reflect.DeepEqual(a, b)
		}
		ka, ia := ki(a)
		kb, ib := ki(b)
		return ka == kb && ia == ib
	}
	type variant struct {
		name   string
		run    func(s []E)
		desc   bool
		stable bool
	}
	vs := []variant{
		{"SortFunc", func(s []E) { slices.SortFunc(s, less) }, false, false},
		{"SortDescFunc", func(s []E) { slices.SortDescFunc(s, less) }, true, false},
		{"SortStableFunc", func(s []E) { slices.SortStableFunc(s, less) }, false, true},
		{"SortStableDescFunc", func(s []E) { slices.SortStableDescFunc(s, less) }, true, true},
	}
	sfx := ""
	if tname != "16B" {
		sfx = "[" + tname + " elements]"
	}
	for _, v := range vs {
		s := mk()
		if p, pv := core.Catch(func() { v.run(s) }); p {
			return fail(v.name+":panic"+sfx, fmt.Sprintf("%s panicked: %v", v.name, pv))
		}
		c.Count("sorts", 1)
		c.Count("sorts_elem_"+tname, 1)
		seen := make([]bool, n)
		perm := len(s) == n
		for _, e := range s {
			k, i := ki(e)
			if !perm || i < 0 || i >= n || seen[i] || ekeys[i] != k {
				perm = false
				break
			}
			seen[i] = true
		}
		if !perm {
			return fail(v.name+":not-a-permutation"+sfx, v.name+" result is not a permutation of the input")
		}
		if e := s[:cap(s)]; len(e) != n+2 || !same(e[n], s1) || !same(e[n+1], s2) {
			return fail(v.name+":wrote-beyond-len"+sfx, v.name+" touched the spare capacity of the slice")
		}
		ties := 0
		for i := 1; i < n; i++ {
			ka, ia := ki(s[i-1])
			kb, ib := ki(s[i])
			if !v.desc && kb < ka {
				return fail(v.name+":order"+sfx, fmt.Sprintf("%s: element %d (key %d) is less than its predecessor (key %d)", v.name, i, kb, ka))
			}
			if v.desc && ka < kb {
				return fail(v.name+":order"+sfx, fmt.Sprintf("%s: element %d (key %d) is greater than its predecessor (key %d)", v.name, i, kb, ka))
			}
			if ka == kb {
				ties++
				if v.stable && ia > ib {
					return fail(v.name+":not-stable"+sfx, fmt.Sprintf("%s: equal elements {key %d, originally at %d} and {key %d, originally at %d} swapped their original order", v.name, ka, ia, kb, ib))
				}
			}
		}
		if v.stable {
			c.Count("stable_tie_pairs_checked", int64(ties))
		}
	}
	// a less function that itself sorts (a private copy of the input, with the stable
	// variant): the outer sort must come out right all the same
	if tname == "16B" && n >= 2 && n <= 200 {
		for _, v := range vs {
			s := mk()
			inner := 0
			nestedLess := func(a, b E) bool {
				if inner < 3 {
					inner++
					cp := mk()
					slices.SortStableFunc(cp, less)
					for i := 1; i < n; i++ {
						ka, ia := ki(cp[i-1])
						kb, ib := ki(cp[i])
						if ka > kb || (ka == kb && ia > ib) {
							panic("the nested stable sort is wrong")
						}
					}
				}
				return less(a, b)
			}
			var run func()
			switch v.name {
			case "SortFunc":
				run = func() { slices.SortFunc(s, nestedLess) }
			case "SortDescFunc":
				run = func() { slices.SortDescFunc(s, nestedLess) }
			case "SortStableFunc":
				run = func() { slices.SortStableFunc(s, nestedLess) }
			default:
				run = func() { slices.SortStableDescFunc(s, nestedLess) }
			}
			if p, pv := core.Catch(run); p {
				return fail(v.name+":nested-sort-in-less", fmt.Sprintf("%s with a less function that sorts a private copy: %v", v.name, pv))
			}
			for i := 1; i < n; i++ {
				ka, ia := ki(s[i-1])
				kb, ib := ki(s[i])
				if (!v.desc && kb < ka) || (v.desc && ka < kb) || (v.stable && ka == kb && ia > ib) {
					return fail(v.name+":nested-sort-in-less", fmt.Sprintf("%s with a less function that itself calls SortStableFunc on a private copy: the outer result is out of order or not stable at position %d", v.name, i))
				}
			}
		}
		c.Count("sorts_with_nested_sort_in_less", 4)
	}
	// ShuffleRand over this element type: a permutation, and a function of the generator
	// alone - the same seed gives the same order, also on the second and third call
	if tname != "16B" && n >= 2 {
		var firstOrder []int
		for rep := 0; rep < 3; rep++ {
			s := mk()
			slices.ShuffleRand(s, rand.New(rand.NewSource(int64(n)*7919+1)))
			order := make([]int, n)
			seen := make([]bool, n)
			for i, e := range s {
				_, idx := ki(e)
				if idx < 0 || idx >= n || seen[idx] {
					return fail("ShuffleRand:not-a-permutation"+sfx, "ShuffleRand result is not a permutation")
				}
				seen[idx] = true
				order[i] = idx
			}
			if rep == 0 {
				firstOrder = order
			} else if !eqSlice(order, firstOrder) {
				return fail("ShuffleRand:not-deterministic"+sfx, fmt.Sprintf("ShuffleRand with the same seed gave another order on call %d than on the first call", rep+1))
			}
			if e := s[:cap(s)]; len(e) != n+2 || !same(e[n], s1) || !same(e[n+1], s2) {
				return fail("ShuffleRand:wrote-beyond-len"+sfx, "ShuffleRand touched the spare capacity of the slice")
			}
		}
		c.Count("shuffles", 3)
	}
	return true
}

func countTies(s []tg) int {
	n := 0
	for i := 1; i < len(s); i++ {
		if s[i].Key == s[i-1].Key {
			n++
		}
	}
	return n
}

func clipN(s []int, n int) []int {
	if len(s) > n {
		return s[:n]
	}
	return s
}

// killerInput runs sortFn on item indices with McIlroy's adversarial comparator
// ("A Killer Adversary for Quicksort", 1999) and returns the values it froze.
func killerInput(n int, sortFn func(idx []int, less func(a, b int) bool)) []int {
	gas := n + 1
	val := make([]int, n)
	for i := range val {
		val[i] = gas
	}
	nsolid, candidate := 0, 0
	less := func(x, y int) bool {
		if val[x] == gas && val[y] == gas {
			if x == candidate {
				val[x] = nsolid
			} else {
				val[y] = nsolid
			}
			nsolid++
		}
		if val[x] == gas {
			candidate = x
		} else if val[y] == gas {
			candidate = y
		}
		return val[x] < val[y]
	}
	idx := make([]int, n)
	for i := range idx {
		idx[i] = i
	}
	func() {
		defer func() { recover() }() // a broken sort may misbehave under the adversary; the replay judges it
		sortFn(idx, less)
	}()
	for i := range val {
		if val[i] == gas {
			val[i] = nsolid
			nsolid++
		}
	}
	return val
}
