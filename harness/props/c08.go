package props

import (
	"fmt"
	"math"
	"strconv"
	"strings"

	"gopkg.in/typ.v4/arrays"
	"verifharness/internal/core"
)

// C08 — Array2D is a grid of independent cells for every width and height.
// Cell-model monitor: a [][]int of unique values mirrors every call; the whole
// grid is re-read after every mutation. Shapes 0..6 x 0..6 are covered
// systematically in every run (case index -> shape), further cases draw
// random (also very flat / very tall) shapes.

func init() { register("C08", runC08) }

type grid struct {
	w, h int
	m    [][]int // m[y][x]
}

func newGrid(w, h int) *grid {
	g := &grid{w: w, h: h, m: make([][]int, h)}
	for y := range g.m {
		g.m[y] = make([]int, w)
	}
	return g
}

func (g *grid) clone() *grid {
	n := newGrid(g.w, g.h)
	for y := range g.m {
		copy(n.m[y], g.m[y])
	}
	return n
}

func runC08(c *core.Ctx) {
	r := c.R
	var w, h int
	if c.Index < 49 {
		w, h = int(c.Index%7), int(c.Index/7)
	} else {
		switch r.Intn(4) {
		case 0:
			w, h = r.Range(1, 70), r.Range(1, 5)
			if r.Chance(1, 6) && c.Mode != "par" {
				w, h = r.Range(60, 150), r.Range(60, 150) // thousands of cells
			}
		case 1:
			w, h = r.Range(1, 5), r.Range(1, 70)
		case 2:
			w, h = r.Range(0, 12), r.Range(0, 12)
		case 3:
			w, h = r.Range(7, 24), r.Range(7, 24)
		}
		if c.Mode != "par" && (c.Index == 63 || (c.Tier == "thorough" && c.Index%4000 == 63)) {
			w, h = r.Range(257, 330), r.Range(257, 330) // more than 65536 cells
			c.Count("shapes_beyond_65536_cells", 1)
		}
	}
	var hist []string
	shape := fmt.Sprintf("%dx%d", w, h)
	fail := func(sig, msg string) {
		hs := hist
		if len(hs) > 120 {
			hs = hs[len(hs)-120:]
		}
		c.Violate(sig+shapeClass(w, h), msg+" [shape "+shape+"]", map[string]any{"width": w, "height": h, "history_tail": append([]string{}, hs...)})
	}
	c.Distinct("shapes", uint64(w)<<32|uint64(h))
	c.Count("shape_class"+shapeClass(w, h), 1)
	var a arrays.Array2D[int]
	if p, pv := core.Catch(func() { a = arrays.New2D[int](w, h) }); p {
		fail("New2D:panic", fmt.Sprint(pv))
		return
	}
	g := newGrid(w, h)
	if a.Width() != w || a.Height() != h {
		fail("New2D:dims", fmt.Sprintf("Width/Height = %d/%d", a.Width(), a.Height()))
		return
	}
	// compare the whole grid through Get
	var checkString func(op string, arr arrays.Array2D[int], gg *grid) bool
	same := func(op string, arr arrays.Array2D[int], gg *grid) bool {
		c.Count("grid_reads", 1)
		if gg.w*gg.h <= 36 && !checkString(op, arr, gg) {
			return false
		}
		for y := 0; y < gg.h; y++ {
			for x := 0; x < gg.w; x++ {
				var v int
				if p, pv := core.Catch(func() { v = arr.Get(x, y) }); p {
					fail(op+":Get-panic", fmt.Sprintf("after %s Get(%d,%d) in bounds panicked: %v", op, x, y, pv))
					return false
				}
				if v != gg.m[y][x] {
					fail(op+":cell", fmt.Sprintf("after %s cell (%d,%d) holds %d, model %d", op, x, y, v, gg.m[y][x]))
					return false
				}
			}
		}
		return true
	}
	var keptStr, keptStrCopy string // a String() result kept from an earlier call, and a private copy of its bytes
	checkString = func(op string, arr arrays.Array2D[int], gg *grid) bool {
		st := arr.String()
		// strings are immutable: what an earlier String() call returned must still read the same
		if keptStr != keptStrCopy {
			fail(op+":String-result-changed", fmt.Sprintf("a string returned by an earlier String() call read %q then and reads %q now", keptStrCopy, keptStr))
			return false
		}
		keptStr, keptStrCopy = st, string(append([]byte(nil), st...))
		groups, toks, ok := parse2D(st)
		if !ok {
			fail(op+":String-format", fmt.Sprintf("after %s cannot parse String() %q", op, st))
			return false
		}
		if groups != gg.h {
			fail(op+":String-rows", fmt.Sprintf("after %s String() has %d row groups, height is %d: %q", op, groups, gg.h, st))
			return false
		}
		var want []int
		for y := 0; y < gg.h; y++ {
			want = append(want, gg.m[y]...)
		}
		if !eqSlice(toks, want) {
			fail(op+":String-cells", fmt.Sprintf("after %s String() lists %v, row-major cells are %v", op, toks, want))
			return false
		}
		c.Count("strings", 1)
		return true
	}
	val := 0
	fresh := func() int { val++; return 100000 + val }
	small := w*h <= 64

	// 1. Set every cell with a unique value (x + 1000*y + 1); whole grid re-read after each Set on small shapes
	order := r.Perm(w * h)
	stride := 17
	if w*h > 20000 {
		stride = w * h / 40 // a whole-grid read costs w*h Gets: about 40 of them on the biggest shapes
	}
	for k, idx := range order {
		x, y := idx%w, idx/w
		v := 1000*y + x + 1
		hist = append(hist, fmt.Sprintf("Set(%d,%d,%d)", x, y, v))
		if p, pv := core.Catch(func() { a.Set(x, y, v) }); p {
			fail("Set:panic", fmt.Sprintf("Set(%d,%d) in bounds panicked: %v", x, y, pv))
			return
		}
		g.m[y][x] = v
		c.Count("set_in_bounds", 1)
		if small || k%stride == 0 || k == len(order)-1 {
			if !same("Set", a, g) {
				return
			}
		}
	}
	// 2. out-of-bounds Get/Set must panic and change nothing
	for x := -2; x <= w+1; x++ {
		for y := -2; y <= h+1; y++ {
			if x >= 0 && x < w && y >= 0 && y < h {
				continue
			}
			if !small && r.Chance(3, 4) {
				continue
			}
			hist = append(hist, fmt.Sprintf("oob(%d,%d)", x, y))
			pg, _ := core.Catch(func() { a.Get(x, y) })
			ps, _ := core.Catch(func() { a.Set(x, y, -7) })
			if !pg || !ps {
				fail("out-of-bounds:no-panic", fmt.Sprintf("Get/Set(%d,%d) outside %s: panicked get=%v set=%v", x, y, shape, pg, ps))
				return
			}
			c.Count("out_of_bounds_panics", 2)
		}
	}
	// extreme coordinates: index arithmetic such as x+y*width must not wrap into range
	for _, xy := range [][2]int{{math.MaxInt, 0}, {0, math.MaxInt}, {math.MaxInt, math.MaxInt}, {math.MinInt, 0}, {0, math.MinInt}, {math.MinInt, math.MinInt},
		{math.MaxInt/2 + 1, 2}, {1, math.MaxInt/2 + 1}, {-1, math.MaxInt}, {w, math.MinInt},
		// coordinates whose product with the width or the height wraps around 2^64 to a small number
		{0, wrapCoord(w, 0)}, {1, wrapCoord(w, 1)}, {wrapCoord(h, 0), 0}, {wrapCoord(h, 1), 1}, {0, wrapCoord(w*h, 0)},
		{0, 1 << 62}, {0, 1 << 61}, {0, 1 << 60}, {1 << 62, 0}, {0, math.MaxInt/3 + 1}, {math.MaxInt/3 + 1, 0}, {0, -(1 << 62)}, {0, 1 << 32}, {1 << 32, 1 << 32}} {
		pg, _ := core.Catch(func() { a.Get(xy[0], xy[1]) })
		ps, _ := core.Catch(func() { a.Set(xy[0], xy[1], -7) })
		pr, _ := core.Catch(func() { a.Row(xy[1]) })
		if !pg || !ps || (!pr && (xy[1] < 0 || xy[1] >= h)) {
			fail("out-of-bounds:no-panic[extreme]", fmt.Sprintf("Get/Set/Row with coordinates (%d,%d) outside %s: panicked get=%v set=%v row=%v", xy[0], xy[1], shape, pg, ps, pr))
			return
		}
		if w > 0 && h > 0 {
			if pf, _ := core.Catch(func() { a.Fill(0, 0, xy[0], xy[1], -9) }); !pf && (xy[0] < 0 || xy[0] >= w || xy[1] < 0 || xy[1] >= h) {
				fail("Fill:out-of-bounds-no-panic[extreme]", fmt.Sprintf("Fill(0,0,%d,%d) did not panic", xy[0], xy[1]))
				return
			}
			if psn, _ := core.Catch(func() { a.RowSpan(0, xy[0], 0) }); !psn && (xy[0] < 0 || xy[0] >= w) {
				fail("RowSpan:out-of-range-no-panic[extreme]", fmt.Sprintf("RowSpan(0,%d,0) did not panic", xy[0]))
				return
			}
		}
	}
	if !same("out-of-bounds", a, g) {
		return
	}
	// 3. Row / RowSpan: contents and liveness both ways
	for y := 0; y < h; y++ {
		if !small && r.Chance(1, 2) {
			continue
		}
		if w*h > 20000 && y != 0 && y != h-1 && !r.Chance(12, h) {
			continue // the biggest shapes: the first, the last and about a dozen other rows (every row costs several whole-grid reads)
		}
		hist = append(hist, fmt.Sprintf("Row(%d)", y))
		var row []int
		if p, pv := core.Catch(func() { row = a.Row(y) }); p {
			fail("Row:panic", fmt.Sprintf("Row(%d) panicked: %v", y, pv))
			return
		}
		if !eqSlice(row, g.m[y]) {
			fail("Row:contents", fmt.Sprintf("Row(%d)=%v, model %v", y, row, g.m[y]))
			return
		}
		c.Count("rows", 1)
		if w > 0 {
			_ = a.String() // observed between taking the window and writing through it
			x := r.Intn(w)
			v := fresh()
			row[x] = v // write through the slice
			g.m[y][x] = v
			if !same("write-through-Row", a, g) {
				return
			}
			x = r.Intn(w)
			v = fresh()
			a.Set(x, y, v) // Set must be visible in the slice
			g.m[y][x] = v
			if row[x] != v {
				fail("Row:not-live", fmt.Sprintf("Set(%d,%d) not visible through the slice returned by Row(%d)", x, y, y))
				return
			}
		}
		// spans
		for k := 0; k < 3 && w > 0; k++ {
			x1 := r.Intn(w)
			x2 := r.Range(x1, w-1)
			hist = append(hist, fmt.Sprintf("RowSpan(%d,%d,%d)", x1, x2, y))
			var sp []int
			if p, pv := core.Catch(func() { sp = a.RowSpan(x1, x2, y) }); p {
				fail("RowSpan:panic", fmt.Sprintf("RowSpan(%d,%d,%d) panicked: %v", x1, x2, y, pv))
				return
			}
			if !eqSlice(sp, g.m[y][x1:x2+1]) {
				fail("RowSpan:contents", fmt.Sprintf("RowSpan(%d,%d,%d)=%v, model %v", x1, x2, y, sp, g.m[y][x1:x2+1]))
				return
			}
			_ = a.String()
			i := r.Intn(len(sp))
			v := fresh()
			sp[i] = v
			g.m[y][x1+i] = v
			if !same("write-through-RowSpan", a, g) {
				return
			}
			c.Count("rowspans", 1)
		}
	}
	// Row / RowSpan out of range
	for _, y := range []int{-1, h, h + 1} {
		if p, _ := core.Catch(func() { a.Row(y) }); !p {
			fail("Row:out-of-range-no-panic", fmt.Sprintf("Row(%d) did not panic", y))
			return
		}
		if w > 0 {
			if p, _ := core.Catch(func() { a.RowSpan(0, w-1, y) }); !p {
				fail("RowSpan:out-of-range-no-panic", fmt.Sprintf("RowSpan(0,%d,%d) did not panic", w-1, y))
				return
			}
		}
	}
	if h > 0 {
		for _, xs := range [][2]int{{-1, 0}, {0, w}, {w, w}} {
			if xs[0] > xs[1] {
				continue
			}
			if p, _ := core.Catch(func() { a.RowSpan(xs[0], xs[1], 0) }); !p {
				fail("RowSpan:out-of-range-no-panic", fmt.Sprintf("RowSpan(%d,%d,0) did not panic", xs[0], xs[1]))
				return
			}
		}
	}
	if !same("row-bounds", a, g) {
		return
	}
	// 4. Fill: all four corner orders of random rectangles
	if w > 0 && h > 0 {
		nf := 6
		if small {
			nf = 12
		}
		for k := 0; k < nf; k++ {
			xa, xb := r.Intn(w), r.Intn(w)
			ya, yb := r.Intn(h), r.Intn(h)
			v := fresh()
			hist = append(hist, fmt.Sprintf("Fill(%d,%d,%d,%d,%d)", xa, ya, xb, yb, v))
			if p, pv := core.Catch(func() { a.Fill(xa, ya, xb, yb, v) }); p {
				fail("Fill:panic", fmt.Sprintf("Fill(%d,%d,%d,%d) in bounds panicked: %v", xa, ya, xb, yb, pv))
				return
			}
			x1, x2, y1, y2 := xa, xb, ya, yb
			if x2 < x1 {
				x1, x2 = x2, x1
			}
			if y2 < y1 {
				y1, y2 = y2, y1
			}
			for y := y1; y <= y2; y++ {
				for x := x1; x <= x2; x++ {
					g.m[y][x] = v
				}
			}
			c.Count("fills", 1)
			if !same("Fill", a, g) {
				return
			}
		}
		// out-of-bounds Fill corner: panic, nothing changes
		bad := [][4]int{{-1, 0, 0, 0}, {0, -1, 0, 0}, {0, 0, w, 0}, {0, 0, 0, h}}
		b := bad[r.Intn(4)]
		if p, _ := core.Catch(func() { a.Fill(b[0], b[1], b[2], b[3], -9) }); !p {
			fail("Fill:out-of-bounds-no-panic", fmt.Sprintf("Fill(%v) did not panic", b))
			return
		}
		if !same("Fill-oob", a, g) {
			return
		}
	}
	// 5. Clone independence both ways
	{
		hist = append(hist, "Clone")
		cl := a.Clone()
		gc := g.clone()
		if cl.Width() != w || cl.Height() != h || !same("Clone", cl, gc) {
			if !c.Violated() {
				fail("Clone:dims", "clone has other dimensions")
			}
			return
		}
		if w > 0 && h > 0 {
			x, y := r.Intn(w), r.Intn(h)
			v := fresh()
			cl.Set(x, y, v)
			gc.m[y][x] = v
			x, y = r.Intn(w), r.Intn(h)
			v = fresh()
			a.Set(x, y, v)
			g.m[y][x] = v
			if !same("Clone-independence(original)", a, g) || !same("Clone-independence(clone)", cl, gc) {
				return
			}
			// windows taken from the CLONE are windows onto the clone's cells
			y = r.Intn(h)
			crow := cl.Row(y)
			if !eqSlice(crow, gc.m[y]) {
				fail("Clone:Row-contents", fmt.Sprintf("clone.Row(%d)=%v, the clone's cells are %v", y, crow, gc.m[y]))
				return
			}
			x = r.Intn(w)
			v = fresh()
			crow[x] = v
			gc.m[y][x] = v
			x1 := r.Intn(w)
			x2 := r.Range(x1, w-1)
			csp := cl.RowSpan(x1, x2, y)
			v = fresh()
			csp[0] = v
			gc.m[y][x1] = v
			if !same("Clone-window(original)", a, g) || !same("Clone-window(clone)", cl, gc) {
				return
			}
			v = fresh()
			cl.Fill(0, 0, w-1, 0, v)
			for xx := 0; xx < w; xx++ {
				gc.m[0][xx] = v
			}
			if !same("Clone-Fill(original)", a, g) || !same("Clone-Fill(clone)", cl, gc) {
				return
			}
		}
		c.Count("clones", 1)
	}
	// 6. New2DFilled
	{
		v := fresh()
		f := arrays.New2DFilled(w, h, v)
		gf := newGrid(w, h)
		for y := range gf.m {
			for x := range gf.m[y] {
				gf.m[y][x] = v
			}
		}
		if !same("New2DFilled", f, gf) {
			return
		}
		c.Count("filled", 1)
	}
	// 7. New2DFromJagged: shorter/longer rows, fewer/more rows
	for k := 0; k < 3; k++ {
		rows := r.Range(0, h+2)
		exact := k == 0 && r.Bool() // exactly height rows of exactly width values: the habitat of fast paths
		if exact {
			rows = h
		}
		jag := make([][]int, rows)
		gj := newGrid(w, h)
		for y := range jag {
			if !exact && r.Chance(1, 6) {
				jag[y] = nil
				continue
			}
			n := r.Range(0, w+2)
			if exact {
				n = w
			}
			// rows carry 0..3 elements of spare capacity holding data: only len(row) counts
			full := make([]int, n+(y+k)%4)
			for i := range full {
				full[i] = -555000 - i
			}
			jag[y] = full[:n]
			for x := range jag[y] {
				jag[y][x] = fresh()
				if y < h && x < w {
					gj.m[y][x] = jag[y][x]
				}
			}
		}
		hist = append(hist, fmt.Sprintf("New2DFromJagged(rows=%d)", rows))
		var ja arrays.Array2D[int]
		if p, pv := core.Catch(func() { ja = arrays.New2DFromJagged(w, h, jag) }); p {
			fail("New2DFromJagged:panic", fmt.Sprintf("New2DFromJagged(%d,%d, %d rows of lengths %v) panicked: %v", w, h, rows, lens(jag), pv))
			return
		}
		if !same("New2DFromJagged", ja, gj) {
			return
		}
		// the array must be independent of the jagged input, both ways
		jsnap := make([][]int, len(jag))
		for y := range jag {
			jsnap[y] = append([]int(nil), jag[y]...)
		}
		for y := 0; y < h; y++ {
			for x := 0; x < w; x++ {
				v := fresh()
				ja.Set(x, y, v)
				gj.m[y][x] = v
			}
		}
		for y := range jag {
			if !eqSlice(jag[y], jsnap[y]) {
				fail("New2DFromJagged:shares-memory", fmt.Sprintf("writing to the array built by New2DFromJagged(%d,%d, rows of lengths %v) changed row %d of the jagged input", w, h, lens(jag), y))
				return
			}
			for x := range jag[y] {
				jag[y][x] = -31337
			}
		}
		if !same("New2DFromJagged+input-overwritten", ja, gj) {
			return
		}
		if exact {
			c.Count("jagged_exact_rectangles", 1)
		}
		switch {
		case rows > h:
			c.Count("jagged_more_rows", 1)
		case rows < h:
			c.Count("jagged_fewer_rows", 1)
		default:
			c.Count("jagged_equal_rows", 1)
		}
	}
	// 8. String (also checked after every mutation on small shapes)
	if !checkString("final", a, g) {
		return
	}
	// systematic shapes: EVERY Fill rectangle (all four corners, in every order) and EVERY
	// RowSpan (x1 <= x2) of the shape, each against the cell model
	if c.Index < 49 && w >= 1 && h >= 1 {
		fa := arrays.New2D[int](w, h)
		fm := newGrid(w, h)
		v := 500000
		for x1 := 0; x1 < w; x1++ {
			for x2 := 0; x2 < w; x2++ {
				for y1 := 0; y1 < h; y1++ {
					for y2 := 0; y2 < h; y2++ {
						v++
						fa.Fill(x1, y1, x2, y2, v)
						for y := min(y1, y2); y <= max(y1, y2); y++ {
							for x := min(x1, x2); x <= max(x1, x2); x++ {
								fm.m[y][x] = v
							}
						}
						for y := 0; y < h; y++ {
							for x := 0; x < w; x++ {
								if g := fa.Get(x, y); g != fm.m[y][x] {
									fail("Fill:cell[exhaustive]", fmt.Sprintf("after Fill(%d,%d,%d,%d) cell (%d,%d) holds %d, model %d", x1, y1, x2, y2, x, y, g, fm.m[y][x]))
									return
								}
							}
						}
					}
				}
			}
		}
		for y := 0; y < h; y++ {
			for x1 := 0; x1 < w; x1++ {
				for x2 := x1; x2 < w; x2++ {
					sp := fa.RowSpan(x1, x2, y)
					if len(sp) != x2-x1+1 {
						fail("RowSpan:length[exhaustive]", fmt.Sprintf("RowSpan(%d,%d,%d) has length %d", x1, x2, y, len(sp)))
						return
					}
					for i := range sp {
						if sp[i] != fm.m[y][x1+i] {
							fail("RowSpan:contents[exhaustive]", fmt.Sprintf("RowSpan(%d,%d,%d)[%d]=%d, cell holds %d", x1, x2, y, i, sp[i], fm.m[y][x1+i]))
							return
						}
					}
					v++
					sp[len(sp)-1] = v
					fm.m[y][x2] = v
					if fa.Get(x2, y) != v {
						fail("RowSpan:not-live[exhaustive]", fmt.Sprintf("a write through RowSpan(%d,%d,%d) did not reach cell (%d,%d)", x1, x2, y, x2, y))
						return
					}
				}
			}
		}
		c.Count("exhaustive_fill_and_rowspan_shapes", 1)
	}
	// element types that cannot be compared (slices, funcs) and values that compare
	// equal to the zero value without being it (-0.0): cells must hold exactly what was stored
	if c.Index%4 == 2 && w >= 1 && h >= 1 {
		tmpl := []int{7, 8}
		var as arrays.Array2D[[]int]
		var af arrays.Array2D[func() int]
		fn := func() int { return 42 }
		if p, pv := core.Catch(func() {
			as = arrays.New2DFilled(w, h, tmpl)
			af = arrays.New2DFilled(w, h, fn)
			as.Fill(0, 0, w-1, h-1, tmpl)
			_ = as.Clone()
		}); p {
			fail("New2DFilled:uncomparable-element-type", fmt.Sprintf("New2DFilled/Fill/Clone over a slice- or func-typed element panicked: %v", pv))
			return
		}
		x, y := r.Intn(w), r.Intn(h)
		if g := as.Get(x, y); len(g) != 2 || &g[0] != &tmpl[0] || af.Get(x, y) == nil || af.Get(x, y)() != 42 {
			fail("New2DFilled:uncomparable-element-type", fmt.Sprintf("cell (%d,%d) of an array filled with a slice / func value does not hold that value", x, y))
			return
		}
		nz := math.Copysign(0, -1)
		fz := arrays.New2DFilled(w, h, nz)
		fz2 := arrays.New2D[float64](w, h)
		fz2.Fill(0, 0, w-1, h-1, nz)
		fz3 := arrays.New2D[float64](w, h)
		fz3.Set(x, y, nz)
		if !math.Signbit(fz.Get(x, y)) || !math.Signbit(fz2.Get(x, y)) || !math.Signbit(fz3.Get(x, y)) || !math.Signbit(fz.Clone().Get(x, y)) {
			fail("negative-zero-not-stored", fmt.Sprintf("cell (%d,%d) was given -0.0 (by New2DFilled / Fill / Set / Clone) and holds +0.0", x, y))
			return
		}
		c.Count("uncomparable_and_negative_zero_elements", 1)
	}
	// the same cell model over other element types (every 4th random case)
	if c.Index >= 49 && c.Index%4 == 1 {
		ok := true
		switch (c.Index / 4) % 4 {
		case 0:
			ok = arrTyped(c, "[20]int64", func(i int) [20]int64 { return [20]int64{int64(i), 19: int64(-i)} })
		case 1:
			ok = arrTyped(c, "string", func(i int) string {
				switch i % 5 {
				case 0:
					return ""
				case 1:
					return fmt.Sprint("t", i, " ")
				}
				return fmt.Sprint("s", i)
			})
		case 2:
			ok = arrTyped(c, "uint8", func(i int) uint8 { return uint8(i%255 + 1) })
		case 3:
			ok = arrTyped(c, "struct{a uint8; b string}", func(i int) c08rec { return c08rec{uint8(i), fmt.Sprint(i)} })
		}
		if !ok {
			return
		}
	}
	c.Count("cases_completed", 1)
	if w >= 1 && h >= 1 {
		c.NonTrivial(core.Mix(uint64(w), uint64(h), core.HashString(strings.Join(hist, ";"))))
	}
	if c.WantSample() {
		hs := hist
		if len(hs) > 25 {
			hs = hs[:25]
		}
		c.Sample(map[string]any{"shape": shape, "calls": len(hist), "history_prefix": hs})
	}
}

type c08rec struct {
	a uint8
	b string
}

// arrTyped: width x height independent cells for an arbitrary comparable element type.
func arrTyped[T comparable](c *core.Ctx, tname string, val func(i int) T) bool {
	r := c.R
	w, h := r.Range(0, 40), r.Range(0, 40)
	if r.Chance(1, 3) {
		w, h = r.Range(1, 6), r.Range(1, 6)
	}
	var zero T
	model := make([][]T, h)
	for y := range model {
		model[y] = make([]T, w)
	}
	var a arrays.Array2D[T]
	var last string
	fail := func(sig, msg string) bool {
		c.Violate(sig+"["+tname+"]", fmt.Sprintf("%s [element type %s, shape %dx%d, after %s]", msg, tname, w, h, last), nil)
		return false
	}
	switch r.Intn(3) {
	case 0:
		a = arrays.New2D[T](w, h)
		last = "New2D"
	case 1:
		v := val(7)
		a = arrays.New2DFilled(w, h, v)
		for y := range model {
			for x := range model[y] {
				model[y][x] = v
			}
		}
		last = "New2DFilled"
	case 2:
		jag := make([][]T, r.Range(0, h+2))
		for y := range jag {
			jag[y] = make([]T, r.Range(0, w+2))
			for x := range jag[y] {
				jag[y][x] = val(1000 + y*50 + x)
				if y < h && x < w {
					model[y][x] = jag[y][x]
				}
			}
		}
		a = arrays.New2DFromJagged(w, h, jag)
		last = "New2DFromJagged"
	}
	same := func(arr arrays.Array2D[T], m [][]T) bool {
		if arr.Width() != w || arr.Height() != h {
			return fail("shape", fmt.Sprintf("Width/Height = %d/%d", arr.Width(), arr.Height()))
		}
		for y := 0; y < h; y++ {
			row := arr.Row(y)
			if len(row) != w {
				return fail("Row:length", fmt.Sprintf("Row(%d) has length %d", y, len(row)))
			}
			for x := 0; x < w; x++ {
				if g := arr.Get(x, y); g != m[y][x] || row[x] != m[y][x] {
					return fail("cell", fmt.Sprintf("cell (%d,%d): Get gives %v, Row gives %v, model %v", x, y, g, row[x], m[y][x]))
				}
			}
		}
		return true
	}
	if !same(a, model) {
		return false
	}
	if w == 0 || h == 0 {
		c.Count("typed_arrays_"+tname, 1)
		return true
	}
	for i := 0; i < 40; i++ {
		x1, x2, y1, y2 := r.Intn(w), r.Intn(w), r.Intn(h), r.Intn(h)
		v := val(i + 1)
		switch r.Intn(6) {
		case 0, 1:
			last = fmt.Sprintf("Set(%d,%d)", x1, y1)
			a.Set(x1, y1, v)
			model[y1][x1] = v
		case 2:
			last = fmt.Sprintf("Fill(%d,%d,%d,%d)", x1, y1, x2, y2)
			a.Fill(x1, y1, x2, y2, v)
			for y := min(y1, y2); y <= max(y1, y2); y++ {
				for x := min(x1, x2); x <= max(x1, x2); x++ {
					model[y][x] = v
				}
			}
		case 3:
			last = fmt.Sprintf("write through Row(%d)[%d]", y1, x1)
			a.Row(y1)[x1] = v
			model[y1][x1] = v
		case 4:
			lo, hi := min(x1, x2), max(x1, x2)
			last = fmt.Sprintf("write through RowSpan(%d,%d,%d)", lo, hi, y1)
			sp := a.RowSpan(lo, hi, y1)
			if len(sp) == 0 {
				continue
			}
			k := r.Intn(len(sp))
			sp[k] = v
			model[y1][lo+k] = v
		case 5:
			last = "Clone + writes to the clone"
			cl := a.Clone()
			if !same(cl, model) {
				return false
			}
			cl.Set(x1, y1, val(424242))
			cl.Fill(0, 0, w-1, h-1, zero)
		}
		if !same(a, model) {
			return false
		}
	}
	if s, want := a.String(), fmt.Sprint(model); s != want {
		last = "String"
		return fail("String", fmt.Sprintf("String()=%.200q, the cell model prints %.200q", s, want))
	}
	c.Count("typed_arrays_"+tname, 1)
	return true
}

// wrapCoord returns a positive coordinate c with c*d == 2^64 + small (mod 2^64 a number
// in [0, d)), plus k; math.MaxInt when no such int exists (d < 3).
func wrapCoord(d, k int) int {
	if d < 3 {
		return math.MaxInt
	}
	q := math.MaxUint64/uint64(d) + 1
	if q > math.MaxInt {
		return math.MaxInt
	}
	return int(q) + k
}

func shapeClass(w, h int) string {
	switch {
	case w == 0 || h == 0:
		return "[empty]"
	case w == h:
		return "[square]"
	case w > h:
		return "[wide]"
	}
	return "[tall]"
}

func lens(j [][]int) []int {
	out := make([]int, len(j))
	for i := range j {
		out[i] = len(j[i])
	}
	return out
}

// parse2D parses "[[1 2] [3 4]]": number of inner groups and all value tokens.
func parse2D(s string) (groups int, toks []int, ok bool) {
	if len(s) < 2 || s[0] != '[' || s[len(s)-1] != ']' {
		return 0, nil, false
	}
	in := s[1 : len(s)-1]
	depth := 0
	cur := ""
	flush := func() bool {
		if cur == "" {
			return true
		}
		v, err := strconv.Atoi(cur)
		if err != nil {
			return false
		}
		toks = append(toks, v)
		cur = ""
		return true
	}
	for i := 0; i < len(in); i++ {
		ch := in[i]
		switch ch {
		case '[':
			depth++
			if depth != 1 {
				return 0, nil, false
			}
			groups++
		case ']':
			if !flush() {
				return 0, nil, false
			}
			depth--
			if depth != 0 {
				return 0, nil, false
			}
		case ' ':
			if !flush() {
				return 0, nil, false
			}
		default:
			if depth != 1 {
				return 0, nil, false
			}
			cur += string(ch)
		}
	}
	return groups, toks, depth == 0
}
