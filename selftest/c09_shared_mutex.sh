python3 - <<'PY'
import re
p='/repo/sync2/keyedmutex.go'
s=open(p).read()
n=s.count('km.m.LoadOrStore(key, &sync.Mutex{})')
s=s.replace('km.m.LoadOrStore(key, &sync.Mutex{})','km.m.LoadOrStore(*new(T), &sync.Mutex{})')
assert n==3
open(p,'w').write(s)
PY
