// vplan prints the fixed case plan (per property, tier, mode) as a markdown table.
package main

import (
	"fmt"

	"verifharness/internal/plan"
)

func main() {
	fmt.Println("| property | mode / build | quick cases | thorough cases | worker processes | GOMAXPROCS cycle |")
	fmt.Println("|---|---|---|---|---|---|")
	for _, p := range plan.Props() {
		q := map[string]plan.Mode{}
		var order []string
		for _, m := range plan.Plan(p, "quick") {
			k := m.Name + " / " + m.Build + m.Go
			q[k] = m
			order = append(order, k)
		}
		t := map[string]plan.Mode{}
		for _, m := range plan.Plan(p, "thorough") {
			k := m.Name + " / " + m.Build + m.Go
			t[k] = m
			if _, ok := q[k]; !ok {
				order = append(order, k)
			}
		}
		for _, k := range order {
			qc, tc := "-", "-"
			m := t[k]
			if x, ok := q[k]; ok {
				qc = fmt.Sprint(x.Cases)
				m = x
			}
			if x, ok := t[k]; ok {
				tc = fmt.Sprint(x.Cases)
			}
			procs := "default"
			if len(m.Procs) > 0 {
				procs = fmt.Sprint(m.Procs)
			}
			fmt.Printf("| %s | %s | %s | %s | %d | %s |\n", p, k, qc, tc, m.Par, procs)
		}
	}
}
