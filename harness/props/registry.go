// Package props wires the per-property monitors into the worker.
package props

import (
	"fmt"
	"sort"
	"sync"

	"verifharness/internal/core"
)

var registry = map[string]func(*core.Ctx){}

func register(id string, f func(*core.Ctx)) { registry[id] = f }

func Lookup(id string) func(*core.Ctx) {
	f := registry[id]
	if f == nil {
		return nil
	}
	return func(c *core.Ctx) {
		if c.Mode == "par" {
			runPar(c, f)
			return
		}
		if c.Mode == "readers" {
			if rf := readersFns[c.Prop]; rf != nil {
				rf(c)
				return
			}
		}
		f(c)
	}
}

// runPar: mode "par" of the sequential properties. 2..8 goroutines run one sequential
// case each, at the same time, on objects entirely their own. Values that are not shared
// must not influence each other: package-level state inside the library (pools, memo
// tables, striped locks) shows up here as a wrong result in one of the cases or, in the
// race build, as a data race report with library frames.
func runPar(c *core.Ctx, f func(*core.Ctx)) {
	g := c.R.Range(2, 8)
	kids := make([]*core.Ctx, g)
	var wg sync.WaitGroup
	start := make(chan struct{})
	for i := range kids {
		// sub-case indices start at 1000: the small indices of the sequential modes are
		// exhaustive sweeps and other heavy one-per-run cases
		kids[i] = c.Fork(1000+c.Index*8+int64(i), core.Mix(c.Seed, uint64(i)+1))
		wg.Add(1)
		go func(k *core.Ctx) {
			defer wg.Done()
			defer func() {
				if p := recover(); p != nil {
					k.Violate("harness-level-panic:"+fmt.Sprint(p), fmt.Sprintf("panic escaped the monitor: %v", p), nil)
				}
			}()
			<-start
			f(k)
		}(kids[i])
	}
	close(start)
	wg.Wait()
	for i, k := range kids {
		c.Join(k, fmt.Sprintf("[one of %d sequential cases run at the same time on separate goroutines, each on objects of its own; this was sub-case %d, sequential case index %d]", g, i, k.Index))
	}
	c.Count("par_cases", 1)
	c.Count("par_goroutines", int64(g))
}

func IDs() []string {
	var out []string
	for k := range registry {
		out = append(out, k)
	}
	sort.Strings(out)
	return out
}
