// Package core holds what every monitor needs: a deterministic PRNG, the
// per-case context through which a monitor reports what it observed, and the
// result file a worker process leaves behind for the driver.
package core

// Rand is a small deterministic PRNG (splitmix64 seeding + xorshift128+). It is
// deliberately our own so that a case seed means the same case under every Go
// toolchain.
type Rand struct{ a, b uint64 }

func splitmix(x *uint64) uint64 {
	*x += 0x9E3779B97F4A7C15
	z := *x
	z = (z ^ (z >> 30)) * 0xBF58476D1CE4E5B9
	z = (z ^ (z >> 27)) * 0x94D049BB133111EB
	return z ^ (z >> 31)
}

// Mix hashes a list of words into one (used for case seeds and case hashes).
func Mix(ws ...uint64) uint64 {
	h := uint64(0x243F6A8885A308D3)
	for _, w := range ws {
		h ^= w
		h = splitmix(&h)
	}
	return h
}

// HashString is FNV-1a, 64 bit.
func HashString(s string) uint64 {
	h := uint64(14695981039346656037)
	for i := 0; i < len(s); i++ {
		h ^= uint64(s[i])
		h *= 1099511628211
	}
	return h
}

// HashBytes is FNV-1a over bytes.
func HashBytes(b []byte) uint64 {
	h := uint64(14695981039346656037)
	for _, c := range b {
		h ^= uint64(c)
		h *= 1099511628211
	}
	return h
}

func NewRand(seed uint64) *Rand {
	s := seed
	r := &Rand{}
	r.a = splitmix(&s)
	r.b = splitmix(&s)
	if r.a == 0 && r.b == 0 {
		r.b = 1
	}
	return r
}

func (r *Rand) Uint64() uint64 {
	x, y := r.a, r.b
	r.a = y
	x ^= x << 23
	r.b = x ^ y ^ (x >> 17) ^ (y >> 26)
	return r.b + y
}

// Intn returns a value in [0,n); n must be > 0.
func (r *Rand) Intn(n int) int {
	if n <= 0 {
		panic("core.Rand.Intn: n <= 0")
	}
	return int(r.Uint64() % uint64(n))
}

// Range returns a value in [lo,hi] inclusive.
func (r *Rand) Range(lo, hi int) int {
	if hi < lo {
		lo, hi = hi, lo
	}
	return lo + r.Intn(hi-lo+1)
}

func (r *Rand) Bool() bool { return r.Uint64()&1 == 1 }

// Chance is true with probability num/den.
func (r *Rand) Chance(num, den int) bool { return r.Intn(den) < num }

// Pick returns an index according to integer weights.
func (r *Rand) Pick(weights ...int) int {
	t := 0
	for _, w := range weights {
		t += w
	}
	x := r.Intn(t)
	for i, w := range weights {
		if x < w {
			return i
		}
		x -= w
	}
	return len(weights) - 1
}

// Perm returns a random permutation of 0..n-1.
func (r *Rand) Perm(n int) []int {
	p := make([]int, n)
	for i := range p {
		p[i] = i
	}
	for i := n - 1; i > 0; i-- {
		j := r.Intn(i + 1)
		p[i], p[j] = p[j], p[i]
	}
	return p
}

// Fork derives an independent generator.
func (r *Rand) Fork() *Rand { return NewRand(r.Uint64()) }
