package props

import (
	"fmt"
	"math"
	"sort"
	"strings"

	tmaps "gopkg.in/typ.v4/maps"
	"gopkg.in/typ.v4/sets"
	"gopkg.in/typ.v4/sync2"
	"verifharness/internal/core"
)

// C03 — set operations equal mathematical set algebra in both implementations.
// Model: map[T]bool per set object. A case builds A and B by a random
// construction history (which for the concurrent set decides its internal
// read/dirty/deleted layout), in one of the four implementation pairings, then
// applies every binary operation; after each call the result, A and B are
// re-read completely through the interface and compared with their models.

func init() { register("C03", runC03) }

type p8 struct{ A, B int8 }

// c03sweep: ALL call sequences of up to 6 calls starting with call `first` of an 8-call
// alphabet {Add 0, Remove 0, Has 0, Add 1, Remove 1, Has 1, Len+Slice, Clone and continue
// on the clone} on a fresh set of one implementation, against the membership model; at
// the end every set that was cloned from must still hold what it held.
func c03sweep(c *core.Ctx, impl string, first int) {
	const nOps = 8
	seqs := 0
	name := []string{"Add(0)", "Remove(0)", "Has(0)", "Add(1)", "Remove(1)", "Has(1)", "Len+Slice", "Clone+continue"}
	for L := 1; L <= 6; L++ {
		total := 1
		for i := 1; i < L; i++ {
			total *= nOps
		}
		for code := 0; code < total; code++ {
			var s sets.Set[int]
			if impl == "maps" {
				s = make(tmaps.Set[int])
			} else {
				s = new(sync2.Set[int])
			}
			model := map[int]bool{}
			type frozen struct {
				s sets.Set[int]
				m map[int]bool
			}
			var olds []frozen
			var hist []string
			fail := func(sig, msg string) {
				c.Violate("sweep:"+sig+"["+impl+"]", fmt.Sprintf("%s [exhaustive sweep on a fresh %s set, calls %v]", msg, impl, hist), map[string]any{"history": hist})
			}
			for x, k := code, 0; k < L; k++ {
				op := first
				if k > 0 {
					op = x % nOps
					x /= nOps
				}
				hist = append(hist, name[op])
				switch op {
				case 0, 3:
					v := op / 3
					if got := s.Add(v); got != !model[v] {
						fail("Add:return", fmt.Sprintf("Add(%d) returned %v, membership before was %v", v, got, model[v]))
						return
					}
					model[v] = true
				case 1, 4:
					v := op / 3
					if got := s.Remove(v); got != model[v] {
						fail("Remove:return", fmt.Sprintf("Remove(%d) returned %v, membership before was %v", v, got, model[v]))
						return
					}
					delete(model, v)
				case 2, 5:
					v := op / 3
					if got := s.Has(v); got != model[v] {
						fail("Has", fmt.Sprintf("Has(%d)=%v, model %v", v, got, model[v]))
						return
					}
				case 6:
					sl := s.Slice()
					sort.Ints(sl)
					want := []int{}
					for v := 0; v < 2; v++ {
						if model[v] {
							want = append(want, v)
						}
					}
					if s.Len() != len(model) || !eqSlice(sl, want) {
						fail("Len/Slice", fmt.Sprintf("Len()=%d Slice()=%v, members %v", s.Len(), sl, want))
						return
					}
				case 7:
					cp := map[int]bool{}
					for v := range model {
						cp[v] = true
					}
					olds = append(olds, frozen{s, cp})
					s = s.Clone()
				}
			}
			olds = append(olds, frozen{s, model})
			for _, o := range olds {
				n := 0
				ok := true
				o.s.Range(func(v int) bool {
					n++
					if !o.m[v] {
						ok = false
					}
					return true
				})
				if !ok || n != len(o.m) || o.s.Len() != len(o.m) || o.s.Has(0) != o.m[0] || o.s.Has(1) != o.m[1] {
					fail("final", fmt.Sprintf("a set that was cloned from (or the final set) has Len %d, Range visits %d, Has(0)=%v Has(1)=%v; members should be %v", o.s.Len(), n, o.s.Has(0), o.s.Has(1), o.m))
					return
				}
			}
			seqs++
		}
	}
	c.Count("exhaustive_sweep_sequences", int64(seqs))
	c.Count("exhaustive_sweeps_completed", 1)
	c.NonTrivial(core.Mix(3, uint64(first), core.HashString(impl)))
	if c.WantSample() {
		c.Sample(map[string]any{"systematic": true, "implementation": impl, "first_call": name[first], "sequences_enumerated": seqs})
	}
}

func runC03(c *core.Ctx) {
	if c.Index < 16 {
		c03sweep(c, []string{"maps", "sync2"}[c.Index/8], int(c.Index%8))
		return
	}
	if c.Index%100 == 17 {
		// big sets: hundreds of members (bulk constructors, long dirty maps)
		n := c.R.Range(300, 1500)
		u := make([]int, n)
		for i := range u {
			u[i] = i*3 + 1
		}
		setCase(c, "int-huge", u, func(a, b int) bool { return a < b }, func(v int) string { return fmt.Sprint(v) })
		return
	}
	if c.Index%50 == 27 {
		// sets of 90..300 members: room for streaks of 64..256 removals
		n := c.R.Range(90, 300)
		u := make([]int, n)
		for i := range u {
			u[i] = i*5 - 100
		}
		setCase(c, "int-large", u, func(a, b int) bool { return a < b }, func(v int) string { return fmt.Sprint(v) })
		return
	}
	if c.Index%20 == 18 {
		// float members: +0.0 and -0.0 are == and therefore ONE member
		u := []float64{0, math.Copysign(0, -1), 1.5, -1.5, math.Inf(1), 2}[:c.R.Range(2, 6)]
		setCaseFloat(c, u)
		return
	}
	if c.Index%20 == 19 {
		// interface-typed members of mixed dynamic types: 1, int64(1), "1", 1.0, true, nil
		// and a struct are seven different members
		u := []any{1, int64(1), "1", 1.0, true, nil, p8{1, 1}, uint8(1)}[:c.R.Range(2, 8)]
		key := func(v any) string { return fmt.Sprintf("%T:%v", v, v) }
		setCase(c, "any-mixed", u, func(a, b any) bool { return key(a) < key(b) }, nil)
		return
	}
	switch c.R.Intn(4) {
	case 3: // larger universes: bigger dirty maps, promotion thresholds, many deleted entries
		n := c.R.Range(12, 40)
		u := make([]int, n)
		for i := range u {
			u[i] = i * 7
		}
		setCase(c, "int-big", u, func(a, b int) bool { return a < b }, func(v int) string { return fmt.Sprint(v) })
	case 0:
		u := []int{0, 1, 2, 3, 4, 5, 6, 7}[:c.R.Range(1, 8)]
		setCase(c, "int", u, func(a, b int) bool { return a < b }, func(v int) string { return fmt.Sprint(v) })
	case 1:
		u := []string{"a", "b", "c", "dd", "e", "", "g", "h"}[:c.R.Range(1, 8)]
		setCase(c, "string", u, func(a, b string) bool { return a < b }, func(v string) string { return v })
	case 2:
		u := []p8{{0, 0}, {0, 1}, {1, 0}, {1, 1}, {-1, 2}, {2, -1}}[:c.R.Range(1, 6)]
		setCase(c, "struct", u, func(a, b p8) bool { return a.A < b.A || (a.A == b.A && a.B < b.B) }, nil)
	}
}

type setObj[T comparable] struct {
	s     sets.Set[T]
	m     map[T]bool
	impl  string // "maps" or "sync2"
	name  string
	layer *sync2.Set[T]
}

func setCase[T comparable](c *core.Ctx, tname string, univ []T, less func(a, b T) bool, tok func(T) string) {
	r := c.R
	var hist []string
	fail := func(sig, msg string) {
		c.Violate(sig, msg+fmt.Sprintf(" [type=%s after %d calls]", tname, len(hist)), map[string]any{"type": tname, "universe": fmt.Sprint(univ), "history": append([]string{}, hist...)})
	}
	sorted := func(m map[T]bool) []T {
		out := make([]T, 0, len(m))
		for k := range m {
			out = append(out, k)
		}
		sort.Slice(out, func(i, j int) bool { return less(out[i], out[j]) })
		return out
	}
	sortS := func(s []T) []T {
		out := append([]T(nil), s...)
		sort.Slice(out, func(i, j int) bool { return less(out[i], out[j]) })
		return out
	}
	// full read of a set through the interface
	// Full read of a set through the interface. The individual observations are
	// made in a RANDOM ORDER and, during construction, only a random subset of
	// them is made: observers of the concurrent set have side effects on its
	// layout (Slice/Range/Len/String promote the dirty map, Has records misses),
	// and a fixed order - e.g. always Slice before Len - heals exactly the
	// layouts in which a broken observer would show.
	checkSome := func(o *setObj[T], op string, subset bool) bool {
		c.Count("set_observations", 1)
		want := sorted(o.m)
		obs := []func() bool{
			func() bool { // Slice
				var got, raw []T
				if p, pv := core.Catch(func() { raw = o.s.Slice(); got = sortS(raw) }); p {
					fail(op+":Slice-panic", fmt.Sprintf("%s.Slice() after %s panicked: %v", o.name, op, pv))
					return false
				}
				if !eqSlice(got, want) {
					fail(op+":members["+o.impl+"]", fmt.Sprintf("after %s, %s (%s) holds %v, model %v", op, o.name, o.impl, got, want))
					return false
				}
				// the returned slice is the caller's: overwrite it; no later observation may notice
				if len(raw) > 0 && r.Bool() {
					for i := range raw {
						raw[i] = univ[0]
					}
					c.Count("returned_slice_overwritten", 1)
					if r.Bool() {
						if again := sortS(o.s.Slice()); !eqSlice(again, want) {
							fail(op+":Slice-after-overwrite["+o.impl+"]", fmt.Sprintf("after the caller overwrote the slice returned by %s.Slice(), the next Slice() gives %v, model %v", o.name, again, want))
							return false
						}
					}
				}
				return true
			},
			func() bool { // Len
				if n := o.s.Len(); n != len(want) {
					fail(op+":Len["+o.impl+"]", fmt.Sprintf("after %s, %s.Len()=%d model %d", op, o.name, n, len(want)))
					return false
				}
				return true
			},
			func() bool { // Has over the universe
				for _, v := range univ {
					if o.s.Has(v) != o.m[v] {
						fail(op+":Has["+o.impl+"]", fmt.Sprintf("after %s, %s.Has(%v)=%v model %v", op, o.name, v, o.s.Has(v), o.m[v]))
						return false
					}
				}
				return true
			},
			func() bool { // Range: every member exactly once
				seen := map[T]int{}
				// a quarter of these observations make nested read-only calls on the same set
				// from inside one callback (they may re-arrange the concurrent set's internal
				// layout - promotion, miss counting - but not what the outer Range visits)
				nestAt, visited, nestMsg := -1, 0, ""
				if len(want) > 0 && r.Chance(1, 4) {
					nestAt = r.Intn(len(want))
				}
				o.s.Range(func(v T) bool {
					if visited == nestAt {
						c.Count("nested_readonly_calls_in_range_callback", 1)
						switch r.Intn(4) {
						case 0:
							inner := 0
							o.s.Range(func(T) bool { inner++; return true })
							if inner != len(want) {
								nestMsg = fmt.Sprintf("nested Range made %d calls, the set has %d members", inner, len(want))
							}
						case 1:
							if n := o.s.Len(); n != len(want) || !o.s.Has(v) {
								nestMsg = fmt.Sprintf("nested Len()=%d Has(%v)=%v, the set has %d members", n, v, o.s.Has(v), len(want))
							}
						case 2:
							if got := sortS(o.s.Slice()); !eqSlice(got, want) {
								nestMsg = fmt.Sprintf("nested Slice() gives %v, members %v", got, want)
							}
						case 3:
							if cl := o.s.Clone(); cl.Len() != len(want) {
								nestMsg = fmt.Sprintf("nested Clone has %d members, the set has %d", cl.Len(), len(want))
							}
							for _, u := range univ[:min(len(univ), 6)] {
								_ = o.s.Has(u) // misses included
							}
						}
					}
					visited++
					seen[v]++
					return true
				})
				if nestMsg != "" {
					fail(op+":nested-read-in-Range["+o.impl+"]", fmt.Sprintf("after %s, inside a Range callback of %s: %s", op, o.name, nestMsg))
					return false
				}
				if len(seen) != len(want) {
					fail(op+":Range["+o.impl+"]", fmt.Sprintf("after %s, %s.Range visited %v, model %v", op, o.name, seen, want))
					return false
				}
				for _, v := range want {
					if seen[v] != 1 {
						fail(op+":Range["+o.impl+"]", fmt.Sprintf("after %s, %s.Range visited %v %d times", op, o.name, v, seen[v]))
						return false
					}
				}
				return true
			},
			func() bool { // Range early stop
				if n := len(want); n > 0 {
					stop := 1 + r.Intn(n)
					calls := 0
					o.s.Range(func(T) bool { calls++; return calls < stop })
					if calls != stop {
						fail(op+":Range-early-stop["+o.impl+"]", fmt.Sprintf("%s.Range: callback said stop at call %d of %d members, %d calls were made", o.name, stop, n, calls))
						return false
					}
				}
				return true
			},
			func() bool { // String
				if tok == nil {
					return true
				}
				s := o.s.String()
				if len(s) < 2 || s[0] != '{' || s[len(s)-1] != '}' {
					fail(op+":String["+o.impl+"]", fmt.Sprintf("%s.String()=%q", o.name, s))
					return false
				}
				// exactly the members, each once, separated by single blanks (a member may
				// print as the empty string)
				toks := strings.Split(s[1:len(s)-1], " ")
				if len(want) == 0 && len(s) == 2 {
					toks = nil
				}
				sort.Strings(toks)
				var wt []string
				for _, v := range want {
					wt = append(wt, tok(v))
				}
				sort.Strings(wt)
				if !eqSlice(toks, wt) {
					fail(op+":String["+o.impl+"]", fmt.Sprintf("%s.String()=%q, members %v", o.name, s, want))
					return false
				}
				return true
			},
		}
		order := r.Perm(len(obs))
		if subset {
			order = order[:r.Range(0, len(obs))]
		}
		for _, k := range order {
			if !obs[k]() {
				return false
			}
		}
		return true
	}
	check := func(o *setObj[T], op string) bool { return checkSome(o, op, false) }
	newEmpty := func(impl, name string) *setObj[T] {
		o := &setObj[T]{m: map[T]bool{}, impl: impl, name: name}
		if impl == "maps" {
			o.s = make(tmaps.Set[T])
		} else {
			o.layer = new(sync2.Set[T])
			o.s = o.layer
		}
		return o
	}
	// construct a set by a random history
	build := func(impl, name string) *setObj[T] {
		o := newEmpty(impl, name)
		var postChecks []func() bool
		// constructors with duplicates
		switch r.Intn(5) {
		case 0:
			k := r.Intn(10)
			if len(univ) > 100 {
				k = r.Range(len(univ)/2, 2*len(univ))
			}
			sl := make([]T, k)
			for i := range sl {
				sl[i] = univ[r.Intn(len(univ))]
				o.m[sl[i]] = true
			}
			hist = append(hist, fmt.Sprintf("%s=%s.NewSetFromSlice(%v)", name, impl, sl))
			if impl == "maps" {
				o.s = tmaps.NewSetFromSlice(sl)
			} else {
				o.s = sync2.NewSetFromSlice(sl)
			}
			c.Count("ctor_from_slice", 1)
		case 1:
			mm := map[T]int{}
			ms := map[T]struct{}{}
			mv := map[int]T{}
			for i := 0; i < r.Intn(8); i++ {
				v := univ[r.Intn(len(univ))]
				mm[v] = i
				ms[v] = struct{}{}
				mv[i] = v
				o.m[v] = true
			}
			// afterwards the source map is modified (the set must not notice), and at the
			// end of the construction history the source map must still be what the caller
			// made of it (the set's own mutations must not reach it)
			disturb := func(del func(T), add func(T), keys func() []T) {
				want := map[T]bool{}
				for k := range o.m {
					want[k] = true
				}
				for i := 0; i < r.Intn(4); i++ {
					v := univ[r.Intn(len(univ))]
					if r.Bool() {
						del(v)
						delete(want, v)
					} else {
						add(v)
						want[v] = true
					}
				}
				c.Count("ctor_source_modified_afterwards", 1)
				postChecks = append(postChecks, func() bool {
					if got := sortS(keys()); !eqSlice(got, sorted(want)) {
						fail("constructor:source-map-changed["+impl+"]", fmt.Sprintf("the map handed to the constructor of %s now has keys %v; the caller left it with %v (the set's mutations reached it)", name, got, sorted(want)))
						return false
					}
					return true
				})
			}
			switch r.Intn(4) {
			case 0:
				hist = append(hist, fmt.Sprintf("%s=%s.NewSetFromKeys(%v)", name, impl, mm))
				if impl == "maps" {
					o.s = tmaps.NewSetFromKeys(mm)
				} else {
					o.s = sync2.NewSetFromKeys(mm)
				}
				disturb(func(v T) { delete(mm, v) }, func(v T) { mm[v] = 1 }, func() []T {
					var ks []T
					for k := range mm {
						ks = append(ks, k)
					}
					return ks
				})
				c.Count("ctor_from_keys", 1)
			case 1:
				// V = struct{}: the argument already has the representation of a map-backed set
				if len(ms) == 0 && r.Bool() {
					ms = nil
				}
				hist = append(hist, fmt.Sprintf("%s=%s.NewSetFromKeys(map[T]struct{}%v nil=%v)", name, impl, sorted(o.m), ms == nil))
				if impl == "maps" {
					o.s = tmaps.NewSetFromKeys(ms)
				} else {
					o.s = sync2.NewSetFromKeys(ms)
				}
				if ms != nil {
					disturb(func(v T) { delete(ms, v) }, func(v T) { ms[v] = struct{}{} }, func() []T {
						var ks []T
						for k := range ms {
							ks = append(ks, k)
						}
						return ks
					})
				}
				c.Count("ctor_from_keys_struct{}", 1)
			default:
				hist = append(hist, fmt.Sprintf("%s=%s.NewSetFromValues(%v)", name, impl, mv))
				if impl == "maps" {
					o.s = tmaps.NewSetFromValues(mv)
				} else {
					o.s = sync2.NewSetFromValues(mv)
				}
				for i := 0; i < r.Intn(3); i++ {
					mv[r.Intn(8)] = univ[r.Intn(len(univ))]
				}
				c.Count("ctor_from_values", 1)
			}
		default:
			hist = append(hist, fmt.Sprintf("%s=zero %s set", name, impl))
		}
		if !check(o, "constructor") {
			return nil
		}
		nmax := 40 + 3*len(univ)
		if nmax > 160 {
			nmax = 160
		}
		n := r.Intn(nmax)
		for i := 0; i < n; i++ {
			v := univ[r.Intn(len(univ))]
			switch r.Pick(10, 8, 6, 3, 2) {
			case 0:
				hist = append(hist, fmt.Sprintf("%s.Add(%v)", name, v))
				got := o.s.Add(v)
				if got != !o.m[v] {
					fail("Add:return["+impl+"]", fmt.Sprintf("%s.Add(%v) returned %v, membership before was %v", name, v, got, o.m[v]))
					return nil
				}
				o.m[v] = true
				c.Count("add", 1)
			case 1:
				hist = append(hist, fmt.Sprintf("%s.Remove(%v)", name, v))
				got := o.s.Remove(v)
				if got != o.m[v] {
					fail("Remove:return["+impl+"]", fmt.Sprintf("%s.Remove(%v) returned %v, membership before was %v", name, v, got, o.m[v]))
					return nil
				}
				delete(o.m, v)
				c.Count("remove", 1)
			case 2:
				// Has, biased to absent values: drives misses (and promotion) in the concurrent set
				hist = append(hist, fmt.Sprintf("%s.Has(%v)", name, v))
				if o.s.Has(v) != o.m[v] {
					fail("Has:wrong["+impl+"]", fmt.Sprintf("%s.Has(%v)=%v model %v", name, v, o.s.Has(v), o.m[v]))
					return nil
				}
				c.Count("has", 1)
			case 3:
				hist = append(hist, fmt.Sprintf("%s.Len/Slice", name))
				if o.s.Len() != len(o.m) || len(o.s.Slice()) != len(o.m) {
					fail("Len:wrong["+impl+"]", fmt.Sprintf("%s.Len()=%d model %d", name, o.s.Len(), len(o.m)))
					return nil
				}
			case 4:
				hist = append(hist, fmt.Sprintf("%s=%s.Clone()", name, name))
				old := o.s
				oldm := map[T]bool{}
				for k := range o.m {
					oldm[k] = true
				}
				o.s = old.Clone()
				if ss, ok := o.s.(*sync2.Set[T]); ok {
					o.layer = ss
				}
				// the clone replaces the original; the original must stay intact and independent
				w := univ[r.Intn(len(univ))]
				o.s.Add(w)
				o.m[w] = true
				oo := &setObj[T]{s: old, m: oldm, impl: impl, name: name + "(pre-clone)"}
				if !check(oo, "Clone") {
					return nil
				}
				c.Count("clone", 1)
			}
			if !checkSome(o, "construction-step", true) {
				return nil
			}
		}
		// peak and drain: every member removed one by one (not Clear), then the set is
		// used again
		if len(o.m) > 0 && r.Chance(1, 10) {
			peak := len(o.m)
			for _, v := range sorted(o.m) {
				if !o.s.Remove(v) {
					hist = append(hist, fmt.Sprintf("drain: %s.Remove(%v)", name, v))
					fail("Remove:return["+impl+"]", fmt.Sprintf("draining %s (%d members): Remove(%v) of a member returned false", name, peak, v))
					return nil
				}
				delete(o.m, v)
				if r.Chance(1, 8) && !checkSome(o, "drain", true) {
					return nil
				}
			}
			hist = append(hist, fmt.Sprintf("%s drained by %d Remove calls", name, peak))
			if !check(o, "drain") {
				return nil
			}
			for i := 0; i < r.Intn(6); i++ {
				v := univ[r.Intn(len(univ))]
				hist = append(hist, fmt.Sprintf("%s.Add(%v)", name, v))
				if got := o.s.Add(v); got != !o.m[v] {
					fail("Add:return["+impl+"]", fmt.Sprintf("%s.Add(%v) after the drain returned %v, membership before was %v", name, v, got, o.m[v]))
					return nil
				}
				o.m[v] = true
			}
			if !check(o, "refill") {
				return nil
			}
			c.Count("sets_drained_by_remove_then_reused", 1)
		}
		// every observer, then exactly 256 (sometimes 65536) successful changes with no
		// observation in between, then every observer again: nothing an observer remembers
		// may survive a number of changes that a small counter cannot tell from zero
		if r.Chance(1, 12) {
			if !check(o, "before-storm") {
				return nil
			}
			m := 256
			if r.Chance(1, 8) {
				m = 65536
			}
			v := univ[r.Intn(len(univ))]
			had := o.m[v]
			for i := 0; i < m; i++ { // m successful changes of v's membership
				if o.m[v] {
					o.s.Remove(v)
					delete(o.m, v)
				} else {
					o.s.Add(v)
					o.m[v] = true
				}
			}
			w := univ[r.Intn(len(univ))] // one more change so that the contents differ from before
			if o.m[w] {
				o.s.Remove(w)
				delete(o.m, w)
			} else {
				o.s.Add(w)
				o.m[w] = true
			}
			_ = had
			hist = append(hist, fmt.Sprintf("%s: %d successful Add/Remove(%v) without an observation, then one change of %v", name, m, v, w))
			if !check(o, "storm") {
				return nil
			}
			c.Count("counted_change_storms", 1)
		}
		// every observer, then ONE new member, then exactly K successful Removes of K other
		// members with no observation in between (K around 64, 128, 256), then every observer:
		// whatever tidies up after so many removals must not lose the member that came last
		if len(o.m) > 70 && len(o.m) < len(univ) && r.Chance(3, 4) {
			if !check(o, "before-removal-streak") {
				return nil
			}
			ks := []int{63, 64, 65, 66, 127, 128, 129, 255, 256, 257}
			k := ks[r.Intn(len(ks))]
			for k >= len(o.m) {
				k = ks[r.Intn(4)]
			}
			var w T
			for _, x := range univ {
				if !o.m[x] {
					w = x
					break
				}
			}
			o.s.Add(w)
			o.m[w] = true
			done := 0
			for _, x := range univ {
				if done == k {
					break
				}
				if o.m[x] && x != w {
					if !o.s.Remove(x) {
						fail("Remove:return["+impl+"]", fmt.Sprintf("%s.Remove(%v) of a member returned false (removal %d of a streak)", name, x, done+1))
						return nil
					}
					delete(o.m, x)
					done++
				}
			}
			hist = append(hist, fmt.Sprintf("%s: Add(%v) of a new member, then %d successful Removes of other members without an observation", name, w, k))
			if !check(o, "removal-streak") {
				return nil
			}
			c.Count("counted_removal_streaks_after_a_new_member", 1)
		}
		for _, pc := range postChecks {
			if !pc() {
				return nil
			}
		}
		if o.layer != nil {
			noteLayout(c, o.layer)
		}
		return o
	}
	implA := []string{"maps", "sync2"}[r.Intn(2)]
	implB := []string{"maps", "sync2"}[r.Intn(2)]
	pairing := implA + "/" + implB
	A := build(implA, "A")
	if A == nil {
		return
	}
	B := build(implB, "B")
	if B == nil {
		return
	}
	c.Count("pairing_"+pairing, 1)
	// the zero value of the map-backed set (a nil map) as RECEIVER of the read-only and
	// binary operations: it is the empty set
	if r.Chance(1, 8) {
		var z tmaps.Set[T]
		wantB := sorted(B.m)
		if p, pv := core.Catch(func() {
			if z.Len() != 0 || len(z.Slice()) != 0 || z.Has(univ[0]) {
				panic("nil set is not empty")
			}
			if u := sortS(z.Union(B.s).Slice()); !eqSlice(u, wantB) {
				panic(fmt.Sprintf("nil.Union(B)=%v want %v", u, wantB))
			}
			if u := sortS(z.SymDiff(B.s).Slice()); !eqSlice(u, wantB) {
				panic(fmt.Sprintf("nil.SymDiff(B)=%v want %v", u, wantB))
			}
			if z.Intersect(B.s).Len() != 0 || z.SetDiff(B.s).Len() != 0 {
				panic("nil.Intersect(B) / nil.SetDiff(B) not empty")
			}
			cl := z.Clone()
			if !cl.Add(univ[0]) || !cl.Has(univ[0]) || cl.Len() != 1 {
				panic("the clone of the nil set cannot take a member")
			}
			if z != nil || z.Len() != 0 {
				panic("the nil receiver was modified")
			}
		}); p {
			fail("nil-map-set-receiver", fmt.Sprintf("the zero value of maps.Set as receiver: %v", pv))
			return
		}
		if !check(B, "nil-set-receiver") {
			return
		}
		c.Count("nil_map_set_receiver_checks", 1)
	}
	selfArg := r.Chance(1, 10)
	model := func(op string, a, b map[T]bool) map[T]bool {
		out := map[T]bool{}
		switch op {
		case "Union":
			for k := range a {
				out[k] = true
			}
			for k := range b {
				out[k] = true
			}
		case "Intersect":
			for k := range a {
				if b[k] {
					out[k] = true
				}
			}
		case "SetDiff":
			for k := range a {
				if !b[k] {
					out[k] = true
				}
			}
		case "SymDiff":
			for k := range a {
				if !b[k] {
					out[k] = true
				}
			}
			for k := range b {
				if !a[k] {
					out[k] = true
				}
			}
		}
		return out
	}
	ops := []string{"Union", "Intersect", "SetDiff", "SymDiff"}
	for _, k := range r.Perm(4) {
		op := ops[k]
		for dir := 0; dir < 2; dir++ {
			X, Y := A, B
			if dir == 1 {
				X, Y = B, A
			}
			if selfArg {
				Y = X
			}
			hist = append(hist, fmt.Sprintf("%s.%s(%s)", X.name, op, Y.name))
			var res sets.Set[T]
			if p, pv := core.Catch(func() {
				switch op {
				case "Union":
					res = X.s.Union(Y.s)
				case "Intersect":
					res = X.s.Intersect(Y.s)
				case "SetDiff":
					res = X.s.SetDiff(Y.s)
				case "SymDiff":
					res = X.s.SymDiff(Y.s)
				}
			}); p {
				fail(op+":panic["+X.impl+"/"+Y.impl+"]", fmt.Sprintf("%s panicked: %v", hist[len(hist)-1], pv))
				return
			}
			R := &setObj[T]{s: res, m: model(op, X.m, Y.m), impl: X.impl, name: "result"}
			tag := op + "[" + X.impl + "/" + Y.impl + "]"
			c.Count("binary_"+tag, 1)
			if !check(R, tag) || !check(A, tag+":operand") || !check(B, tag+":operand") {
				return
			}
			// detachment: mutate the result, operands must not move; mutate an operand, result must not move
			v := univ[r.Intn(len(univ))]
			if R.s.Add(v) {
				R.m[v] = true
			}
			w := univ[r.Intn(len(univ))]
			if R.s.Remove(w) {
				delete(R.m, w)
			}
			if !check(A, tag+":result-shares-state") || !check(B, tag+":result-shares-state") || !check(R, tag+":result-after-mutation") {
				return
			}
			x := univ[r.Intn(len(univ))]
			if r.Bool() {
				X.s.Add(x)
				X.m[x] = true
			} else {
				X.s.Remove(x)
				delete(X.m, x)
			}
			if !check(R, tag+":result-follows-operand") {
				return
			}
		}
	}
	// AddSet / RemoveSet counts
	for k := 0; k < 2; k++ {
		X, Y := A, B
		if r.Bool() {
			X, Y = B, A
		}
		if r.Bool() {
			gained := 0
			for v := range Y.m {
				if !X.m[v] {
					gained++
				}
			}
			hist = append(hist, fmt.Sprintf("%s.AddSet(%s)", X.name, Y.name))
			got := X.s.AddSet(Y.s)
			for v := range Y.m {
				X.m[v] = true
			}
			if got != gained {
				fail("AddSet:count["+X.impl+"/"+Y.impl+"]", fmt.Sprintf("AddSet returned %d, %d members were gained", got, gained))
				return
			}
			c.Count("addset", 1)
		} else {
			lost := 0
			for v := range Y.m {
				if X.m[v] {
					lost++
				}
			}
			hist = append(hist, fmt.Sprintf("%s.RemoveSet(%s)", X.name, Y.name))
			got := X.s.RemoveSet(Y.s)
			for v := range Y.m {
				delete(X.m, v)
			}
			if got != lost {
				fail("RemoveSet:count["+X.impl+"/"+Y.impl+"]", fmt.Sprintf("RemoveSet returned %d, %d members were lost", got, lost))
				return
			}
			c.Count("removeset", 1)
		}
		if !check(A, "AddSet/RemoveSet") || !check(B, "AddSet/RemoveSet") {
			return
		}
	}
	// CartesianProduct: exactly |A|*|B| distinct pairs, each in A x B
	{
		hist = append(hist, "CartesianProduct(A,B)")
		ps := sets.CartesianProduct(A.s, B.s)
		if len(ps) != len(A.m)*len(B.m) {
			fail("CartesianProduct:count["+pairing+"]", fmt.Sprintf("CartesianProduct returned %d pairs, |A|*|B| = %d", len(ps), len(A.m)*len(B.m)))
			return
		}
		seen := map[sets.Product[T, T]]bool{}
		for _, p := range ps {
			if !A.m[p.A] || !B.m[p.B] || seen[p] {
				fail("CartesianProduct:pairs["+pairing+"]", fmt.Sprintf("pair %v is duplicated or not in A x B", p))
				return
			}
			seen[p] = true
		}
		c.Count("cartesian", 1)
		if !check(A, "CartesianProduct") || !check(B, "CartesianProduct") {
			return
		}
	}
	if len(A.m)+len(B.m) > 0 {
		c.NonTrivial(core.Mix(3, core.HashString(strings.Join(hist, ";"))))
	}
	if c.WantSample() {
		h := hist
		if len(h) > 30 {
			h = h[:30]
		}
		c.Sample(map[string]any{"type": tname, "pairing": pairing, "calls": len(hist), "history_prefix": h})
	}
}

// setCaseFloat: both implementations over float64 members including both zeros; the
// model identifies +0.0 and -0.0 (they are ==).
func setCaseFloat(c *core.Ctx, u []float64) {
	r := c.R
	for _, impl := range []string{"maps", "sync2"} {
		var s sets.Set[float64]
		if impl == "maps" {
			s = make(tmaps.Set[float64])
		} else {
			s = new(sync2.Set[float64])
		}
		model := map[float64]bool{} // Go map keys: +0.0 and -0.0 are one key
		var hist []string
		for i := 0; i < 60; i++ {
			v := u[r.Intn(len(u))]
			switch r.Intn(4) {
			case 0, 1:
				hist = append(hist, fmt.Sprintf("Add(%v)", v))
				if got := s.Add(v); got != !model[v] {
					c.Violate("Add:return["+impl+"][float members]", fmt.Sprintf("Add(%v) returned %v, membership before was %v (+0.0 and -0.0 are one member) [%v]", v, got, model[v], hist), nil)
					return
				}
				model[v] = true
			case 2:
				hist = append(hist, fmt.Sprintf("Remove(%v)", v))
				if got := s.Remove(v); got != model[v] {
					c.Violate("Remove:return["+impl+"][float members]", fmt.Sprintf("Remove(%v) returned %v, membership before was %v [%v]", v, got, model[v], hist), nil)
					return
				}
				delete(model, v)
			case 3:
				if s.Has(v) != model[v] || s.Has(-v) != model[-v] || s.Len() != len(model) || len(s.Slice()) != len(model) {
					c.Violate("Has/Len["+impl+"][float members]", fmt.Sprintf("Has(%v)=%v Has(%v)=%v Len=%d, model %v [%v]", v, s.Has(v), -v, s.Has(-v), s.Len(), model, hist), nil)
					return
				}
			}
		}
		o := tmaps.NewSetFromSlice([]float64{math.Copysign(0, -1), 9})
		if u := s.Union(o); u.Len() != len(model)+func() int {
			n := 0
			if !model[0] {
				n++
			}
			if !model[9] {
				n++
			}
			return n
		}() {
			c.Violate("Union["+impl+"][float members]", fmt.Sprintf("Union with {-0.0, 9} has %d members; the receiver has %v", u.Len(), model), nil)
			return
		}
	}
	c.Count("float_member_cases", 1)
	c.NonTrivial(core.Mix(c.Seed, 303))
}
