package props

import (
	"fmt"
	"sort"
	"sync"

	"gopkg.in/typ.v4/arrays"
	"gopkg.in/typ.v4/avl"
	"gopkg.in/typ.v4/lists"
	tmaps "gopkg.in/typ.v4/maps"
	"gopkg.in/typ.v4/slices"
	"verifharness/internal/core"
)

// Mode "readers" of the sequential containers (race build): ONE object is built
// sequentially and then only READ by several goroutines at the same time - lookups,
// traversals, String, Len. Like a Go map or slice, a container that nobody modifies may
// be read concurrently; a read path that writes (a lookup memo, a cached length, a
// shared cursor) is a data race and usually a wrong answer as well.

var readersFns = map[string]func(*core.Ctx){
	"C01": c01readers, "C06": c06readers, "C07": c07readers, "C08": c08readers, "C11": c11readers, "C16": c16readers,
}

// readersRun starts g goroutines running read(g, rr) and reports the first complaint.
func readersRun(c *core.Ctx, what string, read func(g int, rr *core.Rand) string) {
	r := c.R
	ng := r.Range(2, 8)
	bad := make([]string, ng)
	var wg sync.WaitGroup
	start := make(chan struct{})
	for g := 0; g < ng; g++ {
		g, seed := g, r.Uint64()
		wg.Add(1)
		go func() {
			defer wg.Done()
			rr := core.NewRand(seed)
			<-start
			for it := 0; it < 40 && bad[g] == ""; it++ {
				bad[g] = read(g, rr)
			}
		}()
	}
	close(start)
	wg.Wait()
	c.Count("reader_rounds", 1)
	c.Count("reader_goroutines", int64(ng))
	for g, b := range bad {
		if b != "" {
			c.Violate("readers:"+what, fmt.Sprintf("goroutine %d of %d that only READ one shared, unmodified %s: %s", g, ng, what, b), nil)
			return
		}
	}
	c.NonTrivial(core.Mix(c.Seed, uint64(ng)))
}

func c11readers(c *core.Ctx) {
	r := c.R
	var b tmaps.Bimap[int, string]
	n := r.Range(2, 60)
	fw := map[int]string{}
	for i := 0; i < n; i++ {
		k, v := r.Intn(n), fmt.Sprint("v", r.Intn(n))
		if ov, ok := fw[k]; ok {
			_ = ov
		}
		b.Add(k, v)
	}
	b.Range(func(k int, v string) bool { fw[k] = v; return true })
	rv := map[string]int{}
	for k, v := range fw {
		rv[v] = k
	}
	readersRun(c, "Bimap", func(g int, rr *core.Rand) string {
		k := rr.Intn(n + 2)
		v, ok := b.GetForward(k)
		if wv, wok := fw[k]; ok != wok || v != wv || b.ContainsForward(k) != wok {
			return fmt.Sprintf("GetForward(%d)=(%q,%v), the Bimap holds (%q,%v)", k, v, ok, wv, wok)
		}
		val := fmt.Sprint("v", rr.Intn(n+2))
		kk, ok := b.GetReverse(val)
		if wk, wok := rv[val]; ok != wok || kk != wk || b.ContainsReverse(val) != wok {
			return fmt.Sprintf("GetReverse(%q)=(%d,%v), the Bimap holds (%d,%v)", val, kk, ok, wk, wok)
		}
		if b.Len() != len(fw) {
			return fmt.Sprintf("Len()=%d, the Bimap holds %d pairs", b.Len(), len(fw))
		}
		cnt := 0
		b.Range(func(k int, v string) bool { cnt++; return fw[k] == v })
		if cnt != len(fw) {
			return fmt.Sprintf("Range visited %d of %d pairs", cnt, len(fw))
		}
		return ""
	})
}

func c01readers(c *core.Ctx) {
	r := c.R
	t := avl.New(cmpInt)
	n := r.Range(1, 200)
	var model []int
	for i := 0; i < n; i++ {
		v := r.Intn(n)
		t.Add(v)
		model = append(model, v)
	}
	sort.Ints(model)
	has := map[int]bool{}
	for _, v := range model {
		has[v] = true
	}
	pre, post := t.SlicePreOrder(), t.SlicePostOrder()
	readersRun(c, "avl.Tree", func(g int, rr *core.Rand) string {
		v := rr.Intn(n + 3)
		if t.Contains(v) != has[v] {
			return fmt.Sprintf("Contains(%d)=%v, expected %v", v, t.Contains(v), has[v])
		}
		switch rr.Intn(4) {
		case 0:
			if !eqSlice(t.SliceInOrder(), model) || t.Len() != len(model) {
				return "SliceInOrder/Len differ from the contents"
			}
		case 1:
			var got []int
			t.WalkPreOrder(func(v int) { got = append(got, v) })
			if !eqSlice(got, pre) || !eqSlice(t.SlicePreOrder(), pre) {
				return "the pre-order walk differs from the one taken before the readers started"
			}
		case 2:
			if !eqSlice(t.SlicePostOrder(), post) || t.String() != fmt.Sprint(model) {
				return "SlicePostOrder/String differ from the ones taken before the readers started"
			}
		case 3:
			cl := t.Clone()
			if !eqSlice(cl.SliceInOrder(), model) {
				return "a Clone taken by a reader does not hold the contents"
			}
		}
		return ""
	})
}

func c07readers(c *core.Ctx) {
	r := c.R
	n := r.Range(1, 300)
	in := make([]int, n)
	for i := range in {
		in[i] = r.Intn(n/2 + 1)
	}
	s := slices.NewSortedOrdered(in...)
	model := append([]int(nil), in...)
	sort.Ints(model)
	readersRun(c, "slices.Sorted", func(g int, rr *core.Rand) string {
		v := rr.Intn(n/2 + 3)
		want := sort.SearchInts(model, v)
		if want == len(model) || model[want] != v {
			want = -1
		}
		if got := s.Index(v); got != want || s.Contains(v) != (want >= 0) {
			return fmt.Sprintf("Index(%d)=%d Contains=%v, the first position is %d", v, got, s.Contains(v), want)
		}
		i := rr.Intn(n)
		if s.Get(i) != model[i] || s.Len() != n {
			return fmt.Sprintf("Get(%d)=%d Len=%d, the contents are %d / %d", i, s.Get(i), s.Len(), model[i], n)
		}
		if rr.Chance(1, 8) && s.String() != fmt.Sprint(model) {
			return "String() differs from the contents"
		}
		return ""
	})
}

func c08readers(c *core.Ctx) {
	if c.Index%2 == 1 {
		c08writers(c)
		c.NonTrivial(core.Mix(c.Seed, 808))
		return
	}
	r := c.R
	w, h := r.Range(1, 12), r.Range(1, 12)
	a := arrays.New2D[int](w, h)
	for y := 0; y < h; y++ {
		for x := 0; x < w; x++ {
			a.Set(x, y, 100*y+x)
		}
	}
	str := a.String()
	readersRun(c, "Array2D", func(g int, rr *core.Rand) string {
		x, y := rr.Intn(w), rr.Intn(h)
		if a.Get(x, y) != 100*y+x {
			return fmt.Sprintf("Get(%d,%d)=%d", x, y, a.Get(x, y))
		}
		row := a.Row(y)
		sp := a.RowSpan(0, x, y)
		if len(row) != w || row[x] != 100*y+x || len(sp) != x+1 || sp[x] != 100*y+x {
			return "Row/RowSpan show other cells"
		}
		if rr.Chance(1, 6) {
			if got := a.String(); got != str {
				return "String() differs from the one taken before the readers started"
			}
			cl := a.Clone()
			if cl.Get(x, y) != 100*y+x {
				return "a Clone taken by a reader holds other cells"
			}
		}
		return ""
	})
}

// c08writers (second half of C08's readers mode): goroutines that WRITE, each to a band of
// rows entirely its own (Set, Fill, writes through Row) - cells are independent, so like
// the elements of a slice they may be written concurrently when nobody shares a cell.
func c08writers(c *core.Ctx) {
	r := c.R
	ng := r.Range(2, 6)
	w, band := r.Range(1, 40), r.Range(1, 6)
	if r.Chance(1, 4) {
		w = r.Range(2000, 9000) // long rows: wide copies in flight at the same time
	}
	h := ng * band
	a := arrays.New2D[int](w, h)
	var wg sync.WaitGroup
	start := make(chan struct{})
	for g := 0; g < ng; g++ {
		g, seed := g, r.Uint64()
		wg.Add(1)
		go func() {
			defer wg.Done()
			rr := core.NewRand(seed)
			y0 := g * band
			<-start
			for it := 0; it < 30; it++ {
				v := (g+1)*1000 + it
				switch rr.Intn(3) {
				case 0:
					a.Fill(0, y0, w-1, y0+band-1, v)
				case 1:
					a.Fill(rr.Intn(w), y0+rr.Intn(band), rr.Intn(w), y0+rr.Intn(band), v)
				case 2:
					a.Set(rr.Intn(w), y0+rr.Intn(band), v)
					a.Row(y0 + rr.Intn(band))[rr.Intn(w)] = v
				}
			}
			a.Fill(0, y0, w-1, y0+band-1, (g+1)*1000)
		}()
	}
	close(start)
	wg.Wait()
	for y := 0; y < h; y++ {
		for x := 0; x < w; x++ {
			if got, want := a.Get(x, y), (y/band+1)*1000; got != want {
				c.Violate("writers:Array2D", fmt.Sprintf("%d goroutines wrote (Fill/Set/Row) to bands of rows entirely their own of one %dx%d array; after each filled its band with its own value, cell (%d,%d) holds %d instead of %d", ng, w, h, x, y, got, want), nil)
				return
			}
		}
	}
	c.Count("writer_rounds_on_disjoint_rows", 1)
}

func c06readers(c *core.Ctx) {
	r := c.R
	n := r.Range(1, 100)
	l := lists.New[int]()
	var es []*lists.Element[int]
	for i := 0; i < n; i++ {
		es = append(es, l.PushBack(i))
	}
	rg := lists.NewRing[int](n)
	for i := 0; i < n; i++ {
		rg.Value = i
		rg = rg.Next()
	}
	readersRun(c, "List and Ring", func(g int, rr *core.Rand) string {
		i := rr.Intn(n)
		e := es[i]
		if e.Value != i || (i+1 < n && e.Next() != es[i+1]) || (i > 0 && e.Prev() != es[i-1]) || l.Len() != n || l.Front() != es[0] || l.Back() != es[n-1] {
			return fmt.Sprintf("element %d of the list has other neighbours or the list another Len/Front/Back", i)
		}
		cnt := 0
		for x := l.Front(); x != nil; x = x.Next() {
			if x.Value != cnt {
				return "forward traversal out of order"
			}
			cnt++
		}
		if cnt != n || rg.Len() != n || rg.Move(i).Value != i || rg.Move(-i).Value != (n-i)%n {
			return fmt.Sprintf("traversal visits %d of %d elements, or Ring.Len/Move are wrong", cnt, n)
		}
		sum := 0
		rg.Do(func(v int) { sum += v })
		if sum != n*(n-1)/2 {
			return "Ring.Do visits other values"
		}
		return ""
	})
}

func c16readers(c *core.Ctx) {
	r := c.R
	var q lists.Queue[int]
	var st lists.Stack[int]
	n := r.Range(1, 100)
	for i := 0; i < n; i++ {
		q.Enqueue(i)
		st.Push(i)
	}
	readersRun(c, "Queue and Stack", func(g int, rr *core.Rand) string {
		if v, ok := q.Peek(); !ok || v != 0 || q.Len() != n {
			return fmt.Sprintf("Queue.Peek()=(%d,%v) Len=%d, expected (0,true) and %d", v, ok, q.Len(), n)
		}
		if v, ok := st.Peek(); !ok || v != n-1 || len(st) != n {
			return fmt.Sprintf("Stack.Peek()=(%d,%v) len=%d, expected (%d,true) and %d", v, ok, len(st), n-1, n)
		}
		return ""
	})
}
