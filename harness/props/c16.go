package props

import (
	"fmt"
	"runtime"

	"gopkg.in/typ.v4/lists"
	"verifharness/internal/core"
)

// C16 — Queue is FIFO and Stack is LIFO. Lock-step monitor against slice
// models from the zero value; the op mix is biased to drain to empty and refill.

func init() { register("C16", runC16) }

// c16marathon: more than 2^32 values pass through one container whose length stays
// between 1 and 65: 32-bit positions or counters of a re-implemented backing store
// wrap here. The model is two counters (values are consecutive numbers).
func c16marathon(c *core.Ctx) {
	total := uint64(1)<<32 + 1<<22
	if p := c.Param["marathon_values"]; p != "" {
		fmt.Sscan(p, &total)
	}
	var in, out uint64
	rnd := uint64(c.Seed) | 1
	next := func() int { // 1..64
		rnd ^= rnd << 13
		rnd ^= rnd >> 7
		rnd ^= rnd << 17
		return int(rnd&63) + 1
	}
	if c.Index == 0 {
		var q lists.Queue[uint64]
		q.Enqueue(in)
		in++
		for checks := uint64(0); in < total; checks++ {
			burst := next()
			for b := 0; b < burst; b++ {
				q.Enqueue(in)
				in++
			}
			// Len at every peak: a wrapped position shows only while the tail has wrapped
			// and the head has not
			if n := q.Len(); n != int(in-out) {
				c.Violate("marathon:Len", fmt.Sprintf("after %d values had passed through one queue: Len()=%d with %d values inside", in, n, in-out), nil)
				return
			}
			for b := 0; b < burst; b++ {
				v, ok := q.Dequeue()
				if !ok || v != out {
					c.Violate("marathon:Dequeue:order", fmt.Sprintf("after %d values had passed through one queue (length never above 65): Dequeue returned (%d,%v), FIFO order gives %d", in, v, ok, out), nil)
					return
				}
				out++
			}
			if checks&0xffff == 0 {
				if v, ok := q.Peek(); q.Len() != int(in-out) || !ok || v != out {
					c.Violate("marathon:Len/Peek", fmt.Sprintf("after %d values had passed through one queue: Len()=%d (model %d), Peek()=(%d,%v) want %d", in, q.Len(), in-out, v, ok, out), nil)
					return
				}
			}
		}
		c.Count("marathon_values_through_one_queue", int64(in))
	} else {
		var st lists.Stack[uint32]
		// the stack keeps a resident bottom value; bursts are pushed and popped above it
		st.Push(0xdeadbeef)
		for checks := uint64(0); in < total; checks++ {
			burst := next()
			base := uint32(in)
			for b := 0; b < burst; b++ {
				st.Push(base + uint32(b))
				in++
			}
			if len(st) != burst+1 {
				c.Violate("marathon:Len", fmt.Sprintf("after %d values had passed through one stack: len=%d with %d values inside", in, len(st), burst+1), nil)
				return
			}
			for b := burst - 1; b >= 0; b-- {
				v, ok := st.Pop()
				if !ok || v != base+uint32(b) {
					c.Violate("marathon:Pop:order", fmt.Sprintf("after %d values had passed through one stack (height never above 65): Pop returned (%d,%v), LIFO order gives %d", in, v, ok, base+uint32(b)), nil)
					return
				}
			}
			if checks&0xffff == 0 {
				if v, ok := st.Peek(); len(st) != 1 || !ok || v != 0xdeadbeef {
					c.Violate("marathon:Len/Peek", fmt.Sprintf("after %d values had passed through one stack: len=%d, Peek()=(%d,%v)", in, len(st), v, ok), nil)
					return
				}
			}
		}
		c.Count("marathon_values_through_one_stack", int64(in))
	}
	c.NonTrivial(core.Mix(c.Seed, uint64(c.Index), 1616))
}

// c16sweep: ALL call sequences of length <= 10 over {insert, remove, Peek+Len} from the
// zero value, for the Queue (case 0) and the Stack (case 1), against the slice model.
func c16sweep(c *core.Ctx, stack bool) {
	seqs := 0
	for L := 0; L <= 10; L++ {
		total := 1
		for i := 0; i < L; i++ {
			total *= 3
		}
		for code := 0; code < total; code++ {
			var q lists.Queue[int]
			var st lists.Stack[int]
			var model []int
			next := 0
			var hist []string
			fail := func(sig, msg string) {
				c.Violate("sweep:"+sig, fmt.Sprintf("%s [exhaustive sweep from the zero value, calls %v]", msg, hist), map[string]any{"history": hist})
			}
			for x, k := code, 0; k < L; k++ {
				op := x % 3
				x /= 3
				switch op {
				case 0:
					next++
					hist = append(hist, fmt.Sprintf("insert(%d)", next))
					if stack {
						st.Push(next)
					} else {
						q.Enqueue(next)
					}
					model = append(model, next)
				case 1:
					hist = append(hist, "remove()")
					var v int
					var ok bool
					want, wok := 0, len(model) > 0
					if stack {
						v, ok = st.Pop()
						if wok {
							want, model = model[len(model)-1], model[:len(model)-1]
						}
					} else {
						v, ok = q.Dequeue()
						if wok {
							want, model = model[0], model[1:]
						}
					}
					if ok != wok || v != want {
						fail("remove", fmt.Sprintf("remove returned (%d,%v), expected (%d,%v)", v, ok, want, wok))
						return
					}
				case 2:
					hist = append(hist, "Peek()+Len()")
					var v, n int
					var ok bool
					want, wok := 0, len(model) > 0
					if stack {
						v, ok = st.Peek()
						n = len(st)
						if wok {
							want = model[len(model)-1]
						}
					} else {
						v, ok = q.Peek()
						n = q.Len()
						if wok {
							want = model[0]
						}
					}
					if ok != wok || v != want || n != len(model) {
						fail("Peek/Len", fmt.Sprintf("Peek returned (%d,%v) and Len %d, expected (%d,%v) and %d", v, ok, n, want, wok, len(model)))
						return
					}
				}
			}
			seqs++
		}
	}
	c.Count("exhaustive_sweep_sequences", int64(seqs))
	c.Count("exhaustive_sweeps_completed", 1)
	c.NonTrivial(core.Mix(16, uint64(c.Index), 0x5eeb))
}

func runC16(c *core.Ctx) {
	if c.Mode == "marathon" {
		c16marathon(c)
		return
	}
	if c.Index < 2 {
		c16sweep(c, c.Index == 1)
		return
	}
	r := c.R
	var q lists.Queue[int]
	var st lists.Stack[int]
	var qm, sm []int
	var hist []string
	fail := func(sig, msg string) {
		c.Violate(sig, msg+fmt.Sprintf(" [after %d calls]", len(hist)), map[string]any{"history": append([]string{}, hist...)})
	}
	nops := r.Range(1, 200)
	flipDen := 12
	obsEvery := 1
	if r.Chance(1, 3) {
		obsEvery = r.Range(2, 6)
	}
	if r.Chance(1, 16) {
		// long histories with long fill / drain phases: deep containers (growth and
		// shrink paths of the backing storage)
		nops = r.Range(200, 3000)
		flipDen = 150
	}
	next := 0
	// phases: fill-biased or drain-biased, switching at random
	fillBias := true
	emptied, refilled := 0, 0
	var hh uint64 = 16
	for i := 0; i < nops; i++ {
		if r.Chance(1, flipDen) {
			fillBias = !fillBias
		}
		wIn, wOut := 6, 3
		if !fillBias {
			wIn, wOut = 2, 7
		}
		onQueue := r.Bool()
		op := r.Pick(wIn, wOut, 2, 1)
		switch {
		case onQueue && op == 0:
			next++
			hist = append(hist, fmt.Sprintf("Enqueue(%d)", next))
			q.Enqueue(next)
			if len(qm) == 0 && emptied > 0 {
				refilled++
			}
			qm = append(qm, next)
		case onQueue && op == 1:
			hist = append(hist, "Dequeue()")
			v, ok := q.Dequeue()
			if len(qm) == 0 {
				if ok || v != 0 {
					fail("Dequeue:empty", fmt.Sprintf("Dequeue on empty queue returned (%d,%v)", v, ok))
					return
				}
				c.Count("dequeue_empty", 1)
			} else {
				if !ok || v != qm[0] {
					fail("Dequeue:order", fmt.Sprintf("Dequeue returned (%d,%v), FIFO order gives %d (queue model %v)", v, ok, qm[0], qm))
					return
				}
				qm = qm[1:]
				if len(qm) == 0 {
					emptied++
				}
			}
		case !onQueue && op == 0:
			next++
			hist = append(hist, fmt.Sprintf("Push(%d)", next))
			st.Push(next)
			if len(sm) == 0 && emptied > 0 {
				refilled++
			}
			sm = append(sm, next)
		case !onQueue && op == 1:
			hist = append(hist, "Pop()")
			v, ok := st.Pop()
			if len(sm) == 0 {
				if ok || v != 0 {
					fail("Pop:empty", fmt.Sprintf("Pop on empty stack returned (%d,%v)", v, ok))
					return
				}
				c.Count("pop_empty", 1)
			} else {
				if !ok || v != sm[len(sm)-1] {
					fail("Pop:order", fmt.Sprintf("Pop returned (%d,%v), LIFO order gives %d (stack model %v)", v, ok, sm[len(sm)-1], sm))
					return
				}
				sm = sm[:len(sm)-1]
				if len(sm) == 0 {
					emptied++
				}
			}
		default:
			hist = append(hist, "observe")
		}
		hh = core.Mix(hh, core.HashString(hist[len(hist)-1]))
		c.Count("calls", 1)
		// observation after every call (or, in a third of the histories, every 2..6
		// calls): Len, Peek twice (must not remove)
		if i%obsEvery != obsEvery-1 && i != nops-1 {
			continue
		}
		if q.Len() != len(qm) {
			fail("Queue.Len", fmt.Sprintf("Queue.Len()=%d model %d", q.Len(), len(qm)))
			return
		}
		if len(st) != len(sm) {
			fail("Stack.len", fmt.Sprintf("len(stack)=%d model %d", len(st), len(sm)))
			return
		}
		for k := 0; k < 2; k++ {
			v, ok := q.Peek()
			if len(qm) == 0 {
				if ok || v != 0 {
					fail("Queue.Peek:empty", fmt.Sprintf("Peek on empty queue returned (%d,%v)", v, ok))
					return
				}
			} else if !ok || v != qm[0] {
				fail("Queue.Peek", fmt.Sprintf("Queue.Peek()=(%d,%v) (call %d), next Dequeue must give %d", v, ok, k+1, qm[0]))
				return
			}
			v, ok = st.Peek()
			if len(sm) == 0 {
				if ok || v != 0 {
					fail("Stack.Peek:empty", fmt.Sprintf("Peek on empty stack returned (%d,%v)", v, ok))
					return
				}
			} else if !ok || v != sm[len(sm)-1] {
				fail("Stack.Peek", fmt.Sprintf("Stack.Peek()=(%d,%v) (call %d), next Pop must give %d", v, ok, k+1, sm[len(sm)-1]))
				return
			}
		}
		c.Count("observations", 1)
		c.Max("max_queue_len", int64(len(qm)))
		c.Max("max_stack_len", int64(len(sm)))
	}
	// Occasionally a deep phase: thousands of values inside at once (growth policy
	// of a re-implemented backing store), with light interleaved removals.
	if r.Chance(1, 25) {
		deep := r.Range(1000, 6000)
		for i := 0; i < deep; i++ {
			next++
			q.Enqueue(next)
			qm = append(qm, next)
			st.Push(next)
			sm = append(sm, next)
			if i%97 == 96 {
				v, ok := q.Dequeue()
				if !ok || v != qm[0] {
					fail("Dequeue:order", fmt.Sprintf("deep phase: Dequeue=(%d,%v) want %d with %d values inside", v, ok, qm[0], len(qm)))
					return
				}
				qm = qm[1:]
				v, ok = st.Pop()
				if !ok || v != sm[len(sm)-1] {
					fail("Pop:order", fmt.Sprintf("deep phase: Pop=(%d,%v) want %d with %d values inside", v, ok, sm[len(sm)-1], len(sm)))
					return
				}
				sm = sm[:len(sm)-1]
			}
			if i%64 == 63 {
				if q.Len() != len(qm) || len(st) != len(sm) {
					fail("Len:deep", fmt.Sprintf("deep phase: Queue.Len()=%d (model %d), len(stack)=%d (model %d)", q.Len(), len(qm), len(st), len(sm)))
					return
				}
				if v, ok := st.Peek(); !ok || v != sm[len(sm)-1] {
					fail("Stack.Peek", fmt.Sprintf("deep phase: Stack.Peek()=(%d,%v) want %d", v, ok, sm[len(sm)-1]))
					return
				}
				if v, ok := q.Peek(); !ok || v != qm[0] {
					fail("Queue.Peek", fmt.Sprintf("deep phase: Queue.Peek()=(%d,%v) want %d with %d values inside", v, ok, qm[0], len(qm)))
					return
				}
			}
		}
		c.Count("deep_phases", 1)
		c.Max("max_queue_len", int64(len(qm)))
		c.Max("max_stack_len", int64(len(sm)))
		hist = append(hist, fmt.Sprintf("deep phase: %d Enqueue+Push", deep))
	}
	// final drain: everything comes out in order, then empty behaviour
	for len(qm) > 0 {
		if v, ok := q.Peek(); !ok || v != qm[0] {
			fail("Queue.Peek", fmt.Sprintf("final drain: Queue.Peek()=(%d,%v), next Dequeue must give %d (%d values left)", v, ok, qm[0], len(qm)))
			return
		}
		v, ok := q.Dequeue()
		if !ok || v != qm[0] {
			fail("Dequeue:order", fmt.Sprintf("final drain: Dequeue=(%d,%v) want %d", v, ok, qm[0]))
			return
		}
		qm = qm[1:]
	}
	for len(sm) > 0 {
		if v, ok := st.Peek(); !ok || v != sm[len(sm)-1] {
			fail("Stack.Peek", fmt.Sprintf("final drain: Stack.Peek()=(%d,%v), next Pop must give %d", v, ok, sm[len(sm)-1]))
			return
		}
		v, ok := st.Pop()
		if !ok || v != sm[len(sm)-1] {
			fail("Pop:order", fmt.Sprintf("final drain: Pop=(%d,%v) want %d", v, ok, sm[len(sm)-1]))
			return
		}
		sm = sm[:len(sm)-1]
	}
	if v, ok := q.Dequeue(); ok || v != 0 || q.Len() != 0 {
		fail("Dequeue:empty", "drained queue not empty")
		return
	}
	if v, ok := st.Pop(); ok || v != 0 {
		fail("Pop:empty", "drained stack not empty")
		return
	}
	// other element types: zero-size, large (> 256 bytes), strings, pointers - the full
	// lock-step model, with fill and drain phases up to ~2000 values
	if c.Index%10 == 4 {
		type bigT [40]int64
		ok := true
		switch (c.Index / 10) % 7 {
		case 5:
			errs := map[int]error{}
			ok = qsTyped(c, "error(with nils)", r.Range(50, 3000), 60, func(i int) error {
				if i%3 == 0 {
					return nil // a nil interface value is a value like any other
				}
				if errs[i] == nil {
					errs[i] = fmt.Errorf("e%d", i)
				}
				return errs[i]
			})
		case 6:
			ok = qsTyped(c, "any(mixed, with nils)", r.Range(50, 3000), 60, func(i int) any {
				switch i % 4 {
				case 0:
					return nil
				case 1:
					return i
				case 2:
					return fmt.Sprint(i)
				}
				return [2]int{i, -i}
			})
		case 0:
			ok = qsTyped(c, "[40]int64", r.Range(50, 3000), 60, func(i int) bigT { return bigT{int64(i), 1: int64(-i), 39: int64(i) * 7} })
		case 1:
			ok = qsTyped(c, "struct{}", r.Range(50, 3000), 60, func(i int) struct{} { return struct{}{} })
		case 2:
			ok = qsTyped(c, "string", r.Range(50, 3000), 60, func(i int) string { return fmt.Sprint("v", i) })
		case 3:
			ptrs := map[int]*int{}
			ok = qsTyped(c, "*int", r.Range(50, 3000), 60, func(i int) *int {
				if ptrs[i] == nil {
					ptrs[i] = new(int)
				}
				return ptrs[i]
			})
		case 4:
			ok = qsTyped(c, "uint8", r.Range(50, 3000), 60, func(i int) uint8 { return uint8(i%255 + 1) })
		}
		if !ok {
			return
		}
		c.Count("other_element_types", 1)
	}
	// one object used for a very long time: far more than 2^16 (and 2^17) values pass
	// through a queue and a stack whose lengths keep oscillating - positions, counters
	// and ring indices of a re-implemented backing store wrap here and nowhere else
	if c.Index%500 == 77 && c.Mode != "par" && (c.Tier != "thorough" || c.Index%10000 == 77) {
		if !qsTyped(c, "int(long)", r.Range(700000, 1000000), 2500, func(i int) int { return i + 1 }) {
			return
		}
		c.Count("long_histories_past_2^17_values", 1)
	}
	c.Count("drained_to_empty", int64(emptied))
	c.Count("refilled_after_empty", int64(refilled))
	if nops >= 4 {
		c.NonTrivial(hh)
	}
	if c.WantSample() {
		h := hist
		if len(h) > 30 {
			h = h[:30]
		}
		c.Sample(map[string]any{"calls": len(hist), "history_prefix": h})
	}
}

// qsTyped: lock-step Queue[T]/Stack[T] against slice models for nops calls, phases of
// filling and draining that switch every ~flipDen calls; values are mk(1), mk(2), ...
func qsTyped[T comparable](c *core.Ctx, tname string, nops, flipDen int, mk func(int) T) bool {
	r := c.R
	var q lists.Queue[T]
	var st lists.Stack[T]
	// a second queue and stack of the same type receive other values now and then and
	// are drained at the end: containers must not share anything
	var q2 lists.Queue[T]
	var st2 lists.Stack[T]
	var m2 []int
	var qm, sm []int
	var zero T
	next := 0
	fail := func(sig, msg string) bool {
		c.Violate(sig+"["+tname+"]", fmt.Sprintf("%s [element type %s, after %d values, queue model length %d, stack model length %d]", msg, tname, next, len(qm), len(sm)), nil)
		return false
	}
	fill := true
	gcAt := -1
	if nops <= 3000 {
		gcAt = r.Intn(nops) // one garbage collection in the middle: what the containers hold must survive it
	}
	for i := 0; i < nops; i++ {
		if i == gcAt {
			runtime.GC()
		}
		if r.Chance(1, flipDen) {
			fill = !fill
		}
		wIn, wOut := 6, 3
		if !fill {
			wIn, wOut = 2, 7
		}
		onQ := r.Bool()
		switch op := r.Pick(wIn, wOut, 1); {
		case op == 0 && onQ:
			next++
			q.Enqueue(mk(next))
			qm = append(qm, next)
			if next%7 == 0 && len(m2) < 500 {
				q2.Enqueue(mk(1000000 + next))
				st2.Push(mk(1000000 + next))
				m2 = append(m2, 1000000+next)
			}
		case op == 0:
			next++
			st.Push(mk(next))
			sm = append(sm, next)
		case op == 1 && onQ:
			v, ok := q.Dequeue()
			if len(qm) == 0 {
				if ok || v != zero {
					return fail("Dequeue:empty", "Dequeue on an empty queue returned a value")
				}
			} else {
				if !ok || v != mk(qm[0]) {
					return fail("Dequeue:order", fmt.Sprintf("Dequeue returned (%v,%v), FIFO order gives value #%d", v, ok, qm[0]))
				}
				qm = qm[1:]
			}
		case op == 1:
			v, ok := st.Pop()
			if len(sm) == 0 {
				if ok || v != zero {
					return fail("Pop:empty", "Pop on an empty stack returned a value")
				}
			} else {
				if !ok || v != mk(sm[len(sm)-1]) {
					return fail("Pop:order", fmt.Sprintf("Pop returned (%v,%v), LIFO order gives value #%d", v, ok, sm[len(sm)-1]))
				}
				sm = sm[:len(sm)-1]
			}
		default:
			if q.Len() != len(qm) || len(st) != len(sm) {
				return fail("Len", fmt.Sprintf("Queue.Len()=%d (model %d), len(stack)=%d (model %d)", q.Len(), len(qm), len(st), len(sm)))
			}
			if v, ok := q.Peek(); ok != (len(qm) > 0) || ok && v != mk(qm[0]) {
				return fail("Queue.Peek", fmt.Sprintf("Queue.Peek()=(%v,%v)", v, ok))
			}
			if v, ok := st.Peek(); ok != (len(sm) > 0) || ok && v != mk(sm[len(sm)-1]) {
				return fail("Stack.Peek", fmt.Sprintf("Stack.Peek()=(%v,%v)", v, ok))
			}
		}
		if len(qm) > 64 && cap(qm) > 4*len(qm) {
			qm = append([]int(nil), qm...)
		}
	}
	c.Count("typed_calls", int64(nops))
	c.Max("max_values_through_one_object", int64(next))
	for len(qm) > 0 {
		if v, ok := q.Dequeue(); !ok || v != mk(qm[0]) {
			return fail("Dequeue:order", fmt.Sprintf("final drain: Dequeue=(%v,%v) want value #%d", v, ok, qm[0]))
		}
		qm = qm[1:]
	}
	for len(sm) > 0 {
		if v, ok := st.Pop(); !ok || v != mk(sm[len(sm)-1]) {
			return fail("Pop:order", fmt.Sprintf("final drain: Pop=(%v,%v) want value #%d", v, ok, sm[len(sm)-1]))
		}
		sm = sm[:len(sm)-1]
	}
	if q2.Len() != len(m2) || len(st2) != len(m2) {
		return fail("two-containers", fmt.Sprintf("a second queue/stack that received %d values holds %d/%d", len(m2), q2.Len(), len(st2)))
	}
	for i := range m2 {
		v, ok := q2.Dequeue()
		w, ok2 := st2.Pop()
		if !ok || !ok2 || v != mk(m2[i]) || w != mk(m2[len(m2)-1-i]) {
			return fail("two-containers", fmt.Sprintf("a second queue/stack used next to the first returned (%v,%v)/(%v,%v) at position %d", v, ok, w, ok2, i))
		}
	}
	if _, ok := q.Dequeue(); ok || q.Len() != 0 {
		return fail("Dequeue:empty", "drained queue is not empty")
	}
	if _, ok := st.Pop(); ok || len(st) != 0 {
		return fail("Pop:empty", "drained stack is not empty")
	}
	return true
}
