package props

import (
	"fmt"
	"runtime"
	"sort"
	"sync"
	"sync/atomic"
	"time"

	"gopkg.in/typ.v4/chans"
	"verifharness/internal/core"
)

// C10 — PubSub delivers every event exactly once to every subscriber.
// Free-running scenarios in a worker process (channel operations cannot be
// serialized by our hooks). Event ids are unique, every receiver logs what it
// got until its channel is closed, OnPubTimeout logs its invocations.
//
// modes: stable        — subscribers stay throughout (S1 Wait/Sync: UnsubAll the
//                        moment the publish calls returned; S2 async: acknowledged
//                        quiescence first; S3 timeouts: delivery xor timeout)
//        churn         — Sub/SubBuf/Unsub/UnsubAll concurrent with Sync publishes
//        churn-async   — Unsub/UnsubAll concurrent with Pub/PubSlice/PubWait/PubSliceWait
//        churn-withonly— parent Unsub concurrent with publishes on a WithOnly clone

func init() { register("C10", runC10) }

var psVariants = []string{"Pub", "PubSlice", "PubWait", "PubSliceWait", "PubSync", "PubSliceSync"}

func isAsync(v int) bool { return v <= 1 }
func isSync(v int) bool  { return v >= 4 }

type psSub struct {
	ch      <-chan int
	buf     int
	behav   int // 0 prompt, 1 delayed, 2 stalled until released
	got     []int
	closed  atomic.Bool
	done    chan struct{}
	release chan struct{}
	stable  bool
	acks    atomic.Int64
	gmu     sync.Mutex // guards got (the harness's own log; read while the receiver may still run)
}

func (s *psSub) snapshot() []int {
	s.gmu.Lock()
	defer s.gmu.Unlock()
	return append([]int(nil), s.got...)
}

type psRun struct {
	receiversUseAPI bool // receivers call a read-only method of the PubSub between receives
	ps              *chans.PubSub[int]
	clk             atomic.Int64
	acks            atomic.Int64
	tmu             sync.Mutex
	timeouts        []struct {
		ev    int
		stamp int64
	}
	tcount atomic.Int64
}

func (p *psRun) startReceiver(s *psSub, seed uint64) {
	s.done = make(chan struct{})
	go func() {
		defer close(s.done)
		rr := core.NewRand(seed)
		if s.behav == 2 {
			<-s.release
		}
		for v := range s.ch {
			// a receiver may use the PubSub itself between two receives (here: a read-only
			// WithOnly call): a publisher waiting to hand it the next event must not hold
			// anything that call needs
			// (only in the stable scenarios: with Sub/Unsub churn a pending writer makes every
			// new read-lock wait, and a receiver waiting there while PubSync waits for it is the
			// deadlock-by-design that the churn modes avoid - section 7.1)
			if p.receiversUseAPI && s.behav != 2 && rr.Chance(1, 4) {
				_ = p.ps.WithOnly(s.ch)
			}
			s.gmu.Lock()
			s.got = append(s.got, v)
			s.gmu.Unlock()
			s.acks.Add(1)
			p.acks.Add(1)
			if s.behav == 1 && rr.Chance(1, 3) {
				time.Sleep(time.Duration(rr.Range(1, 200)) * time.Microsecond)
			}
		}
		s.closed.Store(true)
	}()
}

// publish hands the library its own copy of the batch and overwrites that copy
// as soon as the call has returned: a publish variant that keeps reading the
// caller's slice after returning delivers the scribbled values (-1).
func (p *psRun) publish(variant int, batch []int) {
	evs := append([]int(nil), batch...)
	defer func() {
		for i := range evs {
			evs[i] = -1
		}
	}()
	switch variant {
	case 0:
		for _, e := range evs {
			p.ps.Pub(e)
		}
	case 1:
		p.ps.PubSlice(evs)
	case 2:
		for _, e := range evs {
			p.ps.PubWait(e)
		}
	case 3:
		p.ps.PubSliceWait(evs)
	case 4:
		for _, e := range evs {
			p.ps.PubSync(e)
		}
	case 5:
		p.ps.PubSliceSync(evs)
	}
}

func waitUntil(cond func() bool, max time.Duration) bool {
	// the budget is counted in slices of at most 100 ms: a stall of the process or a jump
	// of the clock (a paused virtual machine) uses up one slice, not the whole budget
	var elapsed time.Duration
	last := time.Now()
	for !cond() {
		time.Sleep(50 * time.Microsecond)
		now := time.Now()
		d := now.Sub(last)
		last = now
		if d > 100*time.Millisecond {
			d = 100 * time.Millisecond
		}
		if elapsed += d; elapsed > max {
			return cond()
		}
	}
	return true
}

// c10sweep: ALL sequences of up to 5 sequential calls starting with call `first` of an
// 8-call alphabet on a fresh PubSub whose subscriptions are buffered (16, never full):
// SubBuf, Unsub(oldest live), Unsub(newest live), Unsub(a removed channel) [must fail],
// UnsubAll, PubSync, PubSliceSync(2 events), PubWait. Sequential and without
// receivers, so the outcome is determined: each channel holds exactly the events
// published while it was subscribed, in order, and is closed iff it was removed.
func c10sweep(c *core.Ctx, first int) {
	// the sweep runs on a goroutine of its own: a call that never returns (everything parked
	// for good) is a verdict about the history being executed, not a watchdog matter
	var cur atomic.Value
	var wg sync.WaitGroup
	wg.Add(1)
	go func() { defer wg.Done(); c10sweepBody(c, first, &cur) }()
	if st, where := core.WaitOrDeadlock(&wg, 5*time.Second, 100*time.Second); st != "done" {
		h, _ := cur.Load().([]string)
		if st == "deadlock" {
			c.Violate("sweep:call-never-returns", fmt.Sprintf("a sequential call on a PubSub with buffered subscriptions never returns: every goroutine is parked for good (%s) [exhaustive sequential sweep, calls so far %v]", where, h), map[string]any{"history": h})
		} else {
			c.Inconclusive("the sequential sweep did not finish within the watchdog (no deadlock proven)")
		}
	}
}

func c10sweepBody(c *core.Ctx, first int, cur *atomic.Value) {
	const nOps = 9
	names := []string{"SubBuf(16)", "Unsub(oldest)", "Unsub(newest)", "Unsub(removed)", "UnsubAll", "PubSync", "PubSliceSync(2)", "PubWait", "empty batches (PubSlice, PubSliceWait, PubSliceSync)"}
	seqs := 0
	type sub struct {
		ch     <-chan int
		want   []int
		closed bool
	}
	for L := 1; L <= 5; L++ {
		total := 1
		for i := 1; i < L; i++ {
			total *= nOps
		}
		for code := 0; code < total; code++ {
			ps := &chans.PubSub[int]{}
			var subs []*sub
			var hist []string
			ev := 0
			fail := func(sig, msg string) {
				c.Violate("sweep:"+sig, fmt.Sprintf("%s [exhaustive sequential sweep on a fresh PubSub, calls %v]", msg, hist), map[string]any{"history": hist})
			}
			live := func() []*sub {
				var out []*sub
				for _, s := range subs {
					if !s.closed {
						out = append(out, s)
					}
				}
				return out
			}
			pub := func(evs ...int) {
				for _, s := range live() {
					s.want = append(s.want, evs...)
				}
			}
			for x, k := code, 0; k < L; k++ {
				op := first
				if k > 0 {
					op = x % nOps
					x /= nOps
				}
				hist = append(hist, names[op])
				cur.Store(append([]string(nil), hist...))
				lv := live()
				switch op {
				case 0:
					subs = append(subs, &sub{ch: ps.SubBuf(16)})
				case 1, 2:
					if len(lv) == 0 {
						continue
					}
					t := lv[0]
					if op == 2 {
						t = lv[len(lv)-1]
					}
					if err := ps.Unsub(t.ch); err != nil {
						fail("Unsub:error", fmt.Sprintf("Unsub of a live subscription returned %v", err))
						return
					}
					t.closed = true
				case 3:
					var t *sub
					for _, s := range subs {
						if s.closed {
							t = s
						}
					}
					if t == nil {
						continue
					}
					if err := ps.Unsub(t.ch); err != chans.ErrAlreadyUnsubscribed {
						fail("Unsub:error-contract", fmt.Sprintf("Unsub of an already removed channel returned %v", err))
						return
					}
				case 4:
					if err := ps.UnsubAll(); err != nil {
						fail("UnsubAll:error", fmt.Sprint(err))
						return
					}
					for _, s := range lv {
						s.closed = true
					}
				case 5:
					ev++
					ps.PubSync(ev)
					pub(ev)
				case 6:
					ev += 2
					ps.PubSliceSync([]int{ev - 1, ev})
					pub(ev-1, ev)
				case 7:
					ev++
					ps.PubWait(ev)
					pub(ev)
				case 8:
					ps.PubSlice(nil)
					ps.PubSliceWait([]int{})
					ps.PubSliceSync(nil)
				}
			}
			for i, s := range subs {
				var got []int
				closed := false
			drain:
				for {
					select {
					case v, ok := <-s.ch:
						if !ok {
							closed = true
							break drain
						}
						got = append(got, v)
					default:
						break drain
					}
				}
				if !eqSlice(got, s.want) || closed != s.closed {
					fail("contents", fmt.Sprintf("subscription %d holds %v (closed=%v); it was subscribed while %v were published (removed=%v)", i, got, closed, s.want, s.closed))
					return
				}
			}
			seqs++
		}
	}
	c.Count("exhaustive_sweep_sequences", int64(seqs))
	c.Count("exhaustive_sweeps_completed", 1)
	c.NonTrivial(core.Mix(10, uint64(first), 0x5eeb))
}

func runC10(c *core.Ctx) {
	if c.Mode == "stable" && c.Build == "plain" && c.Index < 8 {
		c10sweep(c, int(c.Index))
		return
	}
	switch c.Mode {
	case "stable":
		if c.Index%8 == 7 {
			c10withonly(c, false)
		} else {
			c10stable(c)
		}
	case "churn":
		c10churn(c, "sync")
	case "churn-async":
		c10churn(c, "async")
	case "churn-sub":
		c10churn(c, "subonly")
	case "churn-withonly":
		c10withonly(c, true)
	}
}

const nestedEv = -7 // published from inside an OnPubTimeout callback in some scenarios

func c10stable(c *core.Ctx) {
	r := c.R
	var nestedFired atomic.Bool
	variant := r.Intn(6)
	timeoutOn := r.Chance(2, 5)
	run := &psRun{ps: &chans.PubSub[int]{}, receiversUseAPI: true}
	var timeout time.Duration
	// in 1 scenario of 10 the PubSub has a past: 300 subscriptions that came and went
	// one after the other (counters and tables that only grow, or wrap, start here);
	// this happens before any timeout is configured, so every PubSync below delivers
	if r.Chance(1, 10) {
		for i := 0; i < 300; i++ {
			ch := run.ps.SubBuf(1)
			if i%50 == 0 {
				run.ps.PubSync(-900 - i)
				if v, ok := <-ch; !ok || v != -900-i {
					c.Violate("Sub:storm", fmt.Sprintf("subscription %d of a storm of Sub/Unsub pairs received (%d,%v) for the event published to it", i+1, v, ok), nil)
					return
				}
			}
			if err := run.ps.Unsub(ch); err != nil {
				c.Violate("Unsub:error", fmt.Sprintf("Unsub of subscription %d of a storm of Sub/Unsub pairs returned %v", i+1, err), nil)
				return
			}
			if _, ok := <-ch; ok {
				c.Violate("Unsub:channel-not-closed", fmt.Sprintf("the channel of subscription %d of a storm of Sub/Unsub pairs was not closed by its Unsub", i+1), nil)
				return
			}
		}
		c.Count("stable_with_sub_unsub_storm_before", 1)
	}
	if timeoutOn {
		timeout = time.Duration(r.Range(200, 2000)) * time.Microsecond
		if r.Chance(1, 6) {
			// positive but tiny (1 ns .. 199 us): still a timeout, never "no limit"
			timeout = time.Duration(r.Range(1, 199000)) * time.Nanosecond
			if r.Bool() {
				timeout = time.Duration(r.Range(1, 999)) * time.Nanosecond
			}
		}
		run.ps.PubTimeoutAfter = timeout
		// in 1 timeout scenario of 8 the callback itself publishes once on the same PubSub
		// (a synchronous "retry" of another event): a callback may use the PubSub it is called from
		nested := r.Chance(1, 8)
		var nestedDone atomic.Bool
		run.ps.OnPubTimeout = func(ev int) {
			fire := nested && ev >= 0 && nestedDone.CompareAndSwap(false, true)
			if fire {
				nestedFired.Store(true) // before this timeout is counted (see the quiescence test)
			}
			st := run.clk.Add(1)
			run.tmu.Lock()
			run.timeouts = append(run.timeouts, struct {
				ev    int
				stamp int64
			}{ev, st})
			run.tmu.Unlock()
			run.tcount.Add(1)
			if fire {
				run.ps.PubSync(nestedEv)
			}
		}
	}
	if r.Chance(1, 3) {
		run.ps.DefaultBuffer = r.Range(1, 3)
	}
	nsub := r.Range(0, 4)
	if r.Chance(1, 12) {
		nsub = r.Range(17, 140) // many subscribers (growth and shrink steps of the subscriber list)
	}
	stalledAsync := isAsync(variant) && !timeoutOn && r.Chance(1, 2)
	subs := make([]*psSub, nsub)
	for i := range subs {
		s := &psSub{release: make(chan struct{}), stable: true}
		if r.Bool() {
			s.ch = run.ps.Sub()
			s.buf = run.ps.DefaultBuffer
		} else {
			s.buf = r.Intn(4)
			s.ch = run.ps.SubBuf(s.buf)
		}
		s.behav = r.Pick(5, 3, 0)
		if timeoutOn {
			s.behav = r.Pick(3, 2, 4) // stalled receivers only make sense with a timeout
		} else if stalledAsync {
			// ... or with Pub/PubSlice: the sends to a subscriber nobody receives from
			// wait, everybody else must still get every event meanwhile
			s.behav = r.Pick(3, 2, 3)
		}
		if cap(s.ch) != s.buf {
			c.Violate("Sub:buffer", fmt.Sprintf("subscription channel has capacity %d, expected %d", cap(s.ch), s.buf), nil)
			return
		}
		subs[i] = s
		run.startReceiver(s, r.Uint64())
	}
	npub, per := r.Range(1, 3), r.Range(1, 8)
	if r.Chance(1, 10) || stalledAsync && r.Bool() {
		// big batches (slice variants publish them in one call)
		npub, per = 1, r.Range(33, 200)
	}
	if nsub > 16 {
		// many subscribers: few events (a timed-out pair costs up to the whole timeout in
		// the Sync variants, one after the other)
		npub, per = r.Range(1, 2), r.Range(1, 4)
		if timeoutOn {
			timeout = time.Duration(r.Range(200, 600)) * time.Microsecond
			run.ps.PubTimeoutAfter = timeout
		}
	}
	baseline := runtime.NumGoroutine()
	type callRet struct {
		evs []int
		ret int64
	}
	rets := make([][]callRet, npub)
	var wg sync.WaitGroup
	for p := 0; p < npub; p++ {
		p := p
		evs := make([]int, per)
		for i := range evs {
			evs[i] = (p+1)*1000 + i
		}
		chunk := per
		if r.Bool() {
			chunk = r.Range(1, per)
		}
		wg.Add(1)
		go func() {
			defer wg.Done()
			for i := 0; i < len(evs); i += chunk {
				j := i + chunk
				if j > len(evs) {
					j = len(evs)
				}
				run.publish(variant, evs[i:j])
				rets[p] = append(rets[p], callRet{evs[i:j], run.clk.Add(1)})
			}
		}()
	}
	vname := psVariants[variant]
	if st, where := core.WaitOrDeadlock(&wg, 10*time.Second, 90*time.Second); st != "done" {
		if st == "deadlock" {
			c.Violate(vname+":deadlock", fmt.Sprintf("%s never returns: every goroutine of the scenario is parked for good (%s)", vname, where),
				map[string]any{"variant": vname, "subscribers": nsub, "publishers": npub, "events_each": per, "timeout_us": timeout.Microseconds()})
		} else {
			c.Inconclusive("publish calls did not return within the watchdog (no deadlock proven)")
		}
		return
	}
	nev := npub * per
	expected := int64(nsub * nev)
	cls := "S1"
	if isAsync(variant) {
		cls = "S2"
	}
	if timeoutOn {
		cls = "S3"
	}
	extra := map[string]any{"variant": vname, "class": cls, "subscribers": nsub, "publishers": npub, "events_each": per, "timeout_us": timeout.Microseconds(), "gomaxprocs": runtime.GOMAXPROCS(0)}
	bufs, behs := []int{}, []int{}
	for _, s := range subs {
		bufs = append(bufs, s.buf)
		behs = append(behs, s.behav)
	}
	extra["buffers"], extra["receiver_behaviour"] = bufs, behs
	releaseAll := func() {
		for _, s := range subs {
			if s.behav == 2 {
				select {
				case <-s.release:
				default:
					close(s.release)
				}
			}
		}
	}
	if stalledAsync {
		// Some subscribers are not being received from (until released below). The sends
		// addressed to them wait; every OTHER subscriber must get all events meanwhile.
		// Verdict by logical fact: if every goroutine of the scenario is parked for good
		// (senders on the stalled channels, receivers waiting for more) while a live
		// subscriber is still short, the missing events cannot arrive.
		nStalled := 0
		liveDone := func() bool {
			for _, s := range subs {
				if s.behav != 2 && s.acks.Load() < int64(nev) {
					return false
				}
			}
			return true
		}
		for _, s := range subs {
			if s.behav == 2 {
				nStalled++
			}
		}
		for t0 := time.Now(); nStalled > 0 && !liveDone(); {
			time.Sleep(time.Millisecond)
			if dl, where := core.Deadlocked(); dl && !liveDone() {
				time.Sleep(50 * time.Millisecond)
				if dl2, _ := core.Deadlocked(); dl2 && !liveDone() {
					short := []string{}
					for si, s := range subs {
						if s.behav != 2 && s.acks.Load() < int64(nev) {
							short = append(short, fmt.Sprintf("subscriber %d has %d of %d", si, s.acks.Load(), nev))
						}
					}
					c.Violate(vname+":starved-by-stalled-subscriber", fmt.Sprintf("%s: %d subscriber(s) are not being received from; the others stay subscribed and keep receiving, but their events never arrive (%v): every goroutine is parked for good (%s)", vname, nStalled, short, where), extra)
					releaseAll()
					return
				}
			}
			if time.Since(t0) > 60*time.Second {
				releaseAll()
				c.Inconclusive("live subscribers did not receive everything within the watchdog while another subscriber was stalled (no proof of starvation)")
				return
			}
		}
		if nStalled > 0 {
			c.Count("stable_async_with_stalled_subscriber", 1)
		}
	}
	if isAsync(variant) {
		// S2: bounded-progress restatement of "eventually"
		if timeoutOn {
			time.Sleep(3*timeout + 2*time.Millisecond)
		}
		releaseAll()
		// the pairs of an event published from inside the callback count too; the flag is
		// set before the firing timeout is counted, so reading it after the counts is safe
		done := func() bool {
			n := run.acks.Load() + run.tcount.Load()
			want := expected
			if nestedFired.Load() {
				want += int64(nsub)
			}
			return n >= want
		}
		ok := waitUntil(done, 30*time.Second)
		if !ok {
			// loss detection: no library goroutine left, every channel empty, still short
			quiet := waitUntil(func() bool { return runtime.NumGoroutine() <= baseline }, 5*time.Second)
			empty := true
			for _, s := range subs {
				if len(s.ch) > 0 {
					empty = false
				}
			}
			if quiet && empty && !done() {
				extra["acks"], extra["timeouts"] = run.acks.Load(), run.tcount.Load()
				c.Violate(vname+":lost-event", fmt.Sprintf("%s: every send goroutine has finished and all channels are empty, but only %d deliveries + %d timeouts were observed for %d (event,subscriber) pairs", vname, run.acks.Load(), run.tcount.Load(), expected), extra)
				return
			}
			c.Inconclusive("async publish did not quiesce within the watchdog")
			return
		}
	}
	// Wait/Sync variants: the call has returned => every hand-off is finished. Close right away.
	const extraEv = -5
	extraRemaining := -1
	removedBeforeExtra := map[int]bool{}
	if individually := r.Bool(); individually && nsub > 0 {
		// Half of the scenarios end with one Unsub call per subscriber, in random order
		// (from many subscribers down to none): each call must close exactly its own
		// channel and leave the others subscribed - which is put to the test by one more
		// event published (PubWait) when half of them are gone.
		releaseAll()
		order := r.Perm(nsub)
		for i, si := range order {
			if i == nsub/2 {
				extraRemaining = nsub - i
				// failed Unsub calls (channels already removed, a channel that never was a
				// subscription, nil) - more of them than subscribers remain - must change nothing
				foreign := make(chan int)
				for k := 0; k <= extraRemaining; k++ {
					var err error
					want := chans.ErrAlreadyUnsubscribed
					switch {
					case i > 0 && k%3 != 2:
						err = run.ps.Unsub(subs[order[k%i]].ch)
					case k%2 == 0:
						err = run.ps.Unsub(foreign)
					default:
						err = run.ps.Unsub(nil)
						want = chans.ErrSubscriptionNotInitalized
					}
					if err != want {
						c.Violate("Unsub:error-contract", fmt.Sprintf("Unsub of an already removed / unknown / nil channel returned %v, want %v", err, want), extra)
						return
					}
				}
				run.ps.PubWait(extraEv)
			}
			if extraRemaining < 0 {
				removedBeforeExtra[si] = true
			}
			var err error
			if p, pv := core.Catch(func() { err = run.ps.Unsub(subs[si].ch) }); p {
				extra["unsub_order"] = order
				c.Violate("Unsub:panic", fmt.Sprintf("Unsub of subscriber %d (call %d of %d, each channel once) panicked: %v", si, i+1, nsub, pv), extra)
				return
			}
			if err != nil {
				extra["unsub_order"] = order
				c.Violate("Unsub:error", fmt.Sprintf("Unsub of subscriber %d (call %d of %d, each channel once) returned %v", si, i+1, nsub, err), extra)
				return
			}
			if !core.PatientWait(subs[si].done, 30*time.Second) {
				c.Violate("Unsub:channel-not-closed", fmt.Sprintf("the channel of subscriber %d was not closed by its Unsub (receiver still waiting after 30 s)", si), extra)
				return
			}
			for _, sj := range order[i+1:] {
				if subs[sj].closed.Load() {
					extra["unsub_order"] = order
					c.Violate("Unsub:closed-another-channel", fmt.Sprintf("Unsub of subscriber %d (call %d of %d) also closed the channel of subscriber %d, which is still subscribed", si, i+1, nsub, sj), extra)
					return
				}
			}
		}
		c.Count("stable_ended_by_individual_unsubs", 1)
		if err := run.ps.UnsubAll(); err != nil {
			c.Violate("UnsubAll:error", fmt.Sprint(err), extra)
			return
		}
	} else {
		if err := run.ps.UnsubAll(); err != nil {
			c.Violate("UnsubAll:error", fmt.Sprint(err), extra)
			return
		}
		releaseAll()
		for _, s := range subs {
			if !core.PatientWait(s.done, 30*time.Second) {
				c.Violate("UnsubAll:channel-not-closed", "a subscriber's channel was not closed by UnsubAll (receiver still waiting after 30 s)", extra)
				return
			}
		}
	}
	c.Count("stable_scenarios", 1)
	c.Count("stable_"+cls+"_"+vname, 1)
	c.Count("stable_event_subscriber_pairs", expected)
	// per-event accounting
	deliv := map[int]int{}
	extraDelivered := 0
	nestedDelivered := 0
	nestedSeen := map[int]bool{}
	for si, s := range subs {
		seen := map[int]bool{}
		last := map[int]int{}
		gotAll := s.got
		s.got = s.got[:0:0]
		nExtra := 0
		for _, v := range gotAll {
			if v == extraEv && extraRemaining >= 0 {
				nExtra++
				continue
			}
			if v == nestedEv && nestedFired.Load() {
				nestedDelivered++
				if nestedSeen[si] {
					c.Violate(vname+":duplicate-delivery", fmt.Sprintf("subscriber %d received the event published from inside the OnPubTimeout callback twice", si), extra)
					return
				}
				nestedSeen[si] = true
				continue
			}
			s.got = append(s.got, v)
		}
		if nExtra > 1 || (nExtra == 1 && removedBeforeExtra[si]) {
			c.Violate("Unsub:delivery-after-removal-or-duplicate", fmt.Sprintf("subscriber %d received the event published after half of the subscribers had been removed %d times (removed before it: %v)", si, nExtra, removedBeforeExtra[si]), extra)
			return
		}
		extraDelivered += nExtra
		for _, v := range s.got {
			if v/1000 < 1 || v/1000 > npub || v%1000 >= per {
				extra["received"] = s.got
				c.Violate(vname+":invented-event", fmt.Sprintf("subscriber %d received %d, which was never published", si, v), extra)
				return
			}
			if seen[v] {
				extra["received"] = s.got
				c.Violate(vname+":duplicate-delivery", fmt.Sprintf("subscriber %d received event %d twice", si, v), extra)
				return
			}
			seen[v] = true
			deliv[v]++
			if isSync(variant) {
				p := v / 1000
				if l, ok := last[p]; ok && v < l {
					extra["received"] = s.got
					c.Violate(vname+":order", fmt.Sprintf("subscriber %d received %d after %d (publication order of publisher %d broken)", si, v, l, p), extra)
					return
				}
				last[p] = v
			}
		}
		if !timeoutOn && len(s.got) != nev {
			extra["received"] = s.got
			what := "lost-event"
			if !isAsync(variant) {
				what = "returned-before-handoff"
			}
			c.Violate(vname+":"+what, fmt.Sprintf("subscriber %d (buffer %d) received %d of %d events although it stayed subscribed and was receiving (%s)", si, s.buf, len(s.got), nev, vname), extra)
			return
		}
	}
	touts := map[int]int{}
	for _, t := range run.timeouts {
		touts[t.ev]++
	}
	if nestedFired.Load() {
		// the event published by the callback: one delivery or one timeout per subscriber, like any other
		if nestedDelivered+touts[nestedEv] != nsub {
			c.Violate(vname+":delivery-xor-timeout[published from the callback]", fmt.Sprintf("the event published with PubSync from inside an OnPubTimeout callback ended in %d deliveries + %d timeouts for %d subscribers", nestedDelivered, touts[nestedEv], nsub), extra)
			return
		}
		delete(touts, nestedEv)
		c.Count("stable_callback_published_itself", 1)
	}
	if extraRemaining >= 0 {
		if extraDelivered+touts[extraEv] != extraRemaining || (!timeoutOn && extraDelivered != extraRemaining) {
			c.Violate("Unsub:other-subscribers-affected", fmt.Sprintf("after %d of %d subscribers had been removed one by one, an event published with PubWait reached %d of the remaining %d (and %d timeouts were reported)", nsub-extraRemaining, nsub, extraDelivered, extraRemaining, touts[extraEv]), extra)
			return
		}
		delete(touts, extraEv)
	}
	if !timeoutOn && len(run.timeouts) > 0 {
		c.Violate(vname+":timeout-without-timeout", "OnPubTimeout was invoked although PubTimeoutAfter is not positive", extra)
		return
	}
	for p := 1; p <= npub; p++ {
		for i := 0; i < per; i++ {
			ev := p*1000 + i
			if deliv[ev]+touts[ev] != nsub {
				extra["deliveries"], extra["timeouts"] = deliv[ev], touts[ev]
				c.Violate(vname+":delivery-xor-timeout", fmt.Sprintf("event %d: %d deliveries + %d OnPubTimeout calls for %d subscribers", ev, deliv[ev], touts[ev], nsub), extra)
				return
			}
		}
	}
	c.Count("stable_deliveries", int64(len(deliv)))
	c.Count("stable_timeouts_observed", int64(len(run.timeouts)))
	// Wait/Sync: no timeout callback after the publishing call returned
	if !isAsync(variant) && timeoutOn {
		retOf := map[int]int64{}
		for _, rs := range rets {
			for _, cr := range rs {
				for _, e := range cr.evs {
					retOf[e] = cr.ret
				}
			}
		}
		for _, t := range run.timeouts {
			if t.ev == extraEv || t.ev == nestedEv {
				continue
			}
			if t.stamp > retOf[t.ev] {
				c.Violate(vname+":timeout-after-return", fmt.Sprintf("OnPubTimeout(%d) was invoked after %s had returned", t.ev, vname), extra)
				return
			}
		}
	}
	// error contract of Unsub
	if err := run.ps.Unsub(nil); err != chans.ErrSubscriptionNotInitalized {
		c.Violate("Unsub:nil", fmt.Sprintf("Unsub(nil) returned %v", err), extra)
		return
	}
	foreign := make(chan int)
	if err := run.ps.Unsub(foreign); err != chans.ErrAlreadyUnsubscribed {
		c.Violate("Unsub:unknown-channel", fmt.Sprintf("Unsub(unknown channel) returned %v", err), extra)
		return
	}
	for _, s := range subs {
		if err := run.ps.Unsub(s.ch); err != chans.ErrAlreadyUnsubscribed {
			c.Violate("Unsub:after-UnsubAll", fmt.Sprintf("Unsub of a channel removed by UnsubAll returned %v", err), extra)
			return
		}
	}
	if nsub > 0 && nev > 0 {
		c.NonTrivial(core.Mix(c.Seed, uint64(variant), uint64(nsub)))
	}
	if c.WantSample() {
		c.Sample(extra)
	}
}

// c10churn: subscriptions come and go while publishers publish.
// kind "sync": PubSync/PubSliceSync (they hold the read lock while sending);
// kind "async": Pub/PubSlice/PubWait/PubSliceWait.
func c10churn(c *core.Ctx, kind string) {
	r := c.R
	g0 := runtime.NumGoroutine()
	variant := 4 + r.Intn(2)
	if kind == "async" {
		variant = r.Intn(4)
	}
	if kind == "subonly" {
		// subscriptions only COME (Sub/SubBuf) while Pub/PubSlice/PubWait/PubSliceWait run:
		// nothing is closed under a publisher, so the known finding cannot occur here
		variant = r.Intn(4)
	}
	vname := psVariants[variant]
	run := &psRun{ps: &chans.PubSub[int]{}}
	timeoutOn := r.Chance(1, 3)
	if timeoutOn {
		run.ps.PubTimeoutAfter = time.Duration(r.Range(100, 1000)) * time.Microsecond
		run.ps.OnPubTimeout = func(ev int) { run.tcount.Add(1) }
	}
	nstable := r.Range(0, 3)
	var mu sync.Mutex
	var all []*psSub
	add := func(s *psSub) {
		mu.Lock()
		all = append(all, s)
		mu.Unlock()
	}
	for i := 0; i < nstable; i++ {
		s := &psSub{release: make(chan struct{}), stable: true, buf: r.Intn(3), behav: r.Intn(2)}
		s.ch = run.ps.SubBuf(s.buf)
		run.startReceiver(s, r.Uint64())
		add(s)
	}
	useUnsubAll := r.Chance(1, 5) && kind != "subonly"
	npub, per := r.Range(1, 3), r.Range(2, 10)
	nchurn := r.Range(1, 3)
	var wg sync.WaitGroup
	var bad atomic.Value
	flag := func(sig, msg string) { bad.CompareAndSwap(nil, [2]string{sig, msg}) }
	stopChurn := make(chan struct{})
	for k := 0; k < nchurn; k++ {
		rr := r.Fork()
		wg.Add(1)
		go func() {
			defer wg.Done()
			for n := 0; n < 6; n++ {
				select {
				case <-stopChurn:
					return
				default:
				}
				s := &psSub{release: make(chan struct{}), buf: rr.Intn(3), behav: rr.Intn(2)}
				if rr.Bool() {
					s.ch = run.ps.SubBuf(s.buf)
				} else {
					s.ch = run.ps.Sub()
					s.buf = 0
				}
				run.startReceiver(s, rr.Uint64())
				add(s)
				time.Sleep(time.Duration(rr.Range(0, 300)) * time.Microsecond)
				if kind == "subonly" {
					continue
				}
				// a third party unsubscribes the channel while its receiver keeps receiving
				if err := run.ps.Unsub(s.ch); err != nil {
					if !(useUnsubAll && err == chans.ErrAlreadyUnsubscribed) {
						flag("Unsub:error", fmt.Sprintf("Unsub of a subscribed channel returned %v", err))
					}
				}
				if !core.PatientWait(s.done, 20*time.Second) {
					flag("Unsub:channel-not-closed", "the channel given to Unsub was not closed (its receiver is still waiting after 20 s)")
					return
				}
				if err := run.ps.Unsub(s.ch); err != chans.ErrAlreadyUnsubscribed {
					flag("Unsub:second-call", fmt.Sprintf("second Unsub of the same channel returned %v", err))
				}
			}
		}()
	}
	if useUnsubAll {
		wg.Add(1)
		go func() {
			defer wg.Done()
			time.Sleep(time.Duration(r.Range(0, 500)) * time.Microsecond)
			run.ps.UnsubAll()
		}()
	}
	var pwg sync.WaitGroup
	for p := 0; p < npub; p++ {
		p := p
		evs := make([]int, per)
		for i := range evs {
			evs[i] = (p+1)*1000 + i
		}
		pwg.Add(1)
		go func() {
			defer pwg.Done()
			if variant%2 == 1 {
				half := len(evs) / 2
				run.publish(variant, evs[:half])
				run.publish(variant, evs[half:])
			} else {
				run.publish(variant, evs)
			}
		}()
	}
	if st, where := core.WaitOrDeadlock(&pwg, 10*time.Second, 90*time.Second); st != "done" {
		if st == "deadlock" {
			c.Violate(vname+":deadlock", fmt.Sprintf("%s never returns while subscriptions come and go: every goroutine of the scenario is parked for good (%s)", vname, where),
				map[string]any{"variant": vname, "stable_subscribers": nstable, "churners": nchurn, "publishers": npub, "events_each": per})
		} else {
			c.Inconclusive("publish calls did not return within the watchdog (no deadlock proven)")
		}
		return
	}
	close(stopChurn)
	wg.Wait()
	nev := npub * per
	mu.Lock()
	subs := append([]*psSub(nil), all...)
	mu.Unlock()
	extra := map[string]any{"variant": vname, "stable_subscribers": nstable, "churners": nchurn, "publishers": npub, "events_each": per, "UnsubAll_during_run": useUnsubAll, "timeout": timeoutOn, "subscriptions_total": len(subs), "gomaxprocs": runtime.GOMAXPROCS(0)}
	if b := bad.Load(); b != nil {
		x := b.([2]string)
		c.Violate(x[0], x[1], extra)
		return
	}
	// quiescence for the stable subscribers (async variants deliver "eventually")
	if isAsync(variant) && !useUnsubAll && !timeoutOn {
		ok := waitUntil(func() bool {
			for _, s := range subs {
				if s.stable && s.acks.Load() < int64(nev) {
					return false
				}
			}
			return true
		}, 30*time.Second)
		if !ok {
			c.Inconclusive("stable subscribers did not receive everything within the watchdog (async churn)")
		}
	} else if isAsync(variant) {
		time.Sleep(2 * time.Millisecond)
	}
	if kind == "subonly" {
		// Closing channels while async send goroutines are still in flight is the KNOWN
		// finding; here everything must be quiet first. All goroutines except the
		// receivers (one per subscription, all still running) and the harness's own are
		// library senders: wait until they are gone (each delivers or times out).
		if !waitUntil(func() bool { return runtime.NumGoroutine() <= g0+len(subs) }, 30*time.Second) {
			c.Inconclusive("send goroutines did not finish within the watchdog (sub-only churn)")
			return
		}
		if isAsync(variant) {
			// Quiescence was established by POLLING: there is no happens-before edge from
			// the finished senders to this goroutine, so closing the channels now would be
			// reported by the race detector as racing with their last sends - an alarm
			// manufactured by the harness. The channels are therefore left open (the
			// receivers stay parked; the worker process is short-lived) and the logs are
			// read up to each receiver's own atomic acknowledgement count.
			c.Count(c.Mode+"_scenarios", 1)
			c.Count(c.Mode+"_"+vname, 1)
			// acknowledged quiescence for the subscribers whose share is known
			if !timeoutOn {
				if !waitUntil(func() bool {
					for _, s := range subs {
						if s.stable && s.acks.Load() < int64(npub*per) {
							return false
						}
					}
					return true
				}, 30*time.Second) {
					empty := true
					for _, s := range subs {
						if len(s.ch) > 0 {
							empty = false
						}
					}
					if empty && runtime.NumGoroutine() <= g0+len(subs) {
						c.Violate(vname+":stable-subscriber-missed-events", "every send goroutine has finished and all channels are empty, but a subscriber that stayed subscribed throughout has not received every event", map[string]any{"variant": vname})
					} else {
						c.Inconclusive("stable subscribers did not acknowledge everything within the watchdog (sub-only churn)")
					}
					return
				}
			}
			for si, s := range subs {
				got := s.snapshot()
				n := len(got)
				seen := map[int]bool{}
				for _, v := range got {
					if v/1000 < 1 || v/1000 > npub || v%1000 >= per || seen[v] {
						c.Violate(vname+":duplicate-or-invented", fmt.Sprintf("subscription %d received %v", si, got), map[string]any{"variant": vname})
						return
					}
					seen[v] = true
				}
				if s.stable && !timeoutOn && n != npub*per {
					c.Violate(vname+":stable-subscriber-missed-events", fmt.Sprintf("a subscriber that stayed subscribed throughout received %d of %d events while other subscriptions were being added", n, npub*per), map[string]any{"variant": vname})
					return
				}
				c.Count(c.Mode+"_deliveries", int64(n))
			}
			c.NonTrivial(core.Mix(c.Seed, uint64(variant)))
			return
		}
	}
	run.ps.UnsubAll()
	for _, s := range subs {
		if !core.PatientWait(s.done, 20*time.Second) {
			c.Violate("UnsubAll:channel-not-closed", "a subscriber's channel was not closed by UnsubAll", extra)
			return
		}
	}
	c.Count(c.Mode+"_scenarios", 1)
	c.Count(c.Mode+"_"+vname, 1)
	c.Count(c.Mode+"_subscriptions", int64(len(subs)))
	for si, s := range subs {
		seen := map[int]bool{}
		last := map[int]int{}
		for _, v := range s.got {
			if v/1000 < 1 || v/1000 > npub || v%1000 >= per {
				c.Violate(vname+":invented-event", fmt.Sprintf("subscription %d received %d, which was never published", si, v), extra)
				return
			}
			if seen[v] {
				c.Violate(vname+":duplicate-delivery", fmt.Sprintf("subscription %d received event %d twice", si, v), extra)
				return
			}
			seen[v] = true
			if isSync(variant) {
				p := v / 1000
				if l, ok := last[p]; ok && v < l {
					c.Violate(vname+":order", fmt.Sprintf("subscription %d received %d after %d", si, v, l), extra)
					return
				}
				last[p] = v
			}
		}
		if s.stable && !useUnsubAll && !timeoutOn && len(s.got) != nev {
			g := append([]int(nil), s.got...)
			sort.Ints(g)
			extra["received_sorted"] = g
			c.Violate(vname+":stable-subscriber-missed-events", fmt.Sprintf("a subscriber that stayed subscribed throughout received %d of %d events while other subscriptions came and went", len(s.got), nev), extra)
			return
		}
		c.Count(c.Mode+"_deliveries", int64(len(s.got)))
	}
	c.NonTrivial(core.Mix(c.Seed, uint64(variant)))
	if c.WantSample() {
		c.Sample(extra)
	}
}

// c10withonly: WithOnly publishes to the one given subscription only; and a
// clone must survive the parent's Unsub of that subscription.
// c10withonlyTimeout: the WithOnly clone inherits the timeout configuration: published
// through the clone to a target nobody receives from, every pair ends in exactly one
// OnPubTimeout call (with the right event) - for the Wait and Sync variants by the time
// the call has returned.
func c10withonlyTimeout(c *core.Ctx) bool {
	r := c.R
	// in half of the scenarios the timeout and the callback are configured only AFTER the
	// subscriptions exist and a first WithOnly clone has been taken: a clone taken later
	// must reflect the configuration of that moment
	late := r.Bool()
	ps := &chans.PubSub[int]{}
	var mu sync.Mutex
	var timedOut []int
	configure := func() {
		ps.PubTimeoutAfter = time.Duration(r.Range(100, 800)) * time.Microsecond
		ps.OnPubTimeout = func(ev int) { mu.Lock(); timedOut = append(timedOut, ev); mu.Unlock() }
	}
	if !late {
		configure()
	}
	other := ps.SubBuf(4)
	target := ps.SubBuf(r.Intn(2)) // nobody receives from it
	if late {
		_ = ps.WithOnly(target)
		configure()
	}
	only := ps.WithOnly(target)
	variant := 2 + r.Intn(4) // PubWait, PubSliceWait, PubSync, PubSliceSync: finished when they return
	evs := []int{1000, 1001, 1002, 1003}[:r.Range(1, 4)]
	// with a timeout configured the call must come back; if it is parked for good (sending
	// to the target without any timer) that is a proven hang, not a watchdog matter
	var pw sync.WaitGroup
	pw.Add(1)
	go func() { defer pw.Done(); (&psRun{ps: only}).publish(variant, evs) }()
	if st, where := core.WaitOrDeadlock(&pw, 2*time.Second, 60*time.Second); st != "done" {
		if st == "deadlock" {
			c.Violate("WithOnly:publish-never-returns", fmt.Sprintf("%s through a WithOnly clone of a PubSub with PubTimeoutAfter=%v (configured %s the first WithOnly call) to a subscriber nobody receives from never returns: every goroutine is parked for good (%s)", psVariants[variant], ps.PubTimeoutAfter, map[bool]string{true: "after", false: "before"}[late], where), nil)
		} else {
			c.Inconclusive("publish through a WithOnly clone did not return within the watchdog (no deadlock proven)")
		}
		return false
	}
	var delivered []int
drain:
	for {
		select {
		case v := <-target:
			delivered = append(delivered, v)
		default:
			break drain
		}
	}
	mu.Lock()
	to := append([]int(nil), timedOut...)
	mu.Unlock()
	extra := map[string]any{"variant": psVariants[variant], "events": evs, "delivered_into_the_buffer": delivered, "OnPubTimeout_calls": to}
	seen := map[int]int{}
	for _, v := range delivered {
		seen[v]++
	}
	for _, v := range to {
		seen[v]++
	}
	for _, e := range evs {
		if seen[e] != 1 {
			c.Violate("WithOnly:delivery-xor-timeout", fmt.Sprintf("published through a WithOnly clone (timeout %v, callback set on the parent) to a subscriber nobody receives from: event %d ended in %d deliveries/OnPubTimeout calls, exactly one is required (delivered %v, timed out %v)", ps.PubTimeoutAfter, e, seen[e], delivered, to), extra)
			return false
		}
	}
	if len(delivered)+len(to) != len(evs) || len(other) != 0 {
		c.Violate("WithOnly:delivery-xor-timeout", fmt.Sprintf("published %v through a WithOnly clone: delivered %v, timed out %v, %d events leaked to another subscriber", evs, delivered, to, len(other)), extra)
		return false
	}
	ps.UnsubAll()
	c.Count("withonly_timeout_scenarios", 1)
	return true
}

func c10withonly(c *core.Ctx, concurrentUnsub bool) {
	r := c.R
	if !concurrentUnsub && r.Chance(1, 3) {
		if c10withonlyTimeout(c) {
			c.NonTrivial(core.Mix(c.Seed, 1010))
		}
		return
	}
	ps := &chans.PubSub[int]{}
	n := r.Range(2, 4)
	subs := make([]*psSub, n)
	run := &psRun{ps: ps}
	for i := range subs {
		s := &psSub{release: make(chan struct{}), buf: r.Intn(3)}
		s.ch = ps.SubBuf(s.buf)
		run.startReceiver(s, r.Uint64())
		subs[i] = s
	}
	target := r.Intn(n)
	only := ps.WithOnly(subs[target].ch)
	// half of the sequential scenarios: the parent changes between the WithOnly call and the
	// publish (other subscriptions removed, new ones added); the clone still publishes to the
	// one given subscription only
	parentChanges := []string{}
	if !concurrentUnsub && r.Bool() {
		removed := map[int]bool{target: true}
		for k := r.Range(1, 3); k > 0; k-- {
			if j := r.Intn(len(subs)); r.Bool() && !removed[j] {
				if err := ps.Unsub(subs[j].ch); err != nil {
					c.Violate("Unsub:error", fmt.Sprintf("Unsub of subscriber %d (subscribed, another one was given to WithOnly before): %v", j, err), nil)
					return
				}
				removed[j] = true
				parentChanges = append(parentChanges, fmt.Sprintf("Unsub(subscriber %d)", j))
			} else {
				s := &psSub{release: make(chan struct{}), buf: r.Intn(3)}
				s.ch = ps.SubBuf(s.buf)
				run.startReceiver(s, r.Uint64())
				subs = append(subs, s)
				parentChanges = append(parentChanges, fmt.Sprintf("SubBuf(%d) = subscriber %d", s.buf, len(subs)-1))
			}
		}
		c.Count("withonly_parent_changed_between_clone_and_publish", 1)
	}
	variant := r.Intn(6)
	evs := []int{1000, 1001, 1002, 1003, 1004, 1005}[:r.Range(1, 6)]
	var wg sync.WaitGroup
	wg.Add(1)
	go func() {
		defer wg.Done()
		pr := &psRun{ps: only}
		pr.publish(variant, evs)
	}()
	if concurrentUnsub {
		time.Sleep(time.Duration(r.Range(0, 200)) * time.Microsecond)
		ps.Unsub(subs[target].ch)
	}
	wg.Wait()
	extra := map[string]any{"variant": psVariants[variant], "subscribers": n, "target": target, "parent_unsub_during_publish": concurrentUnsub, "parent_changes_between_WithOnly_and_publish": parentChanges}
	if !concurrentUnsub {
		if isAsync(variant) {
			waitUntil(func() bool { return subs[target].acks.Load() >= int64(len(evs)) }, 20*time.Second)
		}
	} else {
		time.Sleep(time.Millisecond)
	}
	ps.UnsubAll()
	for _, s := range subs {
		if !core.PatientWait(s.done, 20*time.Second) {
			c.Violate("WithOnly:channel-not-closed", "channel not closed by UnsubAll", extra)
			return
		}
	}
	c.Count("withonly_scenarios", 1)
	for i, s := range subs {
		if i != target && len(s.got) > 0 {
			c.Violate("WithOnly:leaked-to-other-subscriber", fmt.Sprintf("subscriber %d received %v published through WithOnly(subscriber %d) (parent changed after the WithOnly call: %v)", i, s.got, target, parentChanges), extra)
			return
		}
	}
	if !concurrentUnsub && len(subs[target].got) != len(evs) {
		c.Violate("WithOnly:target-missed-events", fmt.Sprintf("the WithOnly target received %v of %v", subs[target].got, evs), extra)
		return
	}
	c.NonTrivial(core.Mix(c.Seed, uint64(variant), uint64(target)))
	if c.WantSample() {
		c.Sample(extra)
	}
}
