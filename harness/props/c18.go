package props

import (
	"fmt"
	"math"
	"runtime"
	"strconv"
	"sync"
	"sync/atomic"
	"time"

	"github.com/anishathalye/porcupine"
	"gopkg.in/typ.v4/sync2"
	"verifharness/internal/core"
)

// C18 — AtomicValue is an atomic register; Pool never hands one item to two users.
// modes: reg  — recorded histories of Load/Store/Swap/CompareAndSwap over unique
//               values, checked by porcupine against a single-register model
//        race — the same calls without recorder (race detector is the oracle)
//        pool — tokens with ownership flags through Get/Put, with and without New,
//               a side goroutine forcing GCs; under -race the detector decides
//               "free of data races"

func init() { register("C18", runC18) }

func runC18(c *core.Ctx) {
	switch c.Mode {
	case "reg":
		c18reg(c, true)
	case "race":
		c18reg(c, false)
	case "pool":
		c18pool(c)
	}
}

type pairV struct{ A, B int64 }

// register over three value representations; ids are int64 >= 1, 0 = zero value
type regAPI struct {
	load  func() (int64, bool) // id, wellFormed
	store func(id int64)
	swap  func(id int64) (int64, bool)
	cas   func(old, new int64) bool
	name  string
}

func newReg(kind int) regAPI {
	switch kind {
	case 0:
		var v sync2.AtomicValue[int64]
		return regAPI{name: "int64",
			load:  func() (int64, bool) { return v.Load(), true },
			store: func(id int64) { v.Store(id) },
			swap:  func(id int64) (int64, bool) { return v.Swap(id), true },
			cas:   func(o, n int64) bool { return v.CompareAndSwap(o, n) }}
	case 1:
		var v sync2.AtomicValue[string]
		enc := func(id int64) string {
			if id == 0 {
				return ""
			}
			return "v" + strconv.FormatInt(id, 10)
		}
		dec := func(s string) (int64, bool) {
			if s == "" {
				return 0, true
			}
			if len(s) < 2 || s[0] != 'v' {
				return -9, false
			}
			n, err := strconv.ParseInt(s[1:], 10, 64)
			return n, err == nil
		}
		return regAPI{name: "string",
			load:  func() (int64, bool) { return dec(v.Load()) },
			store: func(id int64) { v.Store(enc(id)) },
			swap:  func(id int64) (int64, bool) { return dec(v.Swap(enc(id))) },
			cas:   func(o, n int64) bool { return v.CompareAndSwap(enc(o), enc(n)) }}
	}
	if kind == 3 {
		// pointers: every id has its own cell, and ALL cells hold the same contents - two
		// different pointers are different values however equal their pointees are
		var v sync2.AtomicValue[*pairV]
		cells := map[int64]*pairV{}
		var mu sync.Mutex
		enc := func(id int64) *pairV {
			if id == 0 {
				return nil
			}
			mu.Lock()
			defer mu.Unlock()
			if cells[id] == nil {
				cells[id] = &pairV{7, -7}
			}
			return cells[id]
		}
		dec := func(p *pairV) (int64, bool) {
			if p == nil {
				return 0, true
			}
			mu.Lock()
			defer mu.Unlock()
			for id, q := range cells {
				if q == p {
					return id, true
				}
			}
			return -9, false
		}
		return regAPI{name: "*struct (equal pointees)",
			load:  func() (int64, bool) { return dec(v.Load()) },
			store: func(id int64) { v.Store(enc(id)) },
			swap:  func(id int64) (int64, bool) { return dec(v.Swap(enc(id))) },
			cas:   func(o, n int64) bool { return v.CompareAndSwap(enc(o), enc(n)) }}
	}
	var v sync2.AtomicValue[pairV]
	dec := func(p pairV) (int64, bool) { return p.A, p.B == -p.A } // a torn value shows as B != -A
	return regAPI{name: "struct{A,B int64}",
		load:  func() (int64, bool) { return dec(v.Load()) },
		store: func(id int64) { v.Store(pairV{id, -id}) },
		swap:  func(id int64) (int64, bool) { return dec(v.Swap(pairV{id, -id})) },
		cas:   func(o, n int64) bool { return v.CompareAndSwap(pairV{o, -o}, pairV{n, -n}) }}
}

const regUnset = int64(-1)

// regStep: state = current id, or regUnset before the first store.
func regStep(st, in, out any) (bool, any) {
	s := st.(int64)
	i := in.(pin)
	o := out.(pout)
	cur := s
	if s == regUnset {
		cur = 0 // Load/Swap map the empty state to the zero value
	}
	switch i.Op {
	case opLoad:
		return o.Val == cur, s
	case opStore:
		return true, i.Arg
	case opSwap:
		return o.Val == cur, i.Arg
	case opCAS:
		if s == regUnset {
			// before the first Store the property is silent: accept either outcome
			if o.Ok {
				return true, i.Arg2
			}
			return true, s
		}
		if s == i.Arg {
			return o.Ok, i.Arg2
		}
		return !o.Ok, s
	}
	return false, s
}

// c18counter: the register used as a CAS-only counter. Incrementers do
// CAS(cur, cur+1), re-boxers do CAS(cur, cur) (a semantic no-op that, for values
// whose boxing allocates, changes the underlying pointer). Conservation: final
// value == start + number of CompareAndSwap calls that reported success. A CAS
// that reports success without having swapped atomically loses an increment.
func c18counter(c *core.Ctx) {
	r := c.R
	kind := r.Intn(3)
	reg := newReg(kind)
	start := int64(1000 + r.Intn(1000)) // >= 256: boxing an int64 allocates
	reg.store(start)
	ninc, nbox := r.Range(2, 6), r.Range(1, 6)
	attempts := r.Range(50, 400)
	succ := make([]int64, ninc)
	var wg sync.WaitGroup
	begin := make(chan struct{})
	for g := 0; g < ninc; g++ {
		g := g
		wg.Add(1)
		go func() {
			defer wg.Done()
			<-begin
			for i := 0; i < attempts; i++ {
				cur, _ := reg.load()
				if reg.cas(cur, cur+1) {
					succ[g]++
				}
			}
		}()
	}
	for g := 0; g < nbox; g++ {
		wg.Add(1)
		go func() {
			defer wg.Done()
			<-begin
			for i := 0; i < attempts; i++ {
				cur, _ := reg.load()
				reg.cas(cur, cur)
			}
		}()
	}
	close(begin)
	wg.Wait()
	total := int64(0)
	for _, x := range succ {
		total += x
	}
	final, ok := reg.load()
	c.Count("reg_counter_rounds", 1)
	c.Count("reg_counter_successful_increments", total)
	extra := map[string]any{"type": reg.name, "incrementers": ninc, "reboxers": nbox, "attempts_each": attempts, "start": start, "gomaxprocs": runtime.GOMAXPROCS(0)}
	if !ok {
		c.Violate("reg:torn-value["+reg.name+"]", "final Load returned a malformed value", extra)
		return
	}
	if final != start+total {
		c.Violate("reg:cas-counter-lost-update["+reg.name+"]", fmt.Sprintf("%d CompareAndSwap(cur,cur+1) calls reported success but the counter went from %d to %d (expected %d): a CAS reported success without swapping atomically", total, start, final, start+total), extra)
		return
	}
	c.NonTrivial(core.Mix(c.Seed, 77))
	if c.WantSample() {
		c.Sample(extra)
	}
}

// c18seqSweep: ALL sequences of up to 4 calls from a small alphabet (zero value
// included, as first write too) on a fresh register of each representation, judged by
// the sequential register model - the first-write and zero-value corners that random
// concurrent workloads over unique non-zero values never visit.
// c18exactValues: Load and Swap return exactly the value last stored - also when that value
// is == to the one before it without being the same (+0.0 and -0.0, alone or inside a
// struct), when it is stored twice, and when its type has fields that cannot be compared.
func c18exactValues(c *core.Ctx) bool {
	nz := math.Copysign(0, -1)
	var f sync2.AtomicValue[float64]
	type fs struct {
		X float64
		N int
	}
	var st sync2.AtomicValue[fs]
	var hist []string
	for i, v := range []float64{0, nz, nz, 0, 0, nz, 1.5, nz, 0} {
		f.Store(v)
		st.Store(fs{v, i})
		hist = append(hist, fmt.Sprintf("Store(%v)", v))
		got, sgot := f.Load(), st.Load()
		if math.Signbit(got) != math.Signbit(v) || got != v || math.Signbit(sgot.X) != math.Signbit(v) || sgot.N != i {
			c.Violate("seq:Load-not-the-stored-value[float64]", fmt.Sprintf("AtomicValue[float64] / AtomicValue[struct{float64;int}] after %v: Load gives %v / %+v, the value just stored is %v / {%v %d}", hist, got, sgot, v, v, i), nil)
			return false
		}
		if old := f.Swap(v); math.Signbit(old) != math.Signbit(v) {
			c.Violate("seq:Swap-not-the-stored-value[float64]", fmt.Sprintf("AtomicValue[float64] after %v: Swap returned %v, the register held %v", hist, old, v), nil)
			return false
		}
	}
	// a struct type with an interface field: values holding slices or funcs cannot be
	// compared, and Store/Load/Swap never need to
	type box struct {
		V any
		N int
	}
	var b sync2.AtomicValue[box]
	sl := []int{1, 2}
	if p, pv := core.Catch(func() {
		for i := 0; i < 3; i++ {
			b.Store(box{sl, i})
			b.Store(box{sl, i})
			if got := b.Load(); got.N != i || len(got.V.([]int)) != 2 {
				panic(fmt.Sprintf("Load gives %+v after Store of {[1 2] %d}", got, i))
			}
			if old := b.Swap(box{func() {}, i}); old.N != i {
				panic(fmt.Sprintf("Swap returned %+v, the register held {[1 2] %d}", old, i))
			}
			b.Store(box{map[int]int{}, i})
		}
	}); p {
		c.Violate("seq:uncomparable-values", fmt.Sprintf("AtomicValue[struct{any;int}] holding slices, funcs and maps, Store/Load/Swap only: %v", pv), nil)
		return false
	}
	c.Count("seq_exact_value_checks", 1)
	return true
}

// c18sameValue: after a first Store(1) every goroutine only ever writes the SAME value 1
// (Store(1), Swap(1), CompareAndSwap(1,1)). An atomic register then holds 1 at every
// instant, so every CompareAndSwap(1,1) must succeed and every Load and Swap return 1 - a
// verdict that needs no timing luck: a CompareAndSwap that gives up when somebody re-stored
// an equal value under it fails here within a few thousand calls.
func c18sameValue(c *core.Ctx) {
	r := c.R
	reg := newReg(r.Intn(4))
	reg.store(1)
	ng := r.Range(2, 8)
	per := r.Range(2000, 20000)
	if c.Build != "plain" {
		per = r.Range(500, 4000)
	}
	var casFailed, wrongRead atomic.Int64
	var wg sync.WaitGroup
	start := make(chan struct{})
	for g := 0; g < ng; g++ {
		kind := (g + int(c.Index)) % 3 // storer, swapper, CAS caller: at least one of each kind from 3 goroutines on
		rr := r.Fork()
		wg.Add(1)
		go func() {
			defer wg.Done()
			<-start
			for i := 0; i < per; i++ {
				switch k := (kind + rr.Intn(2)) % 3; k {
				case 0:
					reg.store(1)
				case 1:
					if v, wf := reg.swap(1); v != 1 || !wf {
						wrongRead.Add(1)
					}
				case 2:
					if !reg.cas(1, 1) {
						casFailed.Add(1)
					}
				}
				if v, wf := reg.load(); v != 1 || !wf {
					wrongRead.Add(1)
				}
			}
		}()
	}
	close(start)
	if !joinOrDeadlock(c, &wg, "reg:same-value", "goroutines writing one and the same value", nil) {
		return
	}
	c.Count("same_value_rounds", 1)
	c.Count("same_value_calls", int64(ng*per*2))
	if n := casFailed.Load(); n != 0 {
		c.Violate("reg:CompareAndSwap-fails-on-equal-value["+reg.name+"]", fmt.Sprintf("AtomicValue[%s] held the value 1 throughout (every goroutine only ever wrote 1), yet %d of the CompareAndSwap(1,1) calls returned false (%d goroutines, %d calls each)", reg.name, n, ng, per), nil)
		return
	}
	if n := wrongRead.Load(); n != 0 {
		c.Violate("reg:same-value-read-differs["+reg.name+"]", fmt.Sprintf("AtomicValue[%s]: only the value 1 was ever written, yet %d Load/Swap calls returned something else", reg.name, n), nil)
		return
	}
	c.NonTrivial(core.Mix(c.Seed, uint64(ng), uint64(per)))
}

func c18seqSweep(c *core.Ctx) {
	alphabet := []pin{{Op: opLoad}, {Op: opStore, Arg: 0}, {Op: opStore, Arg: 1}, {Op: opStore, Arg: 2}, {Op: opSwap, Arg: 0}, {Op: opSwap, Arg: 1},
		{Op: opCAS, Arg: 0, Arg2: 1}, {Op: opCAS, Arg: 1, Arg2: 0}, {Op: opCAS, Arg: 1, Arg2: 2}, {Op: opCAS, Arg: 2, Arg2: 2}, {Op: opCAS, Arg: 0, Arg2: 0}}
	name := func(i pin) string {
		switch i.Op {
		case opLoad:
			return "Load()"
		case opStore:
			return fmt.Sprintf("Store(%d)", i.Arg)
		case opSwap:
			return fmt.Sprintf("Swap(%d)", i.Arg)
		}
		return fmt.Sprintf("CompareAndSwap(%d,%d)", i.Arg, i.Arg2)
	}
	n := len(alphabet)
	seqs := 0
	for kind := 0; kind < 4; kind++ {
		for L := 1; L <= 4; L++ {
			total := 1
			for i := 0; i < L; i++ {
				total *= n
			}
			for code := 0; code < total; code++ {
				reg := newReg(kind)
				// a second register of the same type is written between the calls: two
				// values must not share anything
				other := newReg(kind)
				otherVal := int64(0)
				var st any = regUnset
				var hist []string
				x := code
				for k := 0; k < L; k++ {
					in := alphabet[x%n]
					x /= n
					var out pout
					wf := true
					switch in.Op {
					case opLoad:
						out.Val, wf = reg.load()
					case opStore:
						reg.store(in.Arg)
					case opSwap:
						out.Val, wf = reg.swap(in.Arg)
					case opCAS:
						out.Ok = reg.cas(in.Arg, in.Arg2)
					}
					hist = append(hist, fmt.Sprintf("%s -> (%d,%v)", name(in), out.Val, out.Ok))
					ok, next := regStep(st, in, out)
					if !ok || !wf {
						c.Violate("seq:register-model["+reg.name+"]", fmt.Sprintf("on a fresh AtomicValue[%s] (0 stands for the zero value) the sequential calls %v do not behave as one register: the last result is wrong", reg.name, hist), map[string]any{"calls": hist})
						return
					}
					st = next
					if prev, wf2 := other.swap(otherVal + 7); prev != otherVal || !wf2 {
						c.Violate("seq:two-registers-interfere["+reg.name+"]", fmt.Sprintf("a second AtomicValue[%s], written only by Swap calls of its own, returned %d from Swap where it held %d; calls on the first one so far: %v", reg.name, prev, otherVal, hist), map[string]any{"calls": hist})
						return
					}
					otherVal += 7
				}
				seqs++
			}
		}
	}
	c.Count("reg_sequential_sweeps_completed", 1)
	c.Count("reg_sequential_sequences", int64(seqs))
	c.NonTrivial(core.Mix(c.Seed, 1818))
}

func c18reg(c *core.Ctx, record bool) {
	if record && c.Index%100 == 7 {
		if !c18exactValues(c) {
			return
		}
		c18seqSweep(c)
		return
	}
	if c.Index%10 == 9 {
		c18sameValue(c)
		return
	}
	if c.Index%5 == 4 {
		c18counter(c)
		return
	}
	r := c.R
	kind := r.Intn(3)
	reg := newReg(kind)
	ng, nops := r.Range(2, 8), r.Range(10, 100)
	if !record {
		ng, nops = r.Range(2, 32), r.Range(10, 200)
	} else if c.Build != "plain" {
		ng, nops = r.Range(2, 6), r.Range(10, 50)
	}
	// a quarter of the recorded rounds use a tiny value universe {1,2,3}: values
	// repeat, so "the current value equals old" can become true again through a
	// different Store - unique values would never exercise that
	small := record && r.Chance(1, 4)
	if small {
		ng, nops = r.Range(2, 4), r.Range(5, 20)
	}
	storeFirst := r.Bool() // half of the rounds start from a stored value
	init := regUnset
	if storeFirst {
		reg.store(1 << 40)
		init = 1 << 40
		if small {
			reg.store(1)
			init = 1
		}
	}
	var clk *clock
	if record {
		clk = &clock{atomic: true}
	}
	logs := make([][]rec, ng)
	torn := make([]string, ng)
	var wg sync.WaitGroup
	start := make(chan struct{})
	for w := 0; w < ng; w++ {
		w := w
		rr := r.Fork()
		wg.Add(1)
		go func() {
			defer wg.Done()
			<-start
			var log []rec
			lastSeen := int64(0)
			n := int64(0)
			for i := 0; i < nops; i++ {
				n++
				id := int64(w+1)<<32 | n
				if small {
					id = int64(1 + rr.Intn(3))
				}
				o := rec{Client: w + 1}
				if record {
					o.Call = clk.now()
				}
				ok := true
				switch rr.Pick(30, 20, 20, 30) {
				case 0:
					o.Op = opLoad
					o.Val, ok = reg.load()
					lastSeen = o.Val
				case 1:
					o.Op, o.Arg = opStore, id
					reg.store(id)
					lastSeen = id
				case 2:
					o.Op, o.Arg = opSwap, id
					o.Val, ok = reg.swap(id)
					lastSeen = id
				case 3:
					o.Op, o.Arg, o.Arg2 = opCAS, lastSeen, id
					if rr.Chance(1, 5) {
						o.Arg = int64(w+1)<<32 | 9999999 // a value nobody stores
					}
					if small {
						o.Arg = int64(1 + rr.Intn(3))
					}
					o.Ok = reg.cas(o.Arg, o.Arg2)
					if o.Ok {
						lastSeen = id
					}
				}
				if record {
					o.Ret = clk.now()
				}
				if !ok {
					torn[w] = fmt.Sprintf("%s returned a torn / malformed value (id %d)", opNames[o.Op], o.Val)
				}
				if record {
					log = append(log, o)
				}
				if rr.Chance(1, 8) {
					runtime.Gosched()
				}
			}
			logs[w] = log
		}()
	}
	close(start)
	if !joinOrDeadlock(c, &wg, "reg", "a round of concurrent AtomicValue calls", map[string]any{"type": reg.name, "goroutines": ng}) {
		return
	}
	mode := "reg"
	if !record {
		mode = "race"
	}
	c.Count(mode+"_rounds", 1)
	if small {
		c.Count(mode+"_rounds_small_universe", 1)
	}
	c.Count(mode+"_type_"+reg.name, 1)
	c.Count(mode+"_calls", int64(ng*nops))
	extra := map[string]any{"type": reg.name, "goroutines": ng, "ops_each": nops, "store_before_start": storeFirst, "gomaxprocs": runtime.GOMAXPROCS(0)}
	for _, t := range torn {
		if t != "" {
			c.Violate(mode+":torn-value["+reg.name+"]", t, extra)
			return
		}
	}
	if !record {
		c.NonTrivial(core.Mix(c.Seed, uint64(ng), uint64(nops)))
		if c.WantSample() {
			c.Sample(map[string]any{"mode": mode, "type": reg.name, "goroutines": ng, "ops_each": nops})
		}
		return
	}
	var h []rec
	for _, l := range logs {
		h = append(h, l...)
	}
	ops := make([]porcupine.Operation, 0, len(h)+1)
	maxT := int64(0)
	for _, o := range h {
		ops = append(ops, porcupine.Operation{ClientId: o.Client, Input: pin{Op: o.Op, Arg: o.Arg, Arg2: o.Arg2}, Output: pout{Val: o.Val, Ok: o.Ok}, Call: o.Call, Return: o.Ret})
		if o.Ret > maxT {
			maxT = o.Ret
		}
	}
	// a final Load after quiescence pins the end state
	fv, fok := reg.load()
	if !fok {
		c.Violate("reg:torn-value["+reg.name+"]", "final Load returned a malformed value", extra)
		return
	}
	ops = append(ops, porcupine.Operation{ClientId: 999, Input: pin{Op: opLoad}, Output: pout{Val: fv}, Call: maxT + 1, Return: maxT + 2})
	m := porcupine.Model{Init: func() interface{} { return init }, Step: func(st, in, out interface{}) (bool, interface{}) { return regStep(st, in, out) },
		DescribeOperation: func(in, out interface{}) string { return describeOp(in, out) }}
	res, _ := porcupine.CheckOperationsVerbose(m, ops, 20*time.Second)
	c.Count("reg_histories_checked", 1)
	c.Count("reg_operations_checked", int64(len(ops)))
	c.Count("reg_overlapping_call_pairs", int64(countOverlaps(h)))
	switch res {
	case porcupine.Illegal:
		extra["history"] = histStrings(h, 500)
		kinds := map[string]int{}
		for _, o := range h {
			kinds[opNames[o.Op]]++
		}
		c.Violate("reg:not-linearizable["+reg.name+"]", fmt.Sprintf("the recorded Load/Store/Swap/CompareAndSwap history is not linearizable to one atomic register (%v)", kinds), extra)
		return
	case porcupine.Unknown:
		c.Inconclusive("porcupine timed out on a register history")
	}
	if countOverlaps(h) > 0 {
		c.NonTrivial(histHash(h))
	}
	if c.WantSample() {
		c.Sample(map[string]any{"mode": mode, "type": reg.name, "goroutines": ng, "ops_each": nops, "history_prefix": histStrings(h, 16)})
	}
}

// ------------------------------------------------------------------ Pool

type tok struct {
	id     int64
	owned  atomic.Int32
	minted bool
	home   int      // which pool minted it (items must never migrate between pools)
	data   [4]int64 // written by the holder: a second holder would race on it
}

// c18poolLong: ONE pool used for a long time (150k..300k calls, well past 2^16 and 2^17
// Puts) by one or two goroutines that keep between 0 and 16 items at once: counters
// and ring positions inside a re-implemented pool wrap here and nowhere else.
func c18poolLong(c *core.Ctx) {
	r := c.R
	var p sync2.Pool[*tok]
	p.New = func() *tok { return &tok{minted: true} }
	ng := 1 + r.Intn(2)
	total := r.Range(150000, 300000)
	maxHeld := r.Range(6, 16)
	var two, foreign, nilNew, puts atomic.Int64
	var wg sync.WaitGroup
	for w := 0; w < ng; w++ {
		rr := r.Fork()
		wg.Add(1)
		go func() {
			defer wg.Done()
			var held []*tok
			hoardAt := rr.Range(1000, total/ng/2)
			for i := 0; i < total/ng; i++ {
				if i == hoardAt {
					// hoard: 100..400 Gets in a row (long runs of misses), all items held at
					// once, then all given back
					n := rr.Range(100, 400)
					start := len(held)
					for k := 0; k < n; k++ {
						t := p.Get()
						if t == nil {
							nilNew.Add(1)
							continue
						}
						if !t.minted {
							foreign.Add(1)
						}
						if !t.owned.CompareAndSwap(0, 1) {
							two.Add(1)
							continue
						}
						held = append(held, t)
					}
					for _, t := range held[start:] {
						t.data[0]++
						t.owned.Store(0)
						p.Put(t)
						puts.Add(1)
					}
					held = held[:start]
					continue
				}
				// long climbs and descents: the pool runs nearly empty and nearly full in turn
				up := (i/(maxHeld*3))%2 == 0
				if len(held) > 0 && (len(held) >= maxHeld || rr.Chance(1, 2) != up || rr.Chance(1, 8)) {
					k := rr.Intn(len(held))
					t := held[k]
					held[k] = held[len(held)-1]
					held = held[:len(held)-1]
					t.data[0]++
					t.owned.Store(0)
					p.Put(t)
					puts.Add(1)
					continue
				}
				t := p.Get()
				if t == nil {
					nilNew.Add(1)
					continue
				}
				if !t.minted {
					foreign.Add(1)
				}
				if !t.owned.CompareAndSwap(0, 1) {
					two.Add(1)
					continue
				}
				t.data[1] = int64(i)
				held = append(held, t)
			}
			for _, t := range held {
				t.owned.Store(0)
				p.Put(t)
			}
		}()
	}
	wg.Wait()
	c.Count("pool_long_histories", 1)
	c.Count("pool_puts", puts.Load())
	c.Max("pool_max_puts_on_one_pool", puts.Load())
	extra := map[string]any{"goroutines": ng, "calls": total, "max_items_held_at_once": maxHeld, "puts": puts.Load()}
	if n := two.Load(); n > 0 {
		c.Violate("pool:two-holders[long history]", fmt.Sprintf("%d Get calls returned an item that a Get caller still held (one pool, %d Puts so far)", n, puts.Load()), extra)
		return
	}
	if n := foreign.Load(); n > 0 {
		c.Violate("pool:invented-item[long history]", fmt.Sprintf("%d Get calls returned an item that was neither Put nor created by New", n), extra)
		return
	}
	if n := nilNew.Load(); n > 0 {
		c.Violate("pool:nil-with-New[long history]", fmt.Sprintf("%d Get calls returned nil although New is set", n), extra)
		return
	}
	c.NonTrivial(core.Mix(c.Seed, uint64(total), 18))
}

// c18poolNewField: the exported New field may be set, replaced and cleared between calls
// (single goroutine): a Get that misses uses the New of that moment.
func c18poolNewField(c *core.Ctx) {
	var p sync2.Pool[*tok]
	if g := p.Get(); g != nil {
		c.Violate("pool:New-nil", "Get on a Pool without New returned a non-nil item", nil)
		return
	}
	p.New = func() *tok { return &tok{minted: true, home: 1} }
	a := p.Get()
	p.New = func() *tok { return &tok{minted: true, home: 2} }
	b := p.Get() // a is still held: this is a miss
	if a == nil || b == nil || a.home != 1 || b.home != 2 || a == b {
		c.Violate("pool:New-reassigned", fmt.Sprintf("New was replaced between two Get calls that both miss: the first item comes from New #%d, the second from New #%d (expected 1 and 2)", homeOf(a), homeOf(b)), nil)
		return
	}
	p.New = nil
	if g := p.Get(); g != nil {
		c.Violate("pool:New-nil", "after New was set back to nil a Get that misses returned a non-nil item", nil)
		return
	}
	c.Count("pool_new_field_scenarios", 1)
	c.NonTrivial(core.Mix(c.Seed, 1808))
}

func homeOf(t *tok) int {
	if t == nil {
		return -1
	}
	return t.home
}

func c18pool(c *core.Ctx) {
	r := c.R
	if c.Index%40 == 7 {
		c18poolLong(c)
		return
	}
	if c.Index%40 == 8 {
		c18poolNewField(c)
		return
	}
	withNew := r.Chance(3, 4)
	// one pool, or (a third of the rounds) two pools of the same type used side by
	// side: an item belongs to the pool that minted it and must never come out of the other
	var pools [2]sync2.Pool[*tok]
	np := 1
	if r.Chance(1, 3) {
		np = 2
	}
	if withNew {
		// no shared counter in here: the race detector treats atomics as
		// synchronisation, and a counter touched by every Get would order the
		// callers and hide races between them
		// New may be fast, may yield, or may take a while (20..200 us): two Get calls that
		// both miss must both call it and get an item each, however long it runs
		slow := r.Intn(3)
		nap := time.Duration(r.Range(20, 200)) * time.Microsecond
		mk := func(home int) func() *tok {
			return func() *tok {
				switch slow {
				case 1:
					runtime.Gosched()
					runtime.Gosched()
				case 2:
					time.Sleep(nap)
				}
				return &tok{minted: true, home: home}
			}
		}
		pools[0].New, pools[1].New = mk(0), mk(1)
		c.Count(fmt.Sprintf("pool_rounds_New_kind_%d", slow), 1)
	}
	ng, nops := r.Range(2, 16), r.Range(10, 200)
	type tally struct {
		twoHolders, foreign, nilWithNew, gets, puts, reused, fresh int64
		pad                                                        [8]int64
	}
	tl := make([]tally, ng)
	var wg sync.WaitGroup
	start := make(chan struct{})
	stopGC := make(chan struct{})
	gcDone := make(chan struct{})
	withGC := r.Chance(1, 3)
	go func() {
		defer close(gcDone)
		if !withGC {
			return
		}
		for {
			select {
			case <-stopGC:
				return
			default:
				runtime.GC()
				time.Sleep(200 * time.Microsecond)
			}
		}
	}()
	for w := 0; w < ng; w++ {
		w := w
		rr := r.Fork()
		wg.Add(1)
		go func() {
			defer wg.Done()
			<-start
			t0 := &tl[w]
			var held []*tok
			for i := 0; i < nops; i++ {
				if len(held) > 0 && rr.Chance(1, 2) {
					t := held[len(held)-1]
					held = held[:len(held)-1]
					t.data[0]++ // last touch by the holder
					t.owned.Store(0)
					pools[t.home].Put(t)
					t0.puts++
					continue
				}
				pi := rr.Intn(np)
				t := pools[pi].Get()
				t0.gets++
				if t == nil {
					if withNew {
						t0.nilWithNew++
						continue
					}
					// New == nil: the zero value. Mint our own so that Put has something to pool.
					t = &tok{id: int64(w+1)<<32 | int64(i), minted: true, home: pi}
				} else {
					if !t.minted || t.home != pi {
						t0.foreign++
					}
					if t.data[0] > 0 {
						t0.reused++
					} else {
						t0.fresh++
					}
				}
				if !t.owned.CompareAndSwap(0, 1) {
					t0.twoHolders++
					continue
				}
				t.data[1] = int64(w) // plain write by the exclusive holder
				held = append(held, t)
				if rr.Chance(1, 6) {
					runtime.Gosched()
				}
			}
			for _, t := range held {
				t.owned.Store(0)
				pools[t.home].Put(t)
			}
		}()
	}
	close(start)
	wg.Wait()
	close(stopGC)
	<-gcDone
	var sum tally
	for _, t := range tl {
		sum.twoHolders += t.twoHolders
		sum.foreign += t.foreign
		sum.nilWithNew += t.nilWithNew
		sum.gets += t.gets
		sum.puts += t.puts
		sum.reused += t.reused
		sum.fresh += t.fresh
	}
	c.Count("pool_rounds", 1)
	if np == 2 {
		c.Count("pool_rounds_two_pools_side_by_side", 1)
	}
	c.Count("pool_gets", sum.gets)
	c.Count("pool_puts", sum.puts)
	c.Count("pool_items_reused", sum.reused)
	c.Count("pool_items_fresh_from_New", sum.fresh)
	if withNew {
		c.Count("pool_rounds_with_New", 1)
	} else {
		c.Count("pool_rounds_without_New", 1)
	}
	if withGC {
		c.Count("pool_rounds_with_forced_GC", 1)
	}
	extra := map[string]any{"goroutines": ng, "ops_each": nops, "with_New": withNew, "forced_gc": withGC, "gomaxprocs": runtime.GOMAXPROCS(0)}
	if n := sum.twoHolders; n > 0 {
		c.Violate("pool:two-holders", fmt.Sprintf("%d Get calls returned an item that another Get caller still held", n), extra)
		return
	}
	if n := sum.foreign; n > 0 {
		c.Violate("pool:invented-item", fmt.Sprintf("%d Get calls returned an item that was neither Put into THIS pool nor created by its New (pools in use: %d)", n, np), extra)
		return
	}
	if n := sum.nilWithNew; n > 0 {
		c.Violate("pool:nil-with-New", fmt.Sprintf("%d Get calls returned nil although New is set", n), extra)
		return
	}
	c.NonTrivial(core.Mix(c.Seed, uint64(ng), uint64(nops)))
	if c.WantSample() {
		c.Sample(map[string]any{"mode": "pool", "goroutines": ng, "ops_each": nops, "with_New": withNew, "forced_gc": withGC, "gets": sum.gets, "reused": sum.reused})
	}
}
