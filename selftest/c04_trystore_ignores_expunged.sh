python3 - <<'PY'
p='/repo/sync2/map.go'
s=open(p).read()
a='''		if p == expunged {
			return false
		}
		verifYield(9)'''
b='''		verifYield(9)'''
assert s.count(a)==1, s.count(a)
open(p,'w').write(s.replace(a,b))
PY
