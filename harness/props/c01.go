package props

import (
	"fmt"
	"math"
	"sort"
	"strings"

	"gopkg.in/typ.v4/avl"
	"verifharness/internal/core"
)

// C01 — AVL tree is a sorted multiset under every operation history.
// Lock-step reference-model monitor: every call is mirrored on a sorted slice,
// and after EVERY call the whole observable state of EVERY live tree (original
// and clones) is re-read through the public API and compared.

func init() { register("C01", runC01) }

type pair16 struct{ A, B int16 }

func cmpInt(a, b int) int {
	switch {
	case a < b:
		return -1
	case a > b:
		return 1
	}
	return 0
}

// c01sweep: ALL histories of up to 5 calls that start with the call number `first` of a
// 9-call alphabet (Add 0/1/2, Remove 0/1/2, Clear, Clone-and-continue-on-the-clone,
// read-only walk) from a fresh tree: the first-use, empty-tree and tiny-tree corners,
// exhaustively. After every call: Len, in-order slice, Contains(0..2) against the
// model; at the end of every history the full three-traversal check, and every tree
// that was cloned from must still hold what it held.
func c01sweep(c *core.Ctx, first int) {
	const nOps = 9
	name := func(op int) string {
		switch {
		case op < 3:
			return fmt.Sprintf("Add(%d)", op)
		case op < 6:
			return fmt.Sprintf("Remove(%d)", op-3)
		case op == 6:
			return "Clear()"
		case op == 7:
			return "Clone()+continue-on-clone"
		}
		return "walks"
	}
	histories := 0
	for L := 1; L <= 5; L++ {
		total := 1
		for i := 1; i < L; i++ {
			total *= nOps
		}
		for code := 0; code < total; code++ {
			ops := []int{first}
			for x, i := code, 1; i < L; i++ {
				ops = append(ops, x%nOps)
				x /= nOps
			}
			tr := avl.New(cmpInt)
			t := &tr
			var model []int
			type frozen struct {
				t     *avl.Tree[int]
				model []int
			}
			var olds []frozen
			var hist []string
			fail := func(sig, msg string) {
				c.Violate("sweep:"+sig, fmt.Sprintf("%s [exhaustive sweep, history %v from a fresh tree]", msg, hist), map[string]any{"history": hist})
			}
			for _, op := range ops {
				hist = append(hist, name(op))
				var p bool
				var pv any
				switch {
				case op < 3:
					p, pv = core.Catch(func() { t.Add(op) })
					i := sort.SearchInts(model, op)
					model = append(model[:i:i], append([]int{op}, model[i:]...)...)
				case op < 6:
					v := op - 3
					i := sort.SearchInts(model, v)
					want := i < len(model) && model[i] == v
					var got bool
					p, pv = core.Catch(func() { got = t.Remove(v) })
					if !p && got != want {
						fail("Remove:return", fmt.Sprintf("Remove(%d) returned %v, the multiset is %v", v, got, model))
						return
					}
					if want {
						model = append(model[:i:i], model[i+1:]...)
					}
				case op == 6:
					p, pv = core.Catch(func() { t.Clear() })
					model = nil
				case op == 7:
					var cl avl.Tree[int]
					p, pv = core.Catch(func() { cl = t.Clone() })
					olds = append(olds, frozen{t, append([]int(nil), model...)})
					t = &cl
				default:
					var a, b, cc []int
					p, pv = core.Catch(func() {
						// which walk comes first rotates with the position in the history
						ws := []func(){
							func() { t.WalkInOrder(func(v int) { a = append(a, v) }) },
							func() { t.WalkPreOrder(func(v int) { b = append(b, v) }) },
							func() { t.WalkPostOrder(func(v int) { cc = append(cc, v) }) },
						}
						for k := 0; k < 3; k++ {
							ws[(k+len(hist)+code)%3]()
						}
					})
					if !p && (!eqSlice(a, model) || !sameMultiset(b, model) || !sameMultiset(cc, model)) {
						fail("walks", fmt.Sprintf("walks give in=%v pre=%v post=%v, the multiset is %v", a, b, cc, model))
						return
					}
				}
				if p {
					fail("panic", fmt.Sprintf("%s panicked: %v", name(op), pv))
					return
				}
				// a quarter of the histories are observed only by their own walk steps and at
				// the end (a call that looks at the tree may also repair it)
				if (code+L)%4 == 3 && len(hist) < len(ops) {
					continue
				}
				var in []int
				var ln int
				var has [3]bool
				if p, pv := core.Catch(func() {
					if (code+len(hist))%2 == 0 {
						post := t.SlicePostOrder()
						if !sameMultiset(post, model) {
							panic(fmt.Sprintf("SlicePostOrder (first observer after %s) gives %v, the multiset is %v", hist[len(hist)-1], post, model))
						}
					}
					ln, in = t.Len(), t.SliceInOrder()
					for v := 0; v < 3; v++ {
						has[v] = t.Contains(v)
					}
				}); p {
					fail("panic-in-observation", fmt.Sprintf("Len/SliceInOrder/Contains panicked: %v", pv))
					return
				}
				if ln != len(model) || !eqSlice(in, model) {
					fail("contents", fmt.Sprintf("Len()=%d SliceInOrder=%v, the multiset is %v", ln, in, model))
					return
				}
				for v := 0; v < 3; v++ {
					i := sort.SearchInts(model, v)
					if has[v] != (i < len(model) && model[i] == v) {
						fail("Contains", fmt.Sprintf("Contains(%d)=%v, the multiset is %v", v, has[v], model))
						return
					}
				}
			}
			olds = append(olds, frozen{t, model})
			for _, o := range olds {
				var in, pre, post []int
				if p, pv := core.Catch(func() { in, pre, post = o.t.SliceInOrder(), o.t.SlicePreOrder(), o.t.SlicePostOrder() }); p {
					fail("panic-in-observation", fmt.Sprintf("Slice* panicked: %v", pv))
					return
				}
				if !eqSlice(in, o.model) || o.t.Len() != len(o.model) {
					fail("clone-independence", fmt.Sprintf("a tree that was cloned from (or the final tree) holds %v, expected %v", in, o.model))
					return
				}
				if len(in) > 0 && !oneTreeDup(pre, in, post) {
					fail("three-traversals", fmt.Sprintf("no binary tree has pre=%v in=%v post=%v", pre, in, post))
					return
				}
				if s, want := o.t.String(), fmt.Sprint(o.model); s != want {
					fail("String", fmt.Sprintf("String()=%q want %q", s, want))
					return
				}
			}
			histories++
		}
	}
	c.Count("exhaustive_sweep_histories", int64(histories))
	c.Count("exhaustive_sweeps_completed", 1)
	c.NonTrivial(core.Mix(1, uint64(first), 0x5eeb))
	if c.WantSample() {
		c.Sample(map[string]any{"systematic": true, "first_call": name(first), "histories_enumerated": histories, "what": "all histories of length <= 5 over 9 calls from a fresh tree"})
	}
}

// c01floats: float values with both zeros: -0.0 == +0.0 is one value for Contains and
// Remove (the comparator, built from < and >, is a total order consistent with ==).
func c01floats(c *core.Ctx) {
	nz := math.Copysign(0, -1)
	cmp := func(a, b float64) int {
		switch {
		case a < b:
			return -1
		case a > b:
			return 1
		}
		return 0
	}
	for _, ordered := range []bool{false, true} {
		tr := avl.New(cmp)
		if ordered {
			tr = avl.NewOrdered[float64]()
		}
		for _, v := range []float64{3, nz, -2, 7, math.Inf(-1)} {
			tr.Add(v)
		}
		if !tr.Contains(0.0) || !tr.Contains(nz) || tr.Len() != 5 {
			c.Violate("floats:Contains-signed-zero", fmt.Sprintf("a tree holding -0.0: Contains(+0.0)=%v Contains(-0.0)=%v Len=%d (ordered=%v)", tr.Contains(0.0), tr.Contains(nz), tr.Len(), ordered), nil)
			return
		}
		tr.Add(0.0)
		if in := tr.SliceInOrder(); len(in) != 6 || in[2] != 0 || in[3] != 0 {
			c.Violate("floats:in-order", fmt.Sprintf("in-order of {-Inf,-2,-0,+0,3,7} is %v", in), nil)
			return
		}
		if !tr.Remove(0.0) || !tr.Remove(nz) || tr.Remove(0.0) || tr.Contains(nz) || tr.Len() != 4 {
			c.Violate("floats:Remove-signed-zero", fmt.Sprintf("with -0.0 and +0.0 stored, two Removes of a zero must succeed and the third fail; Len is now %d (ordered=%v)", tr.Len(), ordered), nil)
			return
		}
	}
	c.Count("float_value_cases", 1)
	c.NonTrivial(core.Mix(c.Seed, 101))
}

func runC01(c *core.Ctx) {
	if c.Index == 9 {
		c01floats(c)
		return
	}
	if c.Index < 9 {
		c01sweep(c, int(c.Index))
		return
	}
	switch c.R.Intn(8) {
	case 7: // comparators that return magnitudes, not just -1/0/+1 (a total order all the same)
		n := c.R.Range(4, 40)
		u := make([]int, n)
		for i := range u {
			u[i] = c.R.Intn(100000) - 50000
		}
		u = dedup(u)
		if c.R.Bool() {
			avlCase(c, "int-magnitude-cmp", u, func(a, b int) int { return a - b }, true)
		} else {
			avlCase(c, "int-magnitude-cmp", u, func(a, b int) int { return cmpInt(a, b) * (1 << 40) }, true)
		}
	case 6: // big trees in extreme shapes: sparsest (Fibonacci) AVL shapes built without rotations, sorted runs, random
		r := c.R
		bigDen := 6 // trees beyond 1024 values: 1 in 6 of this family (thorough: 1 in 40, the case count is 500 times higher)
		if c.Tier == "thorough" || c.Mode == "par" {
			bigDen = 40
		}
		var pre []int
		switch r.Intn(3) {
		case 0:
			pre = fibLevelOrder(r.Range(3, 11)) // 4..232 values, maximal height for the size
		case 1:
			n := r.Range(40, 400)
			if r.Chance(1, bigDen) {
				n = r.Range(1100, 2600) // beyond 1024 and 2048
			}
			for i := 0; i < n; i++ {
				pre = append(pre, i)
			}
			if r.Bool() {
				for i, j := 0, len(pre)-1; i < j; i, j = i+1, j-1 {
					pre[i], pre[j] = pre[j], pre[i]
				}
			}
		case 2:
			n := r.Range(40, 400)
			if r.Chance(1, bigDen) {
				n = r.Range(1100, 2600)
			}
			for _, i := range r.Perm(n) {
				pre = append(pre, i)
			}
		}
		u := make([]int, len(pre)+3)
		for i := range u {
			u[i] = i - 1
		}
		avlCasePre(c, "int-big", u, cmpInt, pre)
	case 0: // dense ints: duplicates everywhere
		u := make([]int, 8)
		for i := range u {
			u[i] = i
		}
		avlCase(c, "int-dense", u, cmpInt, true)
	case 1: // sparse 64-bit ints
		n := c.R.Range(8, 60)
		u := make([]int, n)
		for i := range u {
			u[i] = int(c.R.Uint64())
		}
		avlCase(c, "int-sparse", u, cmpInt, true)
	case 2: // strings
		n := c.R.Range(3, 30)
		u := make([]string, n)
		for i := range u {
			u[i] = fmt.Sprintf("%c%c", 'a'+c.R.Intn(6), 'a'+c.R.Intn(6))
		}
		u = dedup(u)
		avlCase(c, "string", u, func(a, b string) int { return strings.Compare(a, b) }, true)
	case 3: // two-field struct, lexicographic comparator
		var u []pair16
		for a := int16(-1); a <= 1; a++ {
			for b := int16(0); b <= 2; b++ {
				u = append(u, pair16{a, b})
			}
		}
		avlCase(c, "struct", u, func(x, y pair16) int {
			if x.A != y.A {
				return cmpInt(int(x.A), int(y.A))
			}
			return cmpInt(int(x.B), int(y.B))
		}, false)
	case 4: // descending comparator: a non-default order must survive Clone
		n := c.R.Range(4, 24)
		u := make([]int, n)
		for i := range u {
			u[i] = c.R.Intn(3*n) - n
		}
		u = dedup(u)
		avlCase(c, "int-desc", u, func(a, b int) int { return cmpInt(b, a) }, false)
	case 5: // NewOrdered (default comparator path)
		n := c.R.Range(2, 12)
		u := make([]int, n)
		for i := range u {
			u[i] = i * 3
		}
		avlCase(c, "int-ordered", u, nil, true)
	}
}

func dedup[T comparable](u []T) []T {
	seen := map[T]bool{}
	var out []T
	for _, v := range u {
		if !seen[v] {
			seen[v] = true
			out = append(out, v)
		}
	}
	return out
}

type avlLive[T comparable] struct {
	t     *avl.Tree[T]
	model []T // kept sorted under cmp
}

func avlCase[T comparable](c *core.Ctx, tname string, univ []T, cmp func(a, b T) int, ascending bool) {
	avlCasePre(c, tname, univ, cmp, nil)
}

// avlCasePre: pre is inserted first (observed every 16th insertion and at the end).
func avlCasePre[T comparable](c *core.Ctx, tname string, univ []T, cmp func(a, b T) int, pre []T) {
	r := c.R
	useOrdered := cmp == nil
	if useOrdered {
		// only reached with T=int
		cmp = any(cmpInt).(func(a, b T) int)
	}
	newTree := func() *avl.Tree[T] {
		if useOrdered {
			t := any(avl.NewOrdered[int]()).(avl.Tree[T])
			return &t
		}
		t := avl.New(cmp)
		return &t
	}
	live := []*avlLive[T]{{t: newTree()}}
	nops := r.Range(1, 150)
	if c.Tier == "thorough" && r.Chance(1, 50) {
		nops = r.Range(150, 1500)
	}
	var hist []string
	var hh uint64 = core.HashString(tname)
	nontrivial := false
	fail := func(sig, msg string) {
		c.Violate(sig, msg+fmt.Sprintf(" [type=%s after %d ops]", tname, len(hist)),
			map[string]any{"type": tname, "universe": fmt.Sprint(univ), "history": append([]string{}, hist...)})
	}
	insertSorted := func(m []T, v T) []T {
		// equal values: position among equals is irrelevant (they are identical)
		i := sort.Search(len(m), func(i int) bool { return cmp(m[i], v) > 0 })
		m = append(m, v)
		copy(m[i+1:], m[i:])
		m[i] = v
		return m
	}
	count := func(m []T, v T) int {
		n := 0
		for _, x := range m {
			if x == v {
				n++
			}
		}
		return n
	}
	removeOne := func(m []T, v T) []T {
		for i, x := range m {
			if x == v {
				return append(m[:i:i], m[i+1:]...)
			}
		}
		return m
	}
	// full observation of one tree against its model
	var keptRes, keptSnap []T // a slice returned by an earlier observation (any tree), and what it held
	checkTree := func(li int, op string) bool {
		l := live[li]
		var in, pre, post []T
		var ln int
		if p, v := core.Catch(func() {
			// the four observers in a rotating order: each is the first to look at a tree
			// after a mutation in a quarter of the observations
			obs := []func(){
				func() { ln = l.t.Len() },
				func() { in = l.t.SliceInOrder() },
				func() { pre = l.t.SlicePreOrder() },
				func() { post = l.t.SlicePostOrder() },
			}
			first := r.Intn(4)
			for k := 0; k < 4; k++ {
				obs[(first+k)%4]()
			}
		}); p {
			fail(op+":panic-in-observation", fmt.Sprintf("observing tree %d after %s panicked: %v", li, op, v))
			return false
		}
		c.Count("observations", 1)
		// results are the caller's: one kept from an earlier observation must not have changed
		if keptRes != nil && !eqSlice(keptRes, keptSnap) {
			fail(op+":earlier-result-changed", fmt.Sprintf("a slice returned by an earlier Slice* call held %v; after later calls it holds %v", keptSnap, keptRes))
			return false
		}
		if len(pre) > 0 && r.Chance(1, 4) {
			keptRes = l.t.SlicePreOrder()
			keptSnap = append([]T(nil), keptRes...)
		}
		if ln != len(l.model) {
			fail(op+":Len", fmt.Sprintf("tree %d after %s: Len()=%d, model size %d", li, op, ln, len(l.model)))
			return false
		}
		if !eqSlice(in, l.model) {
			fail(op+":in-order", fmt.Sprintf("tree %d after %s: SliceInOrder=%v, model=%v", li, op, in, l.model))
			return false
		}
		if !sameMultiset(pre, l.model) || !sameMultiset(post, l.model) {
			fail(op+":pre/post-multiset", fmt.Sprintf("tree %d after %s: pre=%v post=%v are not permutations of %v", li, op, pre, post, l.model))
			return false
		}
		// the returned slices are the caller's: overwriting them must not show in any
		// later observation (a cached or shared backing array would)
		if len(in) > 0 && r.Chance(1, 3) {
			ci, cp, co := append([]T{}, in...), append([]T{}, pre...), append([]T{}, post...)
			for i := range in {
				in[i], pre[i], post[i] = univ[0], univ[0], univ[0]
			}
			in, pre, post = ci, cp, co
			c.Count("returned_slices_overwritten", 1)
			if r.Bool() {
				if in2, pre2, post2 := l.t.SliceInOrder(), l.t.SlicePreOrder(), l.t.SlicePostOrder(); !eqSlice(in2, in) || !eqSlice(pre2, pre) || !eqSlice(post2, post) {
					fail(op+":slice-after-overwrite", fmt.Sprintf("tree %d after %s: after the caller overwrote the slices returned by Slice*, the next Slice* calls give in=%v pre=%v post=%v instead of in=%v pre=%v post=%v", li, op, in2, pre2, post2, in, pre, post))
					return false
				}
			}
		}
		// walks == slices; in a quarter of the observations one callback makes nested
		// read-only calls on the same tree (a walker that looks things up), which must
		// neither fail nor disturb the walk in progress
		walks := []func(func(T)){l.t.WalkInOrder, l.t.WalkPreOrder, l.t.WalkPostOrder}
		slicesOf := [][]T{in, pre, post}
		for k, w := range walks {
			var got []T
			nestAt, nestKind := -1, 0
			if len(in) > 0 && r.Chance(1, 4) {
				nestAt, nestKind = r.Intn(len(in)), r.Intn(5)
			}
			nestMsg := ""
			w(func(v T) {
				if len(got) == nestAt {
					c.Count("nested_readonly_calls_in_walker", 1)
					switch nestKind {
					case 0, 1: // a nested walk (same kind / another kind)
						k2 := k
						if nestKind == 1 {
							k2 = (k + 1 + r.Intn(2)) % 3
						}
						var inner []T
						walks[k2](func(v T) { inner = append(inner, v) })
						if !eqSlice(inner, slicesOf[k2]) {
							nestMsg = fmt.Sprintf("nested walk %d gives %v, want %v", k2, inner, slicesOf[k2])
						}
					case 2:
						if a, b, cc := l.t.SliceInOrder(), l.t.SlicePreOrder(), l.t.SlicePostOrder(); !eqSlice(a, in) || !eqSlice(b, pre) || !eqSlice(cc, post) {
							nestMsg = fmt.Sprintf("nested Slice* give in=%v pre=%v post=%v", a, b, cc)
						}
					case 3:
						cl := l.t.Clone()
						if a := cl.SliceInOrder(); !eqSlice(a, in) || cl.Len() != len(in) {
							nestMsg = fmt.Sprintf("nested Clone holds %v (Len %d)", a, cl.Len())
						}
					case 4:
						if l.t.Len() != len(in) || !l.t.Contains(in[r.Intn(len(in))]) || l.t.String() != fmt.Sprint(l.model) {
							nestMsg = "nested Len/Contains/String disagree with the model"
						}
					}
				}
				got = append(got, v)
			})
			want := slicesOf[k]
			if nestMsg != "" {
				fail(op+":nested-read-in-walker", fmt.Sprintf("tree %d after %s: inside the callback of walk %d (position %d): %s", li, op, k, nestAt, nestMsg))
				return false
			}
			if !eqSlice(got, want) {
				sig := op + ":walk-vs-slice"
				if nestAt >= 0 {
					sig = op + ":walk-disturbed-by-nested-read"
				}
				fail(sig, fmt.Sprintf("tree %d after %s: walk %d gives %v, slice gives %v (nested read-only call at position %d, kind %d)", li, op, k, got, want, nestAt, nestKind))
				return false
			}
		}
		if s, want := l.t.String(), fmt.Sprint(l.model); s != want {
			fail(op+":String", fmt.Sprintf("tree %d after %s: String()=%q want %q", li, op, s, want))
			return false
		}
		// one binary tree behind the three traversals
		if len(in) > 0 {
			if isDistinct(in) {
				if msg := oneTreeDistinct(pre, in, post); msg != "" {
					fail(op+":three-traversals", fmt.Sprintf("tree %d after %s: %s (pre=%v in=%v post=%v)", li, op, msg, pre, in, post))
					return false
				}
				c.Count("one_tree_checks_distinct", 1)
			} else if len(in) <= 12 {
				if !oneTreeDup(pre, in, post) {
					fail(op+":three-traversals", fmt.Sprintf("tree %d after %s: no binary tree has pre=%v in=%v post=%v", li, op, pre, in, post))
					return false
				}
				c.Count("one_tree_checks_duplicates", 1)
			}
		}
		// membership over the universe (present AND absent values)
		for _, v := range univ {
			var got bool
			if p, pv := core.Catch(func() { got = l.t.Contains(v) }); p {
				fail(op+":Contains-panic", fmt.Sprintf("tree %d after %s: Contains(%v) panicked: %v", li, op, v, pv))
				return false
			}
			want := count(l.model, v) > 0
			if got != want {
				kind := "false-negative"
				if got {
					kind = "false-positive"
				}
				fail(op+":Contains-"+kind, fmt.Sprintf("tree %d after %s: Contains(%v)=%v, model says %v (in-order %v)", li, op, v, got, want, in))
				return false
			}
		}
		c.Count("contains_checked", int64(len(univ)))
		if len(in) <= 7 && isDistinct(in) {
			c.Distinct("tree_shapes_n_le_7", core.HashString(shapeString(pre, in)))
		}
		c.Max("max_tree_size", int64(len(in)))
		return true
	}
	checkAll := func(op string) bool {
		for i := range live {
			if !checkTree(i, op) {
				return false
			}
		}
		return true
	}
	// Observation cadence: mostly after every call, but a third of the histories
	// are observed only every 2..6 calls (and at the end) - a monitor that always
	// looks after every single mutation never sees state that goes stale only
	// across several mutations (e.g. a cache validated by length alone).
	obsEvery := 1
	if r.Chance(1, 3) {
		obsEvery = r.Range(2, 6)
	}
	c.Count(fmt.Sprintf("observe_every_%d", obsEvery), 1)
	for i, v := range pre {
		hist = append(hist, fmt.Sprintf("t0.Add(%v)", v))
		if p, pv := core.Catch(func() { live[0].t.Add(v) }); p {
			fail("Add:panic", fmt.Sprintf("Add(%v) panicked: %v", v, pv))
			return
		}
		live[0].model = insertSorted(live[0].model, v)
		if i%16 == 15 || i == len(pre)-1 {
			if !checkAll("Add") {
				return
			}
		}
	}
	if len(pre) > 0 {
		c.Count("prebuilt_trees", 1)
		nontrivial = true
	}
	for step := 0; step < nops; step++ {
		li := r.Intn(len(live))
		l := live[li]
		opk := r.Pick(30, 14, 8, 4, 2, 5, 3)
		var op string
		switch opk {
		case 0: // Add
			v := univ[r.Intn(len(univ))]
			op = fmt.Sprintf("t%d.Add(%v)", li, v)
			hist = append(hist, op)
			dup := count(l.model, v) > 0
			if p, pv := core.Catch(func() { l.t.Add(v) }); p {
				fail("Add:panic", fmt.Sprintf("%s panicked: %v", op, pv))
				return
			}
			l.model = insertSorted(l.model, v)
			if dup {
				c.Count("add_duplicate", 1)
				nontrivial = true
			} else {
				c.Count("add_new", 1)
			}
			op = "Add"
		case 1: // Remove present
			if len(l.model) == 0 {
				continue
			}
			v := l.model[r.Intn(len(l.model))]
			op = fmt.Sprintf("t%d.Remove(%v)", li, v)
			hist = append(hist, op)
			var ok bool
			if p, pv := core.Catch(func() { ok = l.t.Remove(v) }); p {
				fail("Remove(present):panic", fmt.Sprintf("%s panicked: %v", op, pv))
				return
			}
			if !ok {
				fail("Remove(present):returned-false", fmt.Sprintf("%s returned false but %v is in the multiset %v", op, v, l.model))
				return
			}
			if count(l.model, v) > 1 {
				c.Count("remove_one_of_duplicates", 1)
			} else {
				c.Count("remove_present", 1)
			}
			l.model = removeOne(l.model, v)
			op = "Remove(present)"
		case 2: // Remove absent
			var cands []T
			for _, v := range univ {
				if count(l.model, v) == 0 {
					cands = append(cands, v)
				}
			}
			if len(cands) == 0 {
				continue
			}
			v := cands[r.Intn(len(cands))]
			op = fmt.Sprintf("t%d.Remove(%v)[absent]", li, v)
			hist = append(hist, op)
			before := [3][]T{l.t.SliceInOrder(), l.t.SlicePreOrder(), l.t.SlicePostOrder()}
			lenBefore := l.t.Len()
			var ok bool
			if p, pv := core.Catch(func() { ok = l.t.Remove(v) }); p {
				fail("Remove(absent):panic", fmt.Sprintf("%s panicked: %v", op, pv))
				return
			}
			if ok {
				fail("Remove(absent):returned-true", fmt.Sprintf("%s returned true but %v is not in %v", op, v, l.model))
				return
			}
			if l.t.Len() != lenBefore {
				fail("Remove(absent):Len-changed", fmt.Sprintf("%s changed Len from %d to %d", op, lenBefore, l.t.Len()))
				return
			}
			after := [3][]T{l.t.SliceInOrder(), l.t.SlicePreOrder(), l.t.SlicePostOrder()}
			for k := range before {
				if !eqSlice(before[k], after[k]) {
					fail("Remove(absent):tree-changed", fmt.Sprintf("%s changed traversal %d from %v to %v", op, k, before[k], after[k]))
					return
				}
			}
			c.Count("remove_absent", 1)
			if len(l.model) > 0 {
				nontrivial = true
			}
			op = "Remove(absent)"
		case 3: // Clear
			op = fmt.Sprintf("t%d.Clear()", li)
			hist = append(hist, op)
			l.t.Clear()
			l.model = nil
			c.Count("clear", 1)
			op = "Clear"
		case 4, 5: // Clone
			op = fmt.Sprintf("t%d.Clone()", li)
			hist = append(hist, op)
			var cl avl.Tree[T]
			if p, pv := core.Catch(func() { cl = l.t.Clone() }); p {
				fail("Clone:panic", fmt.Sprintf("%s of a tree with %d elements panicked: %v", op, len(l.model), pv))
				return
			}
			nl := &avlLive[T]{t: &cl, model: append([]T{}, l.model...)}
			c.Count(fmt.Sprintf("clone_size_%s", sizeClass(len(l.model))), 1)
			if len(l.model) >= 2 {
				nontrivial = true
			}
			if len(live) < 3 {
				live = append(live, nl)
			} else {
				k := r.Intn(len(live))
				if k == li {
					k = (k + 1) % len(live)
				}
				live[k] = nl
			}
			op = "Clone"
		case 6: // explicit read-only calls (they are also made by checkTree)
			op = fmt.Sprintf("t%d.reads", li)
			hist = append(hist, op)
			c.Count("explicit_reads", 1)
			op = "reads"
		}
		hh = core.Mix(hh, core.HashString(hist[len(hist)-1]))
		c.Count("calls", 1)
		if step%obsEvery == obsEvery-1 || step == nops-1 {
			if !checkAll(op) {
				return
			}
		}
	}
	// peak and drain: a tree that has been big is emptied by Remove calls (not Clear)
	// and then used again - whatever is released or reset on the way down must leave a
	// working tree
	if l := live[0]; len(l.model) >= 40 && r.Bool() {
		peak := len(l.model)
		order := r.Perm(len(l.model))
		vals := append([]T{}, l.model...)
		for k, i := range order {
			v := vals[i]
			var ok bool
			if p, pv := core.Catch(func() { ok = l.t.Remove(v) }); p || !ok {
				hist = append(hist, fmt.Sprintf("drain: t0.Remove(%v)", v))
				fail("Remove(present):drain", fmt.Sprintf("draining a tree of %d values: Remove(%v) (number %d) returned %v / panicked: %v", peak, v, k, ok, pv))
				return
			}
			l.model = removeOne(l.model, v)
			if k%64 == 63 && !checkTree(0, "Remove(present)") {
				return
			}
		}
		hist = append(hist, fmt.Sprintf("drain: %d Remove calls empty t0", peak))
		if !checkTree(0, "Remove(present)") {
			return
		}
		for k := 0; k < 5; k++ {
			v := univ[r.Intn(len(univ))]
			hist = append(hist, fmt.Sprintf("t0.Add(%v)", v))
			if p, pv := core.Catch(func() { l.t.Add(v) }); p {
				fail("Add:panic", fmt.Sprintf("Add(%v) on a drained tree panicked: %v", v, pv))
				return
			}
			l.model = insertSorted(l.model, v)
			if !checkTree(0, "Add") {
				return
			}
		}
		c.Count("big_trees_drained_by_remove_then_reused", 1)
	}
	// a storm of Clears on one tree: 300 rounds of (Add a few, Clear), the tree must be
	// empty after every single one (counters of a lazily clearing implementation wrap)
	if r.Chance(1, 12) {
		l := live[0]
		for i := 0; i < 300; i++ {
			for k := 0; k <= i%3; k++ {
				l.t.Add(univ[(i+k)%len(univ)])
			}
			l.t.Clear()
			if l.t.Len() != 0 || len(l.t.SliceInOrder()) != 0 || l.t.Contains(univ[i%len(univ)]) {
				hist = append(hist, fmt.Sprintf("storm: %d x (Add a few, Clear)", i+1))
				fail("Clear:not-empty", fmt.Sprintf("after Clear number %d of a storm of Clears tree 0 is not empty: Len()=%d in-order %v", i+1, l.t.Len(), l.t.SliceInOrder()))
				return
			}
		}
		// a listing, then exactly 256 and exactly 65536 successful changes with no listing in
		// between, then a listing again (a cached listing validated by a small change counter)
		for _, m := range []int{256, 65536} {
			before := l.t.SliceInOrder()
			v := univ[0]
			for i := 0; i < m-1; i++ { // m-1 changes: Add, Remove, Add, ... ends with the value added when m-1 is odd
				if i%2 == 0 {
					l.t.Add(v)
				} else {
					l.t.Remove(v)
				}
			}
			l.t.Add(univ[len(univ)-1]) // change number m
			want := append([]T{}, before...)
			if (m-1)%2 == 1 {
				want = insertSorted(want, v)
			}
			want = insertSorted(want, univ[len(univ)-1])
			if got := l.t.SliceInOrder(); !eqSlice(got, want) || l.t.Len() != len(want) {
				hist = append(hist, fmt.Sprintf("SliceInOrder, %d successful changes, SliceInOrder", m))
				fail("SliceInOrder:stale-after-many-changes", fmt.Sprintf("SliceInOrder after exactly %d successful Add/Remove calls since the previous listing gives %v (Len %d), expected %v", m, got, l.t.Len(), want))
				return
			}
			l.t.Clear()
		}
		l.model = nil
		hist = append(hist, "storm: 300 x (Add a few, Clear); listings 256 and 65536 changes apart")
		c.Count("clear_storms", 1)
		if !checkAll("Clear") {
			return
		}
	}
	if nontrivial {
		c.NonTrivial(hh)
	}
	if c.WantSample() {
		h := hist
		if len(h) > 40 {
			h = h[:40]
		}
		c.Sample(map[string]any{"type": tname, "ops": len(hist), "history_prefix": h})
	}
}

func sizeClass(n int) string {
	switch {
	case n == 0:
		return "0"
	case n == 1:
		return "1"
	case n <= 3:
		return "2-3"
	case n <= 10:
		return "4-10"
	}
	return "11+"
}

func eqSlice[T comparable](a, b []T) bool {
	if len(a) != len(b) {
		return false
	}
	for i := range a {
		if a[i] != b[i] {
			return false
		}
	}
	return true
}

func sameMultiset[T comparable](a, b []T) bool {
	if len(a) != len(b) {
		return false
	}
	m := make(map[T]int, len(a))
	for _, v := range a {
		m[v]++
	}
	for _, v := range b {
		m[v]--
		if m[v] < 0 {
			return false
		}
	}
	return true
}

func isDistinct[T comparable](a []T) bool {
	m := make(map[T]struct{}, len(a))
	for _, v := range a {
		if _, ok := m[v]; ok {
			return false
		}
		m[v] = struct{}{}
	}
	return true
}

// oneTreeDistinct reconstructs the unique binary tree with the given pre- and
// in-order (distinct values) and checks that its post-order is the given one.
// Returns "" when consistent.
func oneTreeDistinct[T comparable](pre, in, post []T) string {
	if len(pre) != len(in) || len(post) != len(in) {
		return "traversals have different lengths"
	}
	pos := make(map[T]int, len(in))
	for i, v := range in {
		pos[v] = i
	}
	pi := 0
	var out []T
	bad := ""
	var rec func(lo, hi int)
	rec = func(lo, hi int) {
		if lo > hi || bad != "" {
			return
		}
		if pi >= len(pre) {
			bad = "pre-order too short for in-order"
			return
		}
		root := pre[pi]
		k, ok := pos[root]
		if !ok || k < lo || k > hi {
			bad = fmt.Sprintf("pre-order element %v is not inside the in-order range it must split", root)
			return
		}
		pi++
		rec(lo, k-1)
		rec(k+1, hi)
		out = append(out, root)
	}
	rec(0, len(in)-1)
	if bad != "" {
		return bad
	}
	if pi != len(pre) {
		return "pre-order has left-over elements"
	}
	if !eqSlice(out, post) {
		return fmt.Sprintf("post-order of the tree given by pre+in is %v, SlicePostOrder is %v", out, post)
	}
	return ""
}

// oneTreeDup decides by backtracking whether SOME binary tree has exactly these
// three traversals (values may repeat). Small inputs only.
func oneTreeDup[T comparable](pre, in, post []T) bool {
	n := len(in)
	if len(pre) != n || len(post) != n {
		return false
	}
	if n == 0 {
		return true
	}
	root := pre[0]
	if post[n-1] != root {
		return false
	}
	for k := 0; k < n; k++ {
		if in[k] != root {
			continue
		}
		if oneTreeDup(pre[1:1+k], in[:k], post[:k]) && oneTreeDup(pre[1+k:], in[k+1:], post[k:n-1]) {
			return true
		}
	}
	return false
}

// shapeString renders the shape given by pre+in (distinct values).
func shapeString[T comparable](pre, in []T) string {
	pos := make(map[T]int, len(in))
	for i, v := range in {
		pos[v] = i
	}
	pi := 0
	var sb strings.Builder
	var rec func(lo, hi int)
	rec = func(lo, hi int) {
		if lo > hi || pi >= len(pre) {
			sb.WriteByte('.')
			return
		}
		k, ok := pos[pre[pi]]
		if !ok || k < lo || k > hi {
			sb.WriteByte('?')
			return
		}
		pi++
		sb.WriteByte('(')
		rec(lo, k-1)
		rec(k+1, hi)
		sb.WriteByte(')')
	}
	rec(0, len(in)-1)
	return sb.String()
}
