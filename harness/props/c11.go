package props

import (
	"fmt"
	"sort"

	"gopkg.in/typ.v4/maps"
	"verifharness/internal/core"
)

// C11 — Bimap keeps its two directions mutually inverse.
// Lock-step monitor against a slice-of-pairs model over keys 0..3 and values
// "a".."d" (every collision pattern is dense). Systematic part: case j < 625
// fixes the first two calls (base-25 digits of j) and enumerates ALL 0-, 1- and
// 2-call continuations, so all histories of length <= 4 over the 25 mutating
// calls are covered by every run. Random part: longer histories with Clone.

func init() { register("C11", runC11) }

type bpair struct {
	k int
	v string
}

type bimodel struct{ ps []bpair }

func (m *bimodel) add(k int, v string) {
	out := m.ps[:0:0]
	for _, p := range m.ps {
		if p.k != k && p.v != v {
			out = append(out, p)
		}
	}
	m.ps = append(out, bpair{k, v})
}
func (m *bimodel) rmF(k int) {
	out := m.ps[:0:0]
	for _, p := range m.ps {
		if p.k != k {
			out = append(out, p)
		}
	}
	m.ps = out
}
func (m *bimodel) rmR(v string) {
	out := m.ps[:0:0]
	for _, p := range m.ps {
		if p.v != v {
			out = append(out, p)
		}
	}
	m.ps = out
}
func (m *bimodel) clone() *bimodel { return &bimodel{ps: append([]bpair(nil), m.ps...)} }

var biVals = []string{"a", "b", "c", "d"}

type biOp struct {
	kind int // 0 Add 1 RemoveForward 2 RemoveReverse 3 Clear
	k    int
	v    string
}

func biOpOf(code int) biOp {
	switch {
	case code < 16:
		return biOp{0, code / 4, biVals[code%4]}
	case code < 20:
		return biOp{1, code - 16, ""}
	case code < 24:
		return biOp{2, 0, biVals[code-20]}
	}
	return biOp{kind: 3}
}

func (o biOp) String() string {
	switch o.kind {
	case 0:
		return fmt.Sprintf("Add(%d,%s)", o.k, o.v)
	case 1:
		return fmt.Sprintf("RemoveForward(%d)", o.k)
	case 2:
		return fmt.Sprintf("RemoveReverse(%s)", o.v)
	}
	return "Clear()"
}

type biLive struct {
	b *maps.Bimap[int, string]
	m *bimodel
}

type biRun struct {
	c      *core.Ctx
	hist   []string
	bad    bool
	sparse bool // observe only every few calls (done by the caller)
	noNest bool // no nested calls (Clone, Range, changes of another Bimap) inside observer callbacks:
	// an observer that clones leaves a trace in a copy-on-write implementation and may heal
	// what a history without it would show
}

func (br *biRun) fail(sig, msg string) {
	br.bad = true
	br.c.Violate(sig, msg+fmt.Sprintf(" [after %v]", br.hist), map[string]any{"history": append([]string{}, br.hist...)})
}

func (br *biRun) apply(l *biLive, o biOp) bool {
	br.hist = append(br.hist, o.String())
	c := br.c
	// collision pattern of an Add, for evidence
	if o.kind == 0 {
		sameK, sameV := false, false
		for _, p := range l.m.ps {
			if p.k == o.k {
				sameK = true
			}
			if p.v == o.v {
				sameV = true
			}
		}
		c.Count(fmt.Sprintf("add_collision_key=%v_value=%v", sameK, sameV), 1)
	}
	if p, pv := core.Catch(func() {
		switch o.kind {
		case 0:
			l.b.Add(o.k, o.v)
		case 1:
			l.b.RemoveForward(o.k)
		case 2:
			l.b.RemoveReverse(o.v)
		case 3:
			l.b.Clear()
		}
	}); p {
		br.fail(o.name()+":panic", fmt.Sprintf("%s panicked: %v", o, pv))
		return false
	}
	switch o.kind {
	case 0:
		l.m.add(o.k, o.v)
	case 1:
		l.m.rmF(o.k)
	case 2:
		l.m.rmR(o.v)
	case 3:
		l.m.ps = nil
	}
	c.Count("calls", 1)
	if br.sparse {
		return true
	}
	return br.check(l, o.name())
}

func (o biOp) name() string {
	return []string{"Add", "RemoveForward", "RemoveReverse", "Clear"}[o.kind]
}

func (br *biRun) check(l *biLive, op string) bool {
	c := br.c
	c.Count("observations", 1)
	fw := map[int]string{}
	rv := map[string]int{}
	for _, p := range l.m.ps {
		fw[p.k] = p.v
		rv[p.v] = p.k
	}
	if l.b.Len() != len(l.m.ps) {
		br.fail(op+":Len", fmt.Sprintf("Len()=%d, model has %d pairs %v", l.b.Len(), len(l.m.ps), l.m.ps))
		return false
	}
	for k := -1; k <= 4; k++ {
		v, ok := l.b.GetForward(k)
		wv, wok := fw[k]
		if ok != wok || (ok && v != wv) || l.b.ContainsForward(k) != wok {
			br.fail(op+":forward", fmt.Sprintf("GetForward(%d)=(%q,%v) ContainsForward=%v, model (%q,%v)", k, v, ok, l.b.ContainsForward(k), wv, wok))
			return false
		}
		if ok {
			// inverse-bijection invariant, stated on the object itself
			k2, ok2 := l.b.GetReverse(v)
			if !ok2 || k2 != k {
				br.fail(op+":not-inverse", fmt.Sprintf("GetForward(%d)=%q but GetReverse(%q)=(%d,%v)", k, v, v, k2, ok2))
				return false
			}
		}
	}
	for _, v := range append([]string{"zz"}, biVals...) {
		k, ok := l.b.GetReverse(v)
		wk, wok := rv[v]
		if ok != wok || (ok && k != wk) || l.b.ContainsReverse(v) != wok {
			br.fail(op+":reverse", fmt.Sprintf("GetReverse(%q)=(%d,%v) ContainsReverse=%v, model (%d,%v)", v, k, ok, l.b.ContainsReverse(v), wk, wok))
			return false
		}
		if ok {
			v2, ok2 := l.b.GetForward(k)
			if !ok2 || v2 != v {
				br.fail(op+":not-inverse", fmt.Sprintf("GetReverse(%q)=%d but GetForward(%d)=(%q,%v)", v, k, k, v2, ok2))
				return false
			}
		}
	}
	seen := map[bpair]int{}
	// in a quarter of the observations one callback makes nested read-only calls on
	// the same Bimap (a nested Range included); the outer Range must not notice
	nestAt, nestMsg, visited := -1, "", 0
	if n := len(l.m.ps); n > 0 && !br.noNest && c.R.Chance(1, 4) {
		nestAt = c.R.Intn(n)
	}
	// ... and changes a DIFFERENT Bimap, which is nobody's business but that Bimap's
	other := &maps.Bimap[int, string]{}
	other.Add(1, "one")
	otherOK := func(when string) {
		v2, ok2 := other.GetForward(2)
		k3, ok3 := other.GetReverse("three")
		n := 0
		other.Range(func(int, string) bool { n++; return true })
		if other.Len() != 2 || n != 2 || !ok2 || v2 != "two" || !ok3 || k3 != 3 || other.ContainsForward(1) || other.ContainsReverse("one") {
			nestMsg = fmt.Sprintf("a second Bimap got Add(2,two) Add(3,three) RemoveForward(1) inside the Range callback of this one; %s it has Len %d, Range visits %d, GetForward(2)=(%q,%v) GetReverse(three)=(%d,%v) ContainsForward(1)=%v", when, other.Len(), n, v2, ok2, k3, ok3, other.ContainsForward(1))
		}
	}
	l.b.Range(func(k int, v string) bool {
		if visited == nestAt {
			other.Add(2, "two")
			other.Add(3, "three")
			other.RemoveForward(1)
			otherOK("inside the callback")
			c.Count("other_bimap_changed_in_range_callback", 1)
			c.Count("nested_readonly_calls_in_range_callback", 1)
			inner := map[bpair]int{}
			l.b.Range(func(k int, v string) bool { inner[bpair{k, v}]++; return true })
			if len(inner) != len(l.m.ps) {
				nestMsg = fmt.Sprintf("nested Range visited %v, model %v", inner, l.m.ps)
			}
			if k2, ok := l.b.GetReverse(v); !ok || k2 != k || l.b.Len() != len(l.m.ps) {
				nestMsg = fmt.Sprintf("nested GetReverse(%q)=(%d,%v) Len=%d inside the callback for pair (%d,%q)", v, k2, ok, l.b.Len(), k, v)
			}
			if cl := l.b.Clone(); cl.Len() != len(l.m.ps) {
				nestMsg = fmt.Sprintf("nested Clone has %d pairs, model %d", cl.Len(), len(l.m.ps))
			}
		}
		visited++
		seen[bpair{k, v}]++
		return true
	})
	if nestAt >= 0 && nestMsg == "" {
		otherOK("after that Range")
	}
	if nestMsg != "" {
		br.fail(op+":nested-read-in-Range", nestMsg)
		return false
	}
	if len(seen) != len(l.m.ps) {
		br.fail(op+":Range", fmt.Sprintf("Range visited %v, model %v", seen, l.m.ps))
		return false
	}
	for _, p := range l.m.ps {
		if seen[p] != 1 {
			br.fail(op+":Range", fmt.Sprintf("Range visited pair %v %d times", p, seen[p]))
			return false
		}
	}
	// early stop
	if n := len(l.m.ps); n > 0 {
		stop := 1 + int(c.R.Uint64()%uint64(n))
		calls := 0
		l.b.Range(func(int, string) bool { calls++; return calls < stop })
		if calls != stop {
			br.fail(op+":Range-early-stop", fmt.Sprintf("callback said stop at call %d, Range made %d calls", stop, calls))
			return false
		}
		// a full Range right after a Range that was stopped early
		full := 0
		l.b.Range(func(int, string) bool { full++; return true })
		if full != n {
			br.fail(op+":Range-after-early-stop", fmt.Sprintf("a Range that followed a Range stopped after %d calls visited %d of %d pairs", stop, full, n))
			return false
		}
	}
	return true
}

func runC11(c *core.Ctx) {
	r := c.R
	if c.Index < 625 {
		// systematic: prefix (a,b) then all continuations of length 0..2
		a, b := int(c.Index/25), int(c.Index%25)
		n := 0
		for x := -1; x < 25; x++ {
			for y := -1; y < 25; y++ {
				if x == -1 && y != -1 {
					continue
				}
				br := &biRun{c: c, noNest: n%2 == 0}
				l := &biLive{b: &maps.Bimap[int, string]{}, m: &bimodel{}}
				ops := []int{a, b}
				if x >= 0 {
					ops = append(ops, x)
				}
				if y >= 0 {
					ops = append(ops, y)
				}
				for _, code := range ops {
					if !br.apply(l, biOpOf(code)) {
						return
					}
				}
				n++
			}
		}
		c.Count("systematic_histories", int64(n))
		c.Count("exhaustive_sweeps_completed", 1)
		c.NonTrivial(core.Mix(1, uint64(c.Index)))
		if c.WantSample() {
			c.Sample(map[string]any{"systematic_prefix": []string{biOpOf(a).String(), biOpOf(b).String()}, "continuations_enumerated": n})
		}
		return
	}
	if c.Index%16 == 9 {
		c11big(c)
		return
	}
	// random: longer histories, from the zero value or from a clone, continuing on both
	br := &biRun{c: c, noNest: r.Chance(2, 3)}
	live := []*biLive{{b: &maps.Bimap[int, string]{}, m: &bimodel{}}}
	nops := r.Range(1, 60)
	obsEvery := 1
	if r.Chance(1, 3) {
		obsEvery = r.Range(2, 5)
	}
	br.sparse = obsEvery > 1
	var hh uint64 = 2
	for i := 0; i < nops; i++ {
		li := r.Intn(len(live))
		l := live[li]
		if r.Chance(1, 25) {
			// an unrelated, fresh zero-value Bimap joins (or replaces one of) the live ones:
			// values of one type must not share anything, whatever the others did before
			nl := &biLive{b: &maps.Bimap[int, string]{}, m: &bimodel{}}
			br.hist = append(br.hist, "new zero-value Bimap")
			if len(live) < 3 {
				live = append(live, nl)
			} else {
				live[(li+1)%3] = nl
			}
			c.Count("fresh_bimaps_joined", 1)
			continue
		}
		if r.Chance(1, 10) {
			br.hist = append(br.hist, fmt.Sprintf("b%d.Clone()", li))
			var cl maps.Bimap[int, string]
			if p, pv := core.Catch(func() { cl = l.b.Clone() }); p {
				br.fail("Clone:panic", fmt.Sprint(pv))
				return
			}
			nl := &biLive{b: &cl, m: l.m.clone()}
			if len(live) < 3 {
				live = append(live, nl)
			} else {
				live[(li+1)%3] = nl
			}
			c.Count("clones", 1)
			if len(l.m.ps) == 0 {
				c.Count("clones_of_empty", 1)
			}
		} else {
			o := biOpOf(r.Pick(16, 16, 16, 16, 16, 16, 16, 16, 16, 16, 16, 16, 16, 16, 16, 16, 20, 20, 20, 20, 20, 20, 20, 20, 12))
			br.hist = append(br.hist, fmt.Sprintf("b%d:", li))
			if !br.apply(l, o) {
				return
			}
		}
		hh = core.Mix(hh, core.HashString(br.hist[len(br.hist)-1]))
		// every live map is re-checked: a clone must not change with its origin
		// (in a third of the histories only every 2..5 calls)
		if i%obsEvery != obsEvery-1 && i != nops-1 {
			continue
		}
		for _, x := range live {
			if !br.check(x, "independence") {
				return
			}
		}
	}
	if nops >= 3 {
		c.NonTrivial(hh)
	}
	c.Count("random_histories", 1)
}

// c11big: hundreds to thousands of pairs (size-dependent paths of a re-implemented
// Clear/Clone/Add), against a map-pair model; full consistency sweep over both
// directions after every phase.
func c11big(c *core.Ctx) {
	r := c.R
	b := &maps.Bimap[int, string]{}
	fw := map[int]string{}
	rv := map[string]int{}
	var hist []string
	fail := func(sig, msg string) {
		c.Violate("big:"+sig, msg+fmt.Sprintf(" [after %v]", hist), map[string]any{"phases": hist})
	}
	val := func(i int) string { return fmt.Sprintf("v%d", i) }
	n := r.Range(200, 3000)
	sweep := func(bm *maps.Bimap[int, string], f map[int]string, rvm map[string]int, what string) bool {
		if bm.Len() != len(f) {
			fail(what+":Len", fmt.Sprintf("Len()=%d, model has %d pairs", bm.Len(), len(f)))
			return false
		}
		for k := -1; k <= n+1; k++ {
			v, ok := bm.GetForward(k)
			wv, wok := f[k]
			if ok != wok || (ok && v != wv) || bm.ContainsForward(k) != wok {
				fail(what+":forward", fmt.Sprintf("GetForward(%d)=(%q,%v), model (%q,%v)", k, v, ok, wv, wok))
				return false
			}
			kk, ok := bm.GetReverse(val(k))
			wk, wok := rvm[val(k)]
			if ok != wok || (ok && kk != wk) || bm.ContainsReverse(val(k)) != wok {
				fail(what+":reverse", fmt.Sprintf("GetReverse(%q)=(%d,%v), model (%d,%v) - the reverse direction disagrees", val(k), kk, ok, wk, wok))
				return false
			}
		}
		cnt := 0
		bm.Range(func(k int, v string) bool { cnt++; return f[k] == v })
		if cnt != len(f) {
			fail(what+":Range", fmt.Sprintf("Range visited %d pairs, model has %d", cnt, len(f)))
			return false
		}
		return true
	}
	add := func(k int, v string) {
		if ov, ok := fw[k]; ok {
			delete(rv, ov)
		}
		if ok2, ok := rv[v]; ok {
			delete(fw, ok2)
		}
		fw[k], rv[v] = v, k
		b.Add(k, v)
	}
	for i := 0; i < n; i++ {
		add(i, val(i))
	}
	hist = append(hist, fmt.Sprintf("Add x %d", n))
	if !sweep(b, fw, rv, "fill") {
		return
	}
	for phase := 0; phase < 5; phase++ {
		switch r.Intn(8) {
		case 7:
			// a full sweep (every lookup, Len, Range), then exactly 256 or 65536 successful
			// changes with no observation in between, one more change, and (below) a sweep again
			m := 256
			if r.Chance(1, 6) {
				m = 65536
			}
			hist = append(hist, fmt.Sprintf("%d changes of one pair without an observation", m))
			k := n + 50
			for i := 0; i < m; i++ {
				if i%2 == 0 {
					b.Add(k, "storm-pair")
				} else {
					b.RemoveForward(k)
				}
			}
			add(n+51, "after-storm")
		case 6:
			// a storm of Clears: Clear while big, then 300 rounds of (Add a few, Clear)
			hist = append(hist, "Clear x 300 with small refills")
			b.Clear()
			fw, rv = map[int]string{}, map[string]int{}
			probes := []int{0, n / 2, n - 1}
			for i := 0; i < 300; i++ {
				for k := 0; k < i%3; k++ {
					b.Add(-10-k, fmt.Sprintf("storm%d", k))
				}
				b.Clear()
				// after EVERY Clear the map is empty (a generation counter that wraps makes old
				// pairs live again at one particular Clear only)
				visited := 0
				b.Range(func(int, string) bool { visited++; return true })
				bad := b.Len() != 0 || visited != 0
				for _, k := range probes {
					if _, ok := b.GetForward(k); ok || b.ContainsReverse(val(k)) {
						bad = true
					}
				}
				if bad {
					fail("Clear:not-empty", fmt.Sprintf("after Clear number %d of a storm of Clears (the first one on %d pairs) the Bimap is not empty: Len()=%d, Range visits %d pairs", i+2, n, b.Len(), visited))
					return
				}
			}
		case 5:
			// shrink a formerly big Bimap to a handful of pairs by removals, then Add pairs
			// that evict exactly those survivors (same key, same value, or both at once)
			keep := r.Range(0, 3)
			for k := range fw {
				if len(fw) <= keep {
					break
				}
				v := fw[k]
				delete(fw, k)
				delete(rv, v)
				if r.Bool() {
					b.RemoveForward(k)
				} else {
					b.RemoveReverse(v)
				}
			}
			hist = append(hist, fmt.Sprintf("shrink to %d pairs, then evicting Adds", len(fw)))
			if !sweep(b, fw, rv, "shrink") {
				return
			}
			var ks []int
			for k := range fw {
				ks = append(ks, k)
			}
			sort.Ints(ks)
			var ak int
			var av string
			switch {
			case len(ks) >= 2 && r.Bool():
				ak, av = ks[0], fw[ks[1]] // evicts two pairs
			case len(ks) >= 1 && r.Bool():
				ak, av = ks[0], "fresh"
			case len(ks) >= 1:
				ak, av = n+7, fw[ks[0]]
			default:
				ak, av = 1, "fresh"
			}
			if p, pv := core.Catch(func() { add(ak, av) }); p {
				fail("Add:panic", fmt.Sprintf("Add(%d,%q) on a Bimap shrunk to %d pairs panicked: %v", ak, av, len(ks), pv))
				return
			}
			c.Count("big_shrunk_then_evicting_add", 1)
		case 0:
			hist = append(hist, "Clear")
			b.Clear()
			fw, rv = map[int]string{}, map[string]int{}
		case 1:
			hist = append(hist, "Clone+continue-on-clone")
			cl := b.Clone()
			// the original must stay intact when the clone changes
			cl.Add(-5, "clone-only")
			cl.RemoveForward(0)
			if !sweep(b, fw, rv, "original-after-clone-mutation") {
				return
			}
			cf, cr := map[int]string{}, map[string]int{}
			for k, v := range fw {
				cf[k], cr[v] = v, k
			}
			cf[-5], cr["clone-only"] = "clone-only", -5
			if v, ok := cf[0]; ok {
				delete(cr, v)
				delete(cf, 0)
			}
			b, fw, rv = &cl, cf, cr
			if v, ok := fw[-5]; !ok || v != "clone-only" {
				fail("clone", "model inconsistency")
				return
			}
			delete(rv, "clone-only")
			delete(fw, -5)
			b.RemoveForward(-5)
		case 2:
			m := r.Range(1, n)
			hist = append(hist, fmt.Sprintf("colliding Add x %d", m))
			for i := 0; i < m; i++ {
				add(r.Intn(n), val(r.Intn(n)))
			}
		case 3:
			m := r.Range(1, n)
			hist = append(hist, fmt.Sprintf("RemoveForward/Reverse x %d", m))
			for i := 0; i < m; i++ {
				if r.Bool() {
					k := r.Intn(n)
					if v, ok := fw[k]; ok {
						delete(rv, v)
						delete(fw, k)
					}
					b.RemoveForward(k)
				} else {
					v := val(r.Intn(n))
					if k, ok := rv[v]; ok {
						delete(fw, k)
						delete(rv, v)
					}
					b.RemoveReverse(v)
				}
			}
		case 4:
			m := r.Range(1, n)
			hist = append(hist, fmt.Sprintf("refill x %d", m))
			for i := 0; i < m; i++ {
				add(i, val(i))
			}
		}
		if !sweep(b, fw, rv, hist[len(hist)-1][:5]) {
			return
		}
	}
	c.Count("big_histories", 1)
	c.Max("max_pairs", int64(n))
	c.NonTrivial(core.Mix(c.Seed, 11))
	if c.WantSample() {
		c.Sample(map[string]any{"big": true, "pairs": n, "phases": hist})
	}
}
