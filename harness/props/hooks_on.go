//go:build verif

package props

import (
	"runtime"
	"sync"
	"time"

	"gopkg.in/typ.v4/sync2"
	"verifharness/internal/sched"
)

// Wiring of the sync2 instrumentation points (only exists with -tags verif).

const hooksAvailable = true

// tier-A yield policy: plain variables written before the goroutines of a
// round are started and only read while they run (the go statement orders
// them) - deliberately no atomics and no shared counters, which would add
// happens-before edges and hide races from the race detector.
var (
	yieldMask int64 // yield when (clock & yieldMask) == 0; -1 disables
	sleepMask int64
	curSched  *sched.Sched
	siteHits  [128]int64 // evidence only; written by the serialized scheduler modes
)

func hooksOff() {
	sync2.VerifHooks.Yield = nil
	sync2.VerifHooks.Lock = nil
	sync2.VerifHooks.RWLock = nil
	sync2.VerifHooks.RLock = nil
	curSched = nil
}

// hooksTierA installs free-running hooks: random Gosched / tiny sleeps.
// yieldLog2: yield with probability 2^-yieldLog2 (negative: never).
func hooksTierA(yieldLog2, sleepLog2 int) {
	hooksOff()
	if yieldLog2 < 0 {
		return
	}
	yieldMask = (1 << uint(yieldLog2)) - 1
	sleepMask = -1
	if sleepLog2 >= 0 {
		sleepMask = (1 << uint(sleepLog2)) - 1
	}
	y := func(site int) {
		t := time.Now().UnixNano() >> 3
		if t&yieldMask == 0 {
			runtime.Gosched()
		}
		if sleepMask >= 0 && (t>>20)&sleepMask == 0 {
			time.Sleep(time.Microsecond)
		}
	}
	sync2.VerifHooks.Yield = y
	sync2.VerifHooks.Lock = func(site int, mu *sync.Mutex) { y(site) }
	sync2.VerifHooks.RWLock = func(site int, mu *sync.RWMutex) { y(site) }
	sync2.VerifHooks.RLock = func(site int, mu *sync.RWMutex) { y(site) }
}

// hooksTierB routes every instrumentation point to the serialized scheduler.
func hooksTierB(s *sched.Sched) {
	hooksOff()
	curSched = s
	sync2.VerifHooks.Yield = func(site int) {
		if s.Active() {
			siteHits[site&127]++
			s.Yield(site)
		}
	}
	sync2.VerifHooks.Lock = func(site int, mu *sync.Mutex) {
		if s.Active() {
			siteHits[site&127]++
			s.Acquire(site, func() bool {
				if mu.TryLock() {
					mu.Unlock()
					return true
				}
				return false
			})
		}
	}
	sync2.VerifHooks.RWLock = func(site int, mu *sync.RWMutex) {
		if s.Active() {
			siteHits[site&127]++
			s.Acquire(site, func() bool {
				if mu.TryLock() {
					mu.Unlock()
					return true
				}
				return false
			})
		}
	}
	sync2.VerifHooks.RLock = func(site int, mu *sync.RWMutex) {
		if s.Active() {
			siteHits[site&127]++
			s.Acquire(site, func() bool {
				if mu.TryRLock() {
					mu.RUnlock()
					return true
				}
				return false
			})
		}
	}
}

func siteName(site int) string { return sync2.VerifSites[site] }

func numSites() int { return len(sync2.VerifSites) }
