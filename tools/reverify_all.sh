#!/bin/bash
# tools/reverify_all.sh [parallelism] [name-pattern]: re-run EVERY kept seeded change against the current checks, each in a
# scratch worktree of /repo (VERIF_REPO override; /repo itself is not touched), a few at a time. One line per change:
#   SEEDED <name> <prop>:exit=<rc> [first signatures]      exit=1 = detected, exit=0 = NOT detected any more.
# Honours "also_run" (further properties whose check must catch it) and "tier" in meta.json.
export GOFLAGS=-mod=mod GOPROXY=off GOSUMDB=off GOTOOLCHAIN=local
par=${1:-4}; pat=${2:-}
here=$(cd "$(dirname "$0")/.." && pwd); cd $here
out=/tmp/reverify_all.$$; mkdir -p $out
one() {
  n=$1; d=$here/seeded/$n
  prop=$(python3 -c "import json;print(json.load(open('$d/meta.json'))['property'])")
  alt=$(python3 -c "import json;print(json.load(open('$d/meta.json')).get('also_run',''))")
  tier=$(python3 -c "import json;print(json.load(open('$d/meta.json')).get('tier','quick'))")
  wt=/tmp/wt/reverify-$n
  git -C /repo worktree add -q --detach $wt HEAD 2>/dev/null || { echo "SEEDED $n WORKTREE-FAILED"; return; }
  if ! git -C $wt apply $d/patch.diff 2>/dev/null; then echo "SEEDED $n prop=$prop PATCH-DOES-NOT-APPLY"; git -C /repo worktree remove --force $wt; return; fi
  res=""
  props="$prop $alt"
  [ -n "$alt" ] && props="$alt"   # outside its own property's quantifier: the named checks must catch it
  for p in $props; do
    VERIF_REPO=$wt ./check $p $tier > $out/$n.$p.txt 2>&1; rc=$?
    sigs=$(grep -E '^  sig=' $out/$n.$p.txt | sed -E 's/^  sig=([^ ]*) occ.*/\1/' | cut -c1-60 | head -2 | tr '\n' ' ')
    res="$res $p:exit=$rc [$sigs]"
  done
  git -C /repo worktree remove --force $wt
  echo "SEEDED $n$res"
}
i=0
for n in $(ls -d seeded/*/ | xargs -n1 basename | grep -E "$pat"); do
  one $n &
  i=$((i+1)); [ $((i % par)) -eq 0 ] && wait
done
wait
rm -rf $out
