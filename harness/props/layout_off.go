//go:build !verif

package props

import (
	"gopkg.in/typ.v4/sync2"
	"verifharness/internal/core"
)

// without the hooks there is no introspection: coverage evidence about the
// internal layout of the concurrent map is simply absent.
func noteLayout[T comparable](c *core.Ctx, s *sync2.Set[T]) {}

func layoutOfMap[K comparable, V any](m *sync2.Map[K, V]) string { return "" }
