package props

import (
	"fmt"
	"sort"
	"sync"
	"sync/atomic"
	"time"

	"github.com/anishathalye/porcupine"
	"verifharness/internal/core"
)

// History recording at the client boundary and porcupine models shared by
// C04 (map), C05 (set) and C18 (register).

// clock is the logical clock of a recorded round. In free-running (Tier A lin)
// rounds it is one atomic counter; in serialized (Tier B) rounds a plain one.
type clock struct {
	a      atomic.Int64
	p      int64
	atomic bool
}

func (c *clock) now() int64 {
	if c.atomic {
		return c.a.Add(1)
	}
	c.p++
	return c.p
}

const (
	opLoad = iota
	opStore
	opLoadOrStore
	opLoadAndDelete
	opDelete
	opRange // recorded separately, expanded into per-key observations
	// set ops
	opAdd
	opRemove
	opHas
	// register ops
	opSwap
	opCAS
)

var opNames = map[int]string{opLoad: "Load", opStore: "Store", opLoadOrStore: "LoadOrStore", opLoadAndDelete: "LoadAndDelete", opDelete: "Delete",
	opRange: "Range", opAdd: "Add", opRemove: "Remove", opHas: "Has", opSwap: "Swap", opCAS: "CompareAndSwap"}

// rec is one recorded call.
type rec struct {
	Client    int
	Op        int
	Key       int
	Arg, Arg2 int64
	Val       int64
	Ok        bool
	Call, Ret int64
	// Range only
	Visited []kv
	Full    bool // callback never asked to stop
}

type kv struct {
	K int
	V int64
}

func (r rec) String() string {
	switch r.Op {
	case opRange:
		return fmt.Sprintf("c%d Range -> %v full=%v [%d,%d]", r.Client, r.Visited, r.Full, r.Call, r.Ret)
	case opStore:
		return fmt.Sprintf("c%d Store(k%d,%d) [%d,%d]", r.Client, r.Key, r.Arg, r.Call, r.Ret)
	case opLoadOrStore:
		return fmt.Sprintf("c%d LoadOrStore(k%d,%d)=(%d,loaded=%v) [%d,%d]", r.Client, r.Key, r.Arg, r.Val, r.Ok, r.Call, r.Ret)
	case opDelete:
		return fmt.Sprintf("c%d Delete(k%d) [%d,%d]", r.Client, r.Key, r.Call, r.Ret)
	case opCAS:
		return fmt.Sprintf("c%d CAS(%d,%d)=%v [%d,%d]", r.Client, r.Arg, r.Arg2, r.Ok, r.Call, r.Ret)
	case opSwap:
		return fmt.Sprintf("c%d Swap(%d)=%d [%d,%d]", r.Client, r.Arg, r.Val, r.Call, r.Ret)
	}
	return fmt.Sprintf("c%d %s(k%d)=(%d,%v) [%d,%d]", r.Client, opNames[r.Op], r.Key, r.Val, r.Ok, r.Call, r.Ret)
}

type pin struct {
	Op        int
	Arg, Arg2 int64
}
type pout struct {
	Val int64
	Ok  bool
}

const absent = int64(-1)

// mapStep is the sequential specification of ONE key of a map; state is the
// current value or `absent`.
func mapStep(st, in, out any) (bool, any) {
	s := st.(int64)
	i := in.(pin)
	o := out.(pout)
	switch i.Op {
	case opLoad:
		if s == absent {
			return !o.Ok, s
		}
		return o.Ok && o.Val == s, s
	case opStore:
		return true, i.Arg
	case opLoadOrStore:
		if s == absent {
			return !o.Ok && o.Val == i.Arg, i.Arg
		}
		return o.Ok && o.Val == s, s
	case opLoadAndDelete:
		if s == absent {
			return !o.Ok, absent
		}
		return o.Ok && o.Val == s, absent
	case opDelete:
		return true, absent
	}
	return false, s
}

// setStep is the sequential specification of ONE value of a set; state bool.
func setStep(st, in, out any) (bool, any) {
	s := st.(bool)
	i := in.(pin)
	o := out.(pout)
	switch i.Op {
	case opAdd:
		return o.Ok == !s, true
	case opRemove:
		return o.Ok == s, false
	case opHas:
		return o.Ok == s, s
	}
	return false, s
}

func describeOp(in, out any) string {
	i, o := in.(pin), out.(pout)
	return fmt.Sprintf("%s(%d,%d)->(%d,%v)", opNames[i.Op], i.Arg, i.Arg2, o.Val, o.Ok)
}

type linResult struct {
	illegalKey int
	illegal    bool
	unknown    bool
	checked    int
	ops        int
	witness    []string
}

// checkPerKey runs porcupine separately on each key's sub-history (a map is
// linearizable iff every key's sub-history is). init gives each key's state
// before the recorded part.
func checkPerKey(step func(st, in, out any) (bool, any), init func(key int) any, byKey map[int][]porcupine.Operation, timeout time.Duration) linResult {
	var res linResult
	keys := make([]int, 0, len(byKey))
	for k := range byKey {
		keys = append(keys, k)
	}
	sort.Ints(keys)
	for _, k := range keys {
		ops := byKey[k]
		k := k
		m := porcupine.Model{
			Init:              func() interface{} { return init(k) },
			Step:              func(st, in, out interface{}) (bool, interface{}) { return step(st, in, out) },
			DescribeOperation: func(in, out interface{}) string { return describeOp(in, out) },
		}
		r, _ := porcupine.CheckOperationsVerbose(m, ops, timeout)
		res.checked++
		res.ops += len(ops)
		switch r {
		case porcupine.Illegal:
			res.illegal = true
			res.illegalKey = k
			for _, o := range ops {
				res.witness = append(res.witness, fmt.Sprintf("c%d %s [%d,%d]", o.ClientId, describeOp(o.Input, o.Output), o.Call, o.Return))
			}
			return res
		case porcupine.Unknown:
			res.unknown = true
		}
	}
	return res
}

// mapHistoryOps expands a recorded map history (with Range calls) into per-key
// porcupine operations, judging Range exactly at the property's strength:
//   - a visited (k,v) is a Load(k)=(v,true) somewhere inside the Range interval
//   - a key NOT visited by a full Range is a Load(k)=miss inside the interval
//     only if no mutating call on k overlaps the interval (then k's state is
//     constant throughout: "visits every key present and untouched for the
//     whole call"); touched keys may be visited or not.
//
// It also reports a key visited twice by one Range.
func mapHistoryOps(h []rec, universe []int) (byKey map[int][]porcupine.Operation, dupKey string, nVisit, nMiss int) {
	byKey = map[int][]porcupine.Operation{}
	for _, r := range h {
		if r.Op == opRange {
			continue
		}
		byKey[r.Key] = append(byKey[r.Key], porcupine.Operation{ClientId: r.Client, Input: pin{Op: r.Op, Arg: r.Arg}, Output: pout{Val: r.Val, Ok: r.Ok}, Call: r.Call, Return: r.Ret})
	}
	// Range observations get client ids above the real ones (porcupine wants
	// per-client sequential histories; every observation is its own client).
	nextClient := 1000
	for _, r := range h {
		if r.Op != opRange {
			continue
		}
		seen := map[int]bool{}
		for _, e := range r.Visited {
			if seen[e.K] {
				dupKey = fmt.Sprintf("Range by client %d visited key %d twice: %v", r.Client, e.K, r.Visited)
				return
			}
			seen[e.K] = true
			byKey[e.K] = append(byKey[e.K], porcupine.Operation{ClientId: nextClient, Input: pin{Op: opLoad}, Output: pout{Val: e.V, Ok: true}, Call: r.Call, Return: r.Ret})
			nextClient++
			nVisit++
		}
		if !r.Full {
			continue
		}
		for _, k := range universe {
			if seen[k] {
				continue
			}
			touched := false
			for _, o := range h {
				if o.Op == opRange || o.Key != k || o.Op == opLoad {
					continue
				}
				if o.Call <= r.Ret && o.Ret >= r.Call {
					touched = true
					break
				}
			}
			if touched {
				continue
			}
			byKey[k] = append(byKey[k], porcupine.Operation{ClientId: nextClient, Input: pin{Op: opLoad}, Output: pout{Ok: false}, Call: r.Call, Return: r.Ret})
			nextClient++
			nMiss++
		}
	}
	return
}

func histStrings(h []rec, max int) []string {
	out := make([]string, 0, len(h))
	for i, r := range h {
		if i >= max {
			out = append(out, fmt.Sprintf("... %d more", len(h)-max))
			break
		}
		out = append(out, r.String())
	}
	return out
}

func histHash(h []rec) uint64 {
	x := uint64(len(h))
	for _, r := range h {
		x = core.Mix(x, uint64(r.Client)<<40|uint64(r.Op)<<32|uint64(uint32(r.Key)), uint64(r.Val), uint64(r.Call)<<20^uint64(r.Ret))
	}
	return x
}

var deadlockSeen atomic.Bool

// joinOrDeadlock waits for the goroutines of a free-running round. A round
// whose goroutines are all parked for good (stop-the-world stack snapshot, see
// core.Deadlocked) is a violation "deadlock"; a round that merely takes longer
// than the generous wall clock is inconclusive. Returns true when joined.
func joinOrDeadlock(c *core.Ctx, wg *sync.WaitGroup, sig, what string, extra map[string]any) bool {
	// healthy rounds join within milliseconds; the first snapshot is taken after 3 s
	// (the verdict is a logical fact, not a timeout, so taking it early is safe). Once a
	// deadlock has been proven in this process the following rounds look after 150 ms:
	// a tree that deadlocks in every round must not cost 3 s per round.
	first := 3 * time.Second
	if deadlockSeen.Load() {
		first = 150 * time.Millisecond
	}
	st, where := core.WaitOrDeadlock(wg, first, 100*time.Second)
	switch st {
	case "done":
		return true
	case "deadlock":
		deadlockSeen.Store(true)
		c.Violate(sig+":deadlock", what+" never finishes: every goroutine of the round is parked for good ("+where+")", extra)
	default:
		c.Inconclusive(what + " did not finish within the watchdog (no deadlock proven)")
	}
	return false
}
