#!/usr/bin/env python3
import json, jsonschema, sys, glob, os
here = os.path.dirname(os.path.dirname(os.path.abspath(__file__)))
jsonschema.validate(json.load(open(here+'/MANIFEST.json')), json.load(open('/root/.vp/MANIFEST.schema.json')))
es = json.load(open('/root/.vp/EVIDENCE.schema.json'))
for f in sorted(glob.glob(here+'/evidence/*.json')):
    jsonschema.validate(json.load(open(f)), es)
    print('ok', os.path.basename(f))
print('manifest ok')
