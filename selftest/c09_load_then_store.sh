python3 - <<'PY'
p='/repo/sync2/keyedmutex.go'
s=open(p).read()
a='''func (km *KeyedMutex[T]) LockKey(key T) {
	m, _ := km.m.LoadOrStore(key, &sync.Mutex{})
'''
b='''func (km *KeyedMutex[T]) LockKey(key T) {
	m, ok := km.m.Load(key)
	if !ok {
		m = &sync.Mutex{}
		km.m.Store(key, m)
	}
'''
assert s.count(a)==1
open(p,'w').write(s.replace(a,b))
PY
