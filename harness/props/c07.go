package props

import (
	"fmt"
	"math"
	"sort"

	"gopkg.in/typ.v4/slices"
	"verifharness/internal/core"
)

// C07 — slices.Sorted is always sorted and is an exact multiset.
// Lock-step monitor against a sorted-slice model. Regime "strict": less is a
// strict total order consistent with == (full contract). Regime "weak": less has
// ties between distinguishable values (invariant half only).

func init() { register("C07", runC07) }

type wk struct{ Key, ID int }

// c07sweep: ALL histories of up to 5 calls over {Add 0/1/2, Remove 0/1/2, RemoveAt(0),
// RemoveAt(Len-1)} after NewSorted over one of 8 tiny inputs (nil, empty, one value,
// ordered / unordered pairs, duplicates), judged after every call: returned positions,
// Index/Contains over 0..3, Len, contents.
func c07sweep(c *core.Ctx, which int) {
	inputs := [][]int{nil, {}, {1}, {2, 0}, {1, 1}, {0, 2, 1}, {2, 2, 0}, {0, 1, 2}}
	input := inputs[which]
	const nOps = 8
	histories := 0
	for L := 0; L <= 5; L++ {
		total := 1
		for i := 0; i < L; i++ {
			total *= nOps
		}
		for code := 0; code < total; code++ {
			in := append([]int(nil), input...)
			if input == nil {
				in = nil
			}
			s := slices.NewSorted(in, func(a, b int) bool { return a < b })
			model := append([]int(nil), input...)
			sort.Ints(model)
			hist := []string{fmt.Sprintf("NewSorted(%v)", input)}
			fail := func(sig, msg string) {
				c.Violate("sweep:"+sig, fmt.Sprintf("%s [exhaustive sweep, history %v]", msg, hist), map[string]any{"history": hist})
			}
			judge := func() bool {
				if s.Len() != len(model) {
					fail("Len", fmt.Sprintf("Len()=%d, model %v", s.Len(), model))
					return false
				}
				for i, v := range model {
					if g := s.Get(i); g != v {
						fail("contents", fmt.Sprintf("Get(%d)=%d, model %v", i, g, model))
						return false
					}
				}
				for v := 0; v <= 3; v++ {
					want := -1
					for i, x := range model {
						if x == v {
							want = i
							break
						}
					}
					if g := s.Index(v); g != want || s.Contains(v) != (want >= 0) {
						fail("Index", fmt.Sprintf("Index(%d)=%d Contains=%v, model %v", v, g, s.Contains(v), model))
						return false
					}
				}
				if !eqSlice(in, input) {
					fail("input-modified", fmt.Sprintf("the caller's input slice is now %v", in))
					return false
				}
				return true
			}
			if !judge() {
				return
			}
			for x, k := code, 0; k < L; k++ {
				op := x % nOps
				x /= nOps
				var p bool
				var pv any
				switch {
				case op < 3:
					hist = append(hist, fmt.Sprintf("Add(%d)", op))
					var idx int
					p, pv = core.Catch(func() { idx = s.Add(op) })
					i := sort.SearchInts(model, op)
					model = append(model[:i:i], append([]int{op}, model[i:]...)...)
					if !p && (idx < 0 || idx >= len(model) || model[idx] != op) {
						fail("Add:returned-index", fmt.Sprintf("Add(%d) returned %d, contents now %v", op, idx, model))
						return
					}
				case op < 6:
					v := op - 3
					hist = append(hist, fmt.Sprintf("Remove(%d)", v))
					i := sort.SearchInts(model, v)
					want := -1
					if i < len(model) && model[i] == v {
						want = i
					}
					var idx int
					p, pv = core.Catch(func() { idx = s.Remove(v) })
					if !p && (want < 0) != (idx < 0) || (!p && idx >= 0 && (idx >= len(model) || model[idx] != v)) {
						fail("Remove:returned-index", fmt.Sprintf("Remove(%d) returned %d, contents before %v", v, idx, model))
						return
					}
					if want >= 0 {
						model = append(model[:want:want], model[want+1:]...)
					}
				default:
					at := 0
					if op == 7 {
						at = len(model) - 1
					}
					hist = append(hist, fmt.Sprintf("RemoveAt(%d)", at))
					p, pv = core.Catch(func() { s.RemoveAt(at) })
					if len(model) == 0 {
						if !p {
							fail("RemoveAt:no-panic", "RemoveAt on an empty Sorted did not panic")
							return
						}
						p = false
					} else {
						model = append(model[:at:at], model[at+1:]...)
					}
				}
				if p {
					fail("panic", fmt.Sprintf("the last call panicked: %v", pv))
					return
				}
				if !judge() {
					return
				}
			}
			histories++
		}
	}
	c.Count("exhaustive_sweep_histories", int64(histories))
	c.Count("exhaustive_sweeps_completed", 1)
	c.NonTrivial(core.Mix(7, uint64(which), 0x5eeb))
	if c.WantSample() {
		c.Sample(map[string]any{"systematic": true, "initial_input": fmt.Sprint(input), "histories_enumerated": histories, "what": "all histories of length <= 5 over 8 calls"})
	}
}

func runC07(c *core.Ctx) {
	if c.Index < 8 {
		c07sweep(c, int(c.Index))
		return
	}
	switch c.R.Intn(8) {
	case 6: // elements of 96 bytes (size-dependent copy or search paths)
		sortedStrict(c, "[12]int64", func(r *core.Rand) [12]int64 { v := int64(r.Intn(30)); return [12]int64{0: v / 5, 5: v % 5, 11: -v} },
			func(a, b [12]int64) bool {
				if a[0] != b[0] {
					return a[0] < b[0]
				}
				return a[5] < b[5]
			}, false)
	case 7: // floats over a wide exponent range, infinities included
		{
			// +0.0 and -0.0 are == : stored as one, found as the other (NewSortedOrdered path)
			nz := math.Copysign(0, -1)
			so := slices.NewSortedOrdered(3.5, nz, -2, 7)
			so32 := slices.NewSortedOrdered(float32(3.5), float32(nz), -2, 7)
			if so.Index(0.0) != 1 || !so.Contains(0.0) || so32.Index(0) != 1 || so.Index(nz) != 1 {
				c.Violate("Index:signed-zero", fmt.Sprintf("NewSortedOrdered(3.5,-0.0,-2,7): Index(+0.0)=%d Contains(+0.0)=%v Index(-0.0)=%d (float32: %d); -0.0 == +0.0 sits at position 1", so.Index(0.0), so.Contains(0.0), so.Index(nz), so32.Index(0)), nil)
				return
			}
			so.Add(0.0)
			if so.Index(nz) != 1 || so.Len() != 5 || so.Remove(0.0) != 1 || so.Remove(nz) != 1 || so.Contains(0.0) {
				c.Violate("Remove:signed-zero", "NewSortedOrdered over floats: with -0.0 and +0.0 stored, Index/Remove of either zero must act on position 1 twice and leave no zero behind", nil)
				return
			}
		}
		sortedStrict(c, "float64", func(r *core.Rand) float64 {
			return []float64{0, 0.25, 1, -1, 0.5, 1e300, -1e300, 5e-324, math.Inf(1), math.Inf(-1), 2, 3}[r.Intn(12)]
		}, func(a, b float64) bool { return a < b }, false)
	case 0:
		sortedStrict(c, "int-asc", func(r *core.Rand) int { return r.Intn(12) }, func(a, b int) bool { return a < b }, true)
	case 1:
		sortedStrict(c, "int-desc", func(r *core.Rand) int { return r.Intn(40) - 20 }, func(a, b int) bool { return a > b }, false)
	case 2:
		sortedStrict(c, "string", func(r *core.Rand) string { return string(rune('a'+r.Intn(5))) + string(rune('a'+r.Intn(3))) },
			func(a, b string) bool { return a < b }, false)
	case 3:
		sortedStrict(c, "struct", func(r *core.Rand) pair16 { return pair16{int16(r.Intn(3)), int16(r.Intn(4))} },
			func(x, y pair16) bool {
				if x.A != y.A {
					return x.A < y.A
				}
				return x.B < y.B
			}, false)
	case 4:
		sortedStrict(c, "int-wide", func(r *core.Rand) int { return int(int32(r.Uint64())) }, func(a, b int) bool { return a < b }, true)
	case 5:
		sortedWeak(c)
	}
}

func sortedStrict[T comparable](c *core.Ctx, tname string, gen func(*core.Rand) T, less func(a, b T) bool, ordered bool) {
	r := c.R
	var hist []string
	fail := func(sig, msg string) {
		c.Violate(sig, msg+fmt.Sprintf(" [type=%s after %d calls]", tname, len(hist)), map[string]any{"type": tname, "history": append([]string{}, hist...)})
	}
	// initial input: random, possibly nil, possibly with spare capacity
	n0 := r.Pick(2, 2, 6)
	var input []T
	switch n0 {
	case 0:
		input = nil
	case 1:
		input = []T{}
	default:
		k := r.Range(1, 40)
		if r.Chance(1, 12) {
			k = r.Range(200, 3000) // far beyond any small-size fast path
			c.Count("input_big", 1)
		}
		input = make([]T, k, k+r.Intn(5))
		for i := range input {
			input[i] = gen(r)
		}
	}
	// a third of the non-trivial inputs are structured: a long already-sorted prefix
	// followed by an unsorted remainder (some of it smaller than the first value),
	// fully sorted, or reversed - the habitat of adaptive constructors
	if len(input) >= 4 && r.Chance(1, 3) {
		sort.SliceStable(input, func(i, j int) bool { return less(input[i], input[j]) })
		switch r.Intn(3) {
		case 0: // sorted prefix covering at least half, random remainder
			p := r.Range(len(input)/2, len(input)-1)
			tail := input[p:]
			for i := len(tail) - 1; i > 0; i-- {
				j := r.Intn(i + 1)
				tail[i], tail[j] = tail[j], tail[i]
			}
			// move some of the smallest values into the remainder
			for k := 0; k < 1+r.Intn(2) && p+k < len(input); k++ {
				input[k], input[p+k] = input[p+k], input[k]
			}
			// keep the prefix ascending after the exchange
			pre := input[:p]
			sort.SliceStable(pre, func(i, j int) bool { return less(pre[i], pre[j]) })
			c.Count("input_sorted_prefix_plus_remainder", 1)
		case 1:
			c.Count("input_sorted", 1)
		case 2:
			for i, j := 0, len(input)-1; i < j; i, j = i+1, j-1 {
				input[i], input[j] = input[j], input[i]
			}
			c.Count("input_reversed", 1)
		}
	}
	snap := append([]T(nil), input...)
	hist = append(hist, fmt.Sprintf("NewSorted(%v)", input))
	var s slices.Sorted[T]
	useOrd := ordered && r.Bool()
	if p, pv := core.Catch(func() {
		if useOrd {
			s = any(slices.NewSortedOrdered(any(input).([]int)...)).(slices.Sorted[T])
		} else {
			s = slices.NewSorted(input, less)
		}
	}); p {
		fail("NewSorted:panic", fmt.Sprintf("NewSorted panicked: %v", pv))
		return
	}
	model := append([]T(nil), snap...)
	sort.SliceStable(model, func(i, j int) bool { return less(model[i], model[j]) })
	if !eqSlice(input, snap) {
		fail("NewSorted:input-reordered", fmt.Sprintf("caller's slice changed from %v to %v", snap, input))
		return
	}
	read := func() []T {
		out := make([]T, s.Len())
		for i := range out {
			out[i] = s.Get(i)
		}
		return out
	}
	// further Sorted values of the same element type, created while the first one is in
	// use (17..520 initial values: the sizes where a constructor might sort through
	// shared scratch memory); every one must keep its own contents
	type otherSorted struct {
		s     slices.Sorted[T]
		model []T
	}
	var others []otherSorted
	spawnOther := func() {
		k := []int{r.Range(17, 40), r.Range(65, 130), r.Range(257, 520), r.Range(1, 16)}[r.Intn(4)]
		in := make([]T, k)
		for i := range in {
			in[i] = gen(r)
		}
		m := append([]T(nil), in...)
		sort.SliceStable(m, func(i, j int) bool { return less(m[i], m[j]) })
		others = append(others, otherSorted{slices.NewSorted(in, less), m})
		hist = append(hist, fmt.Sprintf("another NewSorted(%d values)", k))
		c.Count("second_sorted_values_created", 1)
	}
	var check func(op string) bool
	check = func(op string) bool {
		var got []T
		if p, pv := core.Catch(func() { got = read() }); p {
			fail(op+":panic-in-observation", fmt.Sprintf("reading back after %s panicked: %v", op, pv))
			return false
		}
		c.Count("observations", 1)
		for oi := range others {
			o := &others[oi]
			if o.s.Len() != len(o.model) {
				fail(op+":another-value-changed", fmt.Sprintf("Sorted value number %d created during this history has Len %d, it was built from %d values", oi+2, o.s.Len(), len(o.model)))
				return false
			}
			for i, v := range o.model {
				if g := o.s.Get(i); g != v {
					fail(op+":another-value-changed", fmt.Sprintf("Sorted value number %d created during this history holds %v at position %d, it was built with %v there", oi+2, g, i, v))
					return false
				}
			}
		}
		if !eqSlice(got, model) {
			fail(op+":contents", fmt.Sprintf("after %s contents are %v, model %v", op, got, model))
			return false
		}
		if st, want := s.String(), fmt.Sprint(model); st != want {
			fail(op+":String", fmt.Sprintf("String()=%q want %q", st, want))
			return false
		}
		if !eqSlice(input, snap) {
			fail(op+":aliases-input", fmt.Sprintf("after %s the caller's input slice changed from %v to %v", op, snap, input))
			return false
		}
		// spare capacity of the caller's slice must not be written either
		if cap(input) > len(input) {
			ext := input[:cap(input)]
			for i := len(input); i < len(ext); i++ {
				var z T
				if ext[i] != z {
					fail(op+":aliases-input-capacity", fmt.Sprintf("after %s spare capacity of the caller's slice holds %v", op, ext[i]))
					return false
				}
			}
		}
		return true
	}
	if !check("NewSorted") {
		return
	}
	if r.Chance(1, 3) {
		spawnOther()
		if !check("NewSorted(another value)") {
			return
		}
	}
	// mutating the caller's slice must not reach the Sorted
	if len(input) > 0 && r.Bool() {
		input[r.Intn(len(input))] = gen(r)
		snap = append(snap[:0:0], input...)
		hist = append(hist, "mutate-caller-slice")
		if !check("mutate-input") {
			return
		}
	}
	first := func(v T) int {
		for i, x := range model {
			if x == v {
				return i
			}
		}
		return -1
	}
	absent := func() (T, bool) {
		for try := 0; try < 20; try++ {
			v := gen(r)
			if first(v) < 0 {
				return v, true
			}
		}
		var z T
		return z, false
	}
	nops := r.Range(1, 100)
	var hh uint64 = core.Mix(core.HashString(tname), core.HashString(fmt.Sprint(snap)))
	nontrivial := false
	// observation cadence: a third of the histories re-read the contents only
	// every 2..6 calls (return values are still judged on every call)
	obsEvery := 1
	if r.Chance(1, 3) {
		obsEvery = r.Range(2, 6)
	}
	fullCheck := check
	step := 0
	check = func(op string) bool {
		if step%obsEvery == obsEvery-1 || step == nops-1 {
			return fullCheck(op)
		}
		return true
	}
	if len(model) >= 100 && r.Bool() {
		// a burst of removals from the front half of a big slice (pop-min style)
		burst := r.Range(60, len(model)-20)
		drain := r.Chance(1, 3)
		backToFront := r.Bool()
		if drain {
			// drained completely (then used again below): whatever a big slice releases or
			// resets when it runs empty must leave a working Sorted behind
			burst = len(model)
			c.Count("big_slice_drained_to_empty_then_reused", 1)
		}
		for i := 0; i < burst && len(model) > 0; i++ {
			pos := r.Intn(len(model)/2 + 1)
			if r.Chance(2, 3) {
				pos = 0
			}
			if drain && backToFront {
				pos = len(model) - 1 - r.Intn(len(model)/8+1)
			}
			if drain && r.Chance(1, 3) {
				hist = append(hist, fmt.Sprintf("burst:RemoveAt(%d)", pos))
				if p, pv := core.Catch(func() { s.RemoveAt(pos) }); p {
					fail("RemoveAt:panic", fmt.Sprintf("RemoveAt(%d) with Len %d panicked: %v", pos, len(model), pv))
					return
				}
				model = append(model[:pos:pos], model[pos+1:]...)
				continue
			}
			v := model[pos]
			hist = append(hist, fmt.Sprintf("burst:Remove(%v)", v))
			var idx int
			if p, pv := core.Catch(func() { idx = s.Remove(v) }); p {
				fail("Remove(present):panic", fmt.Sprintf("Remove(%v) panicked: %v", v, pv))
				return
			}
			if idx < 0 || idx >= len(model) || model[idx] != v {
				fail("Remove(present):returned-index", fmt.Sprintf("burst: Remove(%v) returned %d", v, idx))
				return
			}
			model = append(model[:idx:idx], model[idx+1:]...)
			if i%16 == 15 && !fullCheck("Remove(present)") {
				return
			}
		}
		c.Count("front_removal_bursts", 1)
		if !fullCheck("Remove(present)") {
			return
		}
	}
	if r.Chance(1, 40) || (len(model) >= 1024 && r.Bool()) {
		// a long streak of Adds with no removal in between (1300+ from a small slice, a
		// third to a half of the current length on a big one): growth steps of the backing
		// array taken in the middle of a streak
		streak := r.Range(1300, 2600)
		if len(model) >= 1024 {
			streak = r.Range(len(model)/3, len(model)/2+200)
		}
		for i := 0; i < streak; i++ {
			v := gen(r)
			var idx int
			if p, pv := core.Catch(func() { idx = s.Add(v) }); p {
				hist = append(hist, fmt.Sprintf("streak:Add(%v)", v))
				fail("Add:panic", fmt.Sprintf("Add(%v) (number %d of a streak of Adds) panicked: %v", v, i+1, pv))
				return
			}
			k := sort.Search(len(model), func(k int) bool { return !less(model[k], v) })
			model = append(model, v)
			copy(model[k+1:], model[k:])
			model[k] = v
			if idx < 0 || idx >= len(model) || model[idx] != v {
				hist = append(hist, fmt.Sprintf("streak:Add(%v)", v))
				fail("Add:returned-index", fmt.Sprintf("Add(%v) (number %d of a streak of Adds, Len now %d) returned %d", v, i+1, len(model), idx))
				return
			}
			if s.Len() != len(model) {
				hist = append(hist, fmt.Sprintf("streak:Add(%v)", v))
				fail("Add:Len", fmt.Sprintf("after Add number %d of a streak Len()=%d, model %d", i+1, s.Len(), len(model)))
				return
			}
			if i%128 == 127 && !fullCheck("Add") {
				return
			}
		}
		hist = append(hist, fmt.Sprintf("streak of %d Adds", streak))
		c.Count("long_add_streaks", 1)
		if !fullCheck("Add") {
			return
		}
	}
	for step = 0; step < nops; step++ {
		if len(others) < 3 && r.Chance(1, 80) {
			spawnOther()
		}
		switch r.Pick(30, 12, 8, 8, 4, 10, 10, 4) {
		case 0: // Add
			v := gen(r)
			hist = append(hist, fmt.Sprintf("Add(%v)", v))
			var idx int
			if p, pv := core.Catch(func() { idx = s.Add(v) }); p {
				fail("Add:panic", fmt.Sprintf("Add(%v) panicked: %v", v, pv))
				return
			}
			dup := first(v) >= 0
			// model: insert before the first element not less than v
			i := sort.Search(len(model), func(i int) bool { return !less(model[i], v) })
			model = append(model, v)
			copy(model[i+1:], model[i:])
			model[i] = v
			if idx < 0 || idx >= len(model) || model[idx] != v {
				fail("Add:returned-index", fmt.Sprintf("Add(%v) returned %d but the value is not at that position of %v", v, idx, model))
				return
			}
			if dup {
				c.Count("add_duplicate", 1)
				nontrivial = true
			} else {
				c.Count("add_new", 1)
			}
			if !check("Add") {
				return
			}
		case 1: // Remove present
			if len(model) == 0 {
				continue
			}
			v := model[r.Intn(len(model))]
			hist = append(hist, fmt.Sprintf("Remove(%v)", v))
			var idx int
			if p, pv := core.Catch(func() { idx = s.Remove(v) }); p {
				fail("Remove(present):panic", fmt.Sprintf("Remove(%v) panicked: %v", v, pv))
				return
			}
			if idx < 0 || idx >= len(model) || model[idx] != v {
				fail("Remove(present):returned-index", fmt.Sprintf("Remove(%v) returned %d; contents before were %v", v, idx, model))
				return
			}
			model = append(model[:idx:idx], model[idx+1:]...)
			c.Count("remove_present", 1)
			if !check("Remove(present)") {
				return
			}
		case 2: // Remove absent
			v, ok := absent()
			if !ok {
				continue
			}
			hist = append(hist, fmt.Sprintf("Remove(%v)[absent]", v))
			var idx int
			if p, pv := core.Catch(func() { idx = s.Remove(v) }); p {
				fail("Remove(absent):panic", fmt.Sprintf("Remove(%v) of an absent value panicked: %v (contents %v)", v, pv, model))
				return
			}
			if idx != -1 {
				fail("Remove(absent):returned-index", fmt.Sprintf("Remove(%v) of an absent value returned %d", v, idx))
				return
			}
			c.Count("remove_absent", 1)
			nontrivial = true
			if !check("Remove(absent)") {
				return
			}
		case 3: // RemoveAt in range
			if len(model) == 0 {
				continue
			}
			i := r.Intn(len(model))
			hist = append(hist, fmt.Sprintf("RemoveAt(%d)", i))
			if p, pv := core.Catch(func() { s.RemoveAt(i) }); p {
				fail("RemoveAt:panic", fmt.Sprintf("RemoveAt(%d) with Len %d panicked: %v", i, len(model), pv))
				return
			}
			model = append(model[:i:i], model[i+1:]...)
			c.Count("removeat", 1)
			if !check("RemoveAt") {
				return
			}
		case 4: // out-of-range Get / RemoveAt must panic and change nothing
			// positions that are out of range but inside it modulo 2^32, 2^16 or 2^8 included
			in := 0
			if len(model) > 0 {
				in = r.Intn(len(model))
			}
			i := []int{-2, -1, len(model), len(model) + 1, math.MaxInt, math.MinInt, math.MaxInt - 1, math.MinInt + 1,
				in + 1<<32, in - 1<<32, in + 5<<32, in + 1<<31, in - 1<<31, in + 1<<16, in + 1<<8, in + math.MinInt, in + 1<<62}[r.Intn(17)]
			if i >= 0 && i < len(model) {
				i = -1
			}
			which := r.Bool()
			hist = append(hist, fmt.Sprintf("out-of-range(%d,get=%v)", i, which))
			var p bool
			if which {
				p, _ = core.Catch(func() { s.Get(i) })
			} else {
				p, _ = core.Catch(func() { s.RemoveAt(i) })
			}
			if !p {
				fail("out-of-range:no-panic", fmt.Sprintf("position %d with Len %d did not panic (get=%v)", i, len(model), which))
				return
			}
			c.Count("out_of_range_panics", 1)
			if !check("out-of-range") {
				return
			}
		case 5, 6: // Index / Contains, present and absent
			var v T
			pres := r.Bool() && len(model) > 0
			if pres {
				v = model[r.Intn(len(model))]
			} else {
				v = gen(r)
			}
			hist = append(hist, fmt.Sprintf("Index(%v)", v))
			want := first(v)
			var got int
			var gc bool
			if p, pv := core.Catch(func() { got = s.Index(v); gc = s.Contains(v) }); p {
				fail("Index:panic", fmt.Sprintf("Index/Contains(%v) panicked: %v", v, pv))
				return
			}
			if got != want {
				fail("Index:wrong", fmt.Sprintf("Index(%v)=%d, first position is %d in %v", v, got, want, model))
				return
			}
			if gc != (want >= 0) {
				fail("Contains:wrong", fmt.Sprintf("Contains(%v)=%v but Index is %d", v, gc, want))
				return
			}
			c.Count("index_contains", 1)
		case 7: // Len
			if s.Len() != len(model) {
				fail("Len", fmt.Sprintf("Len()=%d model %d", s.Len(), len(model)))
				return
			}
		}
		hh = core.Mix(hh, core.HashString(hist[len(hist)-1]))
		c.Count("calls", 1)
	}
	if !fullCheck("final") {
		return
	}
	// a successful lookup, then exactly 256 / 512 / 65536 mutations with no lookup in
	// between, then the same lookup again: whatever a lookup remembers must have been
	// invalidated, however many mutations a small counter can count
	if len(model) > 0 && c.Index%6 == 1 {
		v := model[r.Intn(len(model))]
		top := model[len(model)-1]
		stages := []int{256, 512}
		if c.Index%60 == 1 {
			stages = append(stages, 65536)
		}
		for _, m := range stages { // exactly m mutations between two lookups of v
			if s.Index(v) != first(v) {
				fail("Index:wrong", fmt.Sprintf("Index(%v)=%d, first position is %d", v, s.Index(v), first(v)))
				return
			}
			for i := 0; i < m-2; i += 2 {
				// two mutations that restore the contents: add a copy of the greatest value, remove it again
				s.Add(top)
				s.RemoveAt(s.Len() - 1)
			}
			// one real change in front of v, so that a remembered position is wrong
			lowest := model[0]
			s.Add(lowest)
			model = append([]T{lowest}, model...)
			s.Add(lowest)
			model = append([]T{lowest}, model...)
			hist = append(hist, fmt.Sprintf("Index(%v), %d mutations without a lookup, 2 Adds in front", v, m))
			if got, gc := s.Index(v), s.Contains(v); got != first(v) || !gc {
				fail("Index:stale-after-many-mutations", fmt.Sprintf("Index(%v)=%d Contains=%v after a successful lookup followed by %d mutations and two Adds in front of it; the first position is %d", v, got, gc, m, first(v)))
				return
			}
		}
		c.Count("lookup_then_mutation_storms", 1)
		if !fullCheck("storm") {
			return
		}
	}
	if nontrivial {
		c.NonTrivial(hh)
	}
	if c.WantSample() {
		h := hist
		if len(h) > 30 {
			h = h[:30]
		}
		c.Sample(map[string]any{"type": tname, "calls": len(hist), "history_prefix": h})
	}
}

// sortedWeak: less compares Key only, values carry unique IDs. Only the
// invariant half of the property applies.
func sortedWeak(c *core.Ctx) {
	r := c.R
	nextID := 0
	gen := func() wk { nextID++; return wk{Key: r.Intn(5), ID: nextID} }
	less := func(a, b wk) bool { return a.Key < b.Key }
	var hist []string
	fail := func(sig, msg string) {
		c.Violate("weak:"+sig, msg+fmt.Sprintf(" [weak order, after %d calls]", len(hist)), map[string]any{"history": append([]string{}, hist...)})
	}
	k := r.Intn(20)
	input := make([]wk, k)
	for i := range input {
		input[i] = gen()
	}
	snap := append([]wk(nil), input...)
	hist = append(hist, fmt.Sprintf("NewSorted(%v)", input))
	s := slices.NewSorted(input, less)
	bag := map[wk]int{}
	for _, v := range input {
		bag[v]++
	}
	read := func() []wk {
		out := make([]wk, s.Len())
		for i := range out {
			out[i] = s.Get(i)
		}
		return out
	}
	check := func(op string) bool {
		got := read()
		c.Count("observations", 1)
		for i := 1; i < len(got); i++ {
			if less(got[i], got[i-1]) {
				fail(op+":not-sorted", fmt.Sprintf("after %s element %d (%v) is less than its predecessor (%v): %v", op, i, got[i], got[i-1], got))
				return false
			}
		}
		m := map[wk]int{}
		for _, v := range got {
			m[v]++
		}
		if len(m) != len(bag) {
			fail(op+":multiset", fmt.Sprintf("after %s contents %v are not the multiset put in (%d distinct vs %d)", op, got, len(m), len(bag)))
			return false
		}
		for v, n := range bag {
			if m[v] != n {
				fail(op+":multiset", fmt.Sprintf("after %s value %v occurs %d times, expected %d", op, v, m[v], n))
				return false
			}
		}
		if !eqSlice(input, snap) {
			fail(op+":aliases-input", "caller's slice changed")
			return false
		}
		return true
	}
	if !check("NewSorted") {
		return
	}
	nops := r.Range(1, 80)
	var hh uint64 = 77
	for step := 0; step < nops; step++ {
		switch r.Pick(5, 2, 2) {
		case 0:
			v := gen()
			hist = append(hist, fmt.Sprintf("Add(%v)", v))
			if p, pv := core.Catch(func() { s.Add(v) }); p {
				fail("Add:panic", fmt.Sprintf("Add(%v) panicked: %v", v, pv))
				return
			}
			bag[v]++
			if !check("Add") {
				return
			}
		case 1:
			if s.Len() == 0 {
				continue
			}
			i := r.Intn(s.Len())
			v := s.Get(i)
			hist = append(hist, fmt.Sprintf("RemoveAt(%d)", i))
			s.RemoveAt(i)
			if bag[v]--; bag[v] == 0 {
				delete(bag, v)
			}
			if !check("RemoveAt") {
				return
			}
		case 2:
			// Remove(v) of a value that is literally present. With ties the
			// documented caveat applies: it may report -1 (nothing taken out) or
			// remove an element; either way the multiset bookkeeping must hold.
			if s.Len() == 0 {
				continue
			}
			before := read()
			v := before[r.Intn(len(before))]
			hist = append(hist, fmt.Sprintf("Remove(%v)", v))
			var idx int
			if p, _ := core.Catch(func() { idx = s.Remove(v) }); p {
				// outside the strict-order clause of the property: not judged,
				// but the contents must not have been corrupted
				c.Count("weak_remove_panics_not_judged", 1)
				if !check("Remove(panicked)") {
					return
				}
				continue
			}
			if idx >= 0 {
				if idx >= len(before) {
					fail("Remove:index", fmt.Sprintf("Remove(%v) returned %d with Len %d", v, idx, len(before)))
					return
				}
				gone := before[idx]
				if bag[gone]--; bag[gone] == 0 {
					delete(bag, gone)
				}
			}
			if !check("Remove") {
				return
			}
		}
		hh = core.Mix(hh, core.HashString(hist[len(hist)-1]))
		c.Count("calls", 1)
		c.Count("weak_order_calls", 1)
	}
	if len(hist) > 2 {
		c.NonTrivial(hh)
	}
}
