package props

import (
	"context"
	"fmt"
	"math"
	"os"
	"runtime"
	"sort"
	"sync"
	"sync/atomic"
	"time"

	"gopkg.in/typ.v4/chans"
	"verifharness/internal/core"
)

// C19 — channel helpers never lose, duplicate or invent a value.
// modes: queued — sequential sweep of RecvQueued/RecvQueuedFull over every
//                 capacity 0..5 x fill x open/closed x limit 0..cap+2
//        timed  — free-running scenarios for SendTimeout/SendContext/
//                 RecvTimeout/RecvContext with peers arriving before/around/after
//                 the deadline; conservation oracle over unique values, valid
//                 whichever side wins a race

func init() { register("C19", runC19) }

func runC19(c *core.Ctx) {
	switch c.Mode {
	case "queued":
		c19queued(c)
	case "timed":
		c19timed(c)
	}
}

// c19queuedBig: capacities around and above 64 (chunked implementations), limits
// around multiples of 64, fewer / exactly / more values queued than the limit.
// keeper remembers the slice returned by the previous RecvQueued call: the result is
// the caller's, a later call must not change it (a pooled or shared scratch buffer would).
type keeper struct {
	res, snap []int
	desc      string
}

func (k *keeper) check(c *core.Ctx, got []int, desc string, full bool) bool {
	if k.res != nil && !eqSlice(k.res, k.snap) {
		c.Violate("RecvQueued:earlier-result-changed", fmt.Sprintf("the slice returned by %s held %v; after the later call %s it holds %v", k.desc, k.snap, desc, k.res), nil)
		return false
	}
	if !full && len(got) > 0 {
		k.res, k.snap, k.desc = got, append([]int(nil), got...), desc
	}
	return true
}

func c19queuedBig(c *core.Ctx) {
	var keep keeper
	base := 100
	k := int(c.Index - 48)
	capa := []int{64, 65, 100, 129, 200, 300}[k%6]
	closed := (k/6)%2 == 1
	full := (k/12)%2 == 1
	for _, fill := range []int{0, 1, capa / 2, capa - 1, capa} {
		for _, limit := range []int{0, 1, 63, 64, 65, 100, 127, 128, 129, 191, 192, 193, capa - 1, capa, capa + 1, capa + 70} {
			if limit < 0 {
				continue
			}
			ch := make(chan int, capa)
			base += 1000 // other values in every call: a result that is overwritten later shows
			for i := 0; i < fill; i++ {
				ch <- base + i
			}
			if closed {
				close(ch)
			}
			want := fill
			if limit < want {
				want = limit
			}
			name := "RecvQueued"
			if full {
				name = "RecvQueuedFull"
			}
			desc := fmt.Sprintf("%s(cap=%d fill=%d closed=%v limit=%d)", name, capa, fill, closed, limit)
			fmt.Fprintf(os.Stderr, "VWORK-OP %s\n", desc)
			var got []int
			if full {
				buf := make([]int, limit)
				n := chans.RecvQueuedFull(ch, buf)
				if n < 0 || n > limit {
					c.Violate(name+":count[big]", fmt.Sprintf("%s returned %d", desc, n), nil)
					return
				}
				got = buf[:n]
			} else {
				got = chans.RecvQueued(ch, limit)
			}
			c.Count("queued_calls", 1)
			c.Count("queued_big_capacity", 1)
			if !keep.check(c, got, desc, full) {
				return
			}
			if len(got) != want {
				c.Violate(name+":count[big]", fmt.Sprintf("%s returned %d values, %d were queued and the limit is %d", desc, len(got), fill, limit), nil)
				return
			}
			for i, v := range got {
				if v != base+i {
					c.Violate(name+":order-or-invented[big]", fmt.Sprintf("%s: value %d is %d", desc, i, v), nil)
					return
				}
			}
			if len(ch) != fill-want {
				c.Violate(name+":consumed-too-much[big]", fmt.Sprintf("%s left %d values in the channel, expected %d", desc, len(ch), fill-want), nil)
				return
			}
		}
	}
	c.Count("exhaustive_sweeps_completed", 1)
	c.NonTrivial(core.Mix(191, uint64(k)))
}

// c19queuedTyped: the queued receivers over other element types (size 0, 40 and 4800 bytes).
func c19queuedTyped[T comparable](c *core.Ctx, tname string, mk func(i int) T) bool {
	for _, capa := range []int{1, 3, 10} {
		for fill := 0; fill <= capa; fill++ {
			for _, limit := range []int{0, 1, fill, capa + 2} {
				ch := make(chan T, capa)
				for i := 0; i < fill; i++ {
					ch <- mk(i + 1)
				}
				want := fill
				if limit < want {
					want = limit
				}
				got := chans.RecvQueued(ch, limit)
				if len(got) != want {
					c.Violate("RecvQueued:count["+tname+" elements]", fmt.Sprintf("RecvQueued(cap=%d fill=%d limit=%d) over %s elements returned %d values, expected %d", capa, fill, limit, tname, len(got), want), nil)
					return false
				}
				for i, v := range got {
					if v != mk(i+1) {
						c.Violate("RecvQueued:order-or-invented["+tname+" elements]", fmt.Sprintf("RecvQueued over %s elements: value %d is wrong", tname, i), nil)
						return false
					}
				}
				buf := make([]T, limit)
				n := chans.RecvQueuedFull(ch, buf)
				if rest := fill - want; n != min(rest, limit) || len(ch) != rest-n {
					c.Violate("RecvQueuedFull:count["+tname+" elements]", fmt.Sprintf("RecvQueuedFull over %s elements returned %d with %d queued and a buffer of %d", tname, n, rest, limit), nil)
					return false
				}
				c.Count("queued_calls", 2)
			}
		}
	}
	c.Count("queued_element_type_"+tname, 1)
	return true
}

func c19queued(c *core.Ctx) {
	if c.Index == 0 {
		if !c19queuedTyped(c, "0-byte", func(i int) struct{} { return struct{}{} }) ||
			!c19queuedTyped(c, "40-byte", func(i int) [5]int64 { return [5]int64{int64(i), 4: int64(-i)} }) ||
			!c19queuedTyped(c, "4800-byte", func(i int) [600]int64 { return [600]int64{int64(i), 599: int64(-i)} }) {
			return
		}
	}
	if c.Index >= 48 {
		c19queuedBig(c)
		return
	}
	// case index -> capacity (0..5) and closed flag; all fills and limits inside
	capa := int(c.Index % 6)
	closed := (c.Index/6)%2 == 1
	full := (c.Index/12)%2 == 1 // RecvQueuedFull instead of RecvQueued
	recvOnly := (c.Index/24)%2 == 1
	var keep keeper
	base := 100
	for fill := 0; fill <= capa; fill++ {
		limits := make([]int, 0, capa+6)
		for limit := 0; limit <= capa+2; limit++ {
			limits = append(limits, limit)
		}
		if !full {
			// "no limit" idioms: the limit is an upper bound, not an allocation size
			limits = append(limits, math.MaxInt, math.MaxInt-1, math.MaxInt/2)
		}
		for _, limit := range limits {
			ch := make(chan int, capa)
			base += 1000 // other values in every call: a result that is overwritten later shows
			for i := 0; i < fill; i++ {
				ch <- base + i
			}
			if closed {
				close(ch)
			}
			want := fill
			if limit < want {
				want = limit
			}
			name := "RecvQueued"
			if full {
				name = "RecvQueuedFull"
			}
			desc := fmt.Sprintf("%s(cap=%d fill=%d closed=%v limit=%d)", name, capa, fill, closed, limit)
			fmt.Fprintf(os.Stderr, "VWORK-OP %s\n", desc)
			var got []int
			if p, pv := core.Catch(func() {
				if full {
					// the buffer has spare capacity: only len(buf) may be filled
					buf := make([]int, limit, limit+3)
					for i := range buf {
						buf[i] = -1
					}
					var n int
					if recvOnly {
						n = chans.RecvQueuedFull((<-chan int)(ch), buf)
					} else {
						n = chans.RecvQueuedFull(ch, buf)
					}
					if n < 0 || n > limit {
						got = []int{-999, n}
					} else {
						got = buf[:n]
						for i := n; i < limit; i++ {
							if buf[i] != -1 {
								got = []int{-998, i, buf[i]}
							}
						}
					}
				} else if recvOnly {
					got = chans.RecvQueued((<-chan int)(ch), limit)
				} else {
					got = chans.RecvQueued(ch, limit)
				}
			}); p {
				c.Violate(name+":panic", fmt.Sprintf("%s panicked: %v", desc, pv), nil)
				return
			}
			cls := "open"
			if closed {
				cls = "closed"
			}
			c.Count("queued_calls", 1)
			c.Count("queued_"+cls, 1)
			if len(got) == 0 || got[0] > -900 {
				if !keep.check(c, got, desc, full) {
					return
				}
			}
			if len(got) != want {
				c.Violate(name+":count["+cls+"]", fmt.Sprintf("%s returned %d values %v, %d were queued and the limit is %d", desc, len(got), got, fill, limit), nil)
				return
			}
			for i, v := range got {
				if v != base+i {
					c.Violate(name+":order-or-invented["+cls+"]", fmt.Sprintf("%s returned %v; queued values are consecutive numbers in FIFO order", desc, got), nil)
					return
				}
			}
			// the rest is still in the channel
			rest := fill - want
			if len(ch) != rest {
				c.Violate(name+":consumed-too-much["+cls+"]", fmt.Sprintf("%s left %d values in the channel, expected %d", desc, len(ch), rest), nil)
				return
			}
			for i := 0; i < rest; i++ {
				if v := <-ch; v != base+want+i {
					c.Violate(name+":rest-order["+cls+"]", fmt.Sprintf("%s: remaining value %d is %d", desc, i, v), nil)
					return
				}
			}
		}
	}
	c.Count("exhaustive_sweeps_completed", 1)
	c.NonTrivial(core.Mix(19, uint64(c.Index%48)))
	if c.WantSample() {
		c.Sample(map[string]any{"mode": "queued", "capacity": capa, "closed": closed, "full_variant": full, "receive_only_channel_type": recvOnly, "covered": "every fill 0..cap x every limit 0..cap+2"})
	}
}

// timedStuck: once a timed helper has been caught never returning, the stuck
// goroutines (and possibly a poisoned timer pool) stay in this process; further
// scenarios here would only burn a minute each. One verdict per process.
var timedStuck atomic.Bool

func c19timed(c *core.Ctx) {
	if timedStuck.Load() {
		c.Count("timed_scenarios_skipped_after_stuck_call", 1)
		return
	}
	r := c.R
	switch r.Intn(6) {
	case 0, 1:
		c19send(c, r)
	case 2, 3:
		c19recv(c, r)
	case 4:
		c19unlimited(c, r)
	case 5:
		c19queuedConcurrent(c, r)
	}
}

// c19queuedConcurrent: several consumers call RecvQueued / RecvQueuedFull on one
// buffered channel at the same time (optionally closed, optionally with a
// producer still adding). Whatever the interleaving: nothing invented, nothing
// duplicated, returned + left over == sent.
func c19queuedConcurrent(c *core.Ctx, r *core.Rand) {
	capa := r.Range(1, 64)
	ch := make(chan int, capa)
	fill := r.Range(0, capa)
	var sent []int
	for i := 0; i < fill; i++ {
		ch <- 7000 + i
		sent = append(sent, 7000+i)
	}
	closed := r.Bool()
	late := 0
	if closed {
		close(ch)
	} else if r.Bool() {
		late = r.Range(1, 20)
	}
	nc := r.Range(2, 6)
	full := r.Bool()
	got := make([][]int, nc)
	bad := make([]string, nc)
	var wg sync.WaitGroup
	start := make(chan struct{})
	done := make(chan struct{})
	var lateSent []int
	prodDone := make(chan struct{})
	go func() {
		defer close(prodDone)
		<-start
		for i := 0; i < late; i++ {
			v := 8000 + i
			select {
			case ch <- v:
				lateSent = append(lateSent, v)
			default:
			}
		}
	}()
	for k := 0; k < nc; k++ {
		k := k
		rr := r.Fork()
		wg.Add(1)
		go func() {
			defer wg.Done()
			<-start
			for round := 0; round < 3; round++ {
				lim := rr.Range(0, capa+2)
				if full {
					buf := make([]int, lim)
					n := chans.RecvQueuedFull(ch, buf)
					if n < 0 || n > lim {
						bad[k] = fmt.Sprintf("RecvQueuedFull returned %d for a buffer of %d", n, lim)
						return
					}
					got[k] = append(got[k], buf[:n]...)
				} else {
					vs := chans.RecvQueued(ch, lim)
					if len(vs) > lim {
						bad[k] = fmt.Sprintf("RecvQueued returned %d values for limit %d", len(vs), lim)
						return
					}
					got[k] = append(got[k], vs...)
				}
			}
		}()
	}
	close(start)
	go func() { wg.Wait(); close(done) }()
	name := "RecvQueued"
	if full {
		name = "RecvQueuedFull"
	}
	if !core.PatientWait(done, 30*time.Second) {
		// wall clock: not a verdict (the closed-channel variant decides the same defect logically)
		c.Inconclusive(name + " with concurrent consumers did not return within 30 s")
		return
	}
	<-prodDone
	var left []int
	for len(ch) > 0 {
		left = append(left, <-ch)
	}
	c.Count("timed_"+name+"_concurrent_consumer_scenarios", 1)
	var all []int
	for k := range got {
		if bad[k] != "" {
			c.Violate(name+":concurrent:count", bad[k], nil)
			return
		}
		all = append(all, got[k]...)
	}
	allSent := append(append([]int{}, sent...), lateSent...)
	extra := map[string]any{"helper": name, "capacity": capa, "prefilled": fill, "closed": closed, "consumers": nc, "late_sends": len(lateSent),
		"returned": sorted(all), "left_in_channel": sorted(left)}
	for _, v := range all {
		if v < 7000 {
			c.Violate(name+":concurrent:invented", fmt.Sprintf("%s returned %d, which was never sent (closed=%v, %d concurrent consumers)", name, v, closed, nc), extra)
			return
		}
	}
	arrived := append(append([]int{}, all...), left...)
	if d := firstDup(arrived); d != 0 {
		c.Violate(name+":concurrent:duplicated", fmt.Sprintf("value %d was returned twice", d), extra)
		return
	}
	if !sameSet(allSent, arrived) {
		lostV, ghost := diff(allSent, arrived)
		c.Violate(name+":concurrent:conservation", fmt.Sprintf("sent but neither returned nor left: %v; returned but never sent: %v", lostV, ghost), extra)
		return
	}
	c.NonTrivial(core.Mix(c.Seed, 4))
}

func dur(r *core.Rand, loUS, hiUS int) time.Duration {
	return time.Duration(r.Range(loUS, hiUS)) * time.Microsecond
}

// timeoutDur: mostly 50..2000 us; one in six is tiny (1 ns .. 49 us, also below one
// microsecond: a timeout that is positive but truncates to zero in a coarser unit is
// still a timeout, not "no limit")
func timeoutDur(r *core.Rand) time.Duration {
	if r.Chance(1, 6) {
		if r.Bool() {
			return time.Duration(r.Range(1, 999)) * time.Nanosecond
		}
		return time.Duration(r.Range(1, 49)) * time.Microsecond
	}
	return dur(r, 50, 2000)
}

// c19send: senders use SendTimeout / SendContext; one plain receiver peer.
func c19send(c *core.Ctx, r *core.Rand) {
	capa := r.Intn(4)
	ch := make(chan int, capa)
	ns := r.Range(1, 4)
	per := r.Range(1, 12)
	useCtx := r.Bool()
	timeout := timeoutDur(r)
	type res struct {
		trueV, falseV []int
	}
	results := make([]res, ns)
	var wg sync.WaitGroup
	ctx, cancel := context.WithCancel(context.Background())
	defer cancel()
	cancelAfter := dur(r, 20, 3000)
	ctx, cancel = ctxOfKind(c, r, ctx, cancel, useCtx)
	for s := 0; s < ns; s++ {
		s := s
		rr := r.Fork()
		wg.Add(1)
		go func() {
			defer wg.Done()
			for i := 0; i < per; i++ {
				v := (s+1)*1000 + i
				var ok bool
				if useCtx {
					ok = chans.SendContext(ctx, ch, v)
				} else {
					ok = chans.SendTimeout(ch, v, timeout)
				}
				if ok {
					results[s].trueV = append(results[s].trueV, v)
				} else {
					results[s].falseV = append(results[s].falseV, v)
				}
				if rr.Chance(1, 3) {
					time.Sleep(dur(rr, 1, 300))
				}
			}
		}()
	}
	// receiver peer: receives for a while with random delays, then stops
	var received []int
	stop := make(chan struct{})
	recvDone := make(chan struct{})
	recvFor := r.Range(0, ns*per+2)
	rdelay := r.Intn(3)
	rr := r.Fork()
	go func() {
		defer close(recvDone)
		for i := 0; i < recvFor; i++ {
			switch rdelay {
			case 1:
				time.Sleep(dur(rr, 1, 400))
			case 2:
				if rr.Chance(1, 4) {
					time.Sleep(dur(rr, 500, 3000))
				}
			}
			select {
			case v := <-ch:
				received = append(received, v)
			case <-stop:
				return
			}
		}
	}()
	if useCtx {
		time.AfterFunc(cancelAfter, cancel)
	}
	if !boundedJoin(c, &wg, map[bool]string{false: "SendTimeout", true: "SendContext"}[useCtx], timeout, useCtx) {
		return
	}
	cancel()
	close(stop)
	<-recvDone
	// leftovers
	var left []int
	for len(ch) > 0 {
		left = append(left, <-ch)
	}
	name := "SendTimeout"
	if useCtx {
		name = "SendContext"
	}
	c.Count("timed_"+name+"_scenarios", 1)
	var sentTrue, sentFalse []int
	for _, x := range results {
		sentTrue = append(sentTrue, x.trueV...)
		sentFalse = append(sentFalse, x.falseV...)
	}
	c.Count("timed_sends_true", int64(len(sentTrue)))
	c.Count("timed_sends_false", int64(len(sentFalse)))
	arrived := append(append([]int{}, received...), left...)
	extra := map[string]any{"helper": name, "capacity": capa, "senders": ns, "per_sender": per, "timeout_us": timeout.Microseconds(),
		"sent_true": sorted(sentTrue), "sent_false": sorted(sentFalse), "received": sorted(received), "left_in_channel": sorted(left), "gomaxprocs": runtime.GOMAXPROCS(0)}
	if d := firstDup(arrived); d != 0 {
		c.Violate(name+":duplicated", fmt.Sprintf("value %d arrived twice", d), extra)
		return
	}
	if !sameSet(sentTrue, arrived) {
		lostV, ghost := diff(sentTrue, arrived)
		if len(lostV) > 0 {
			c.Violate(name+":true-but-lost", fmt.Sprintf("%s returned true for %v but the values never arrived", name, lostV), extra)
			return
		}
		c.Violate(name+":false-but-sent", fmt.Sprintf("%s returned false for %v but the values arrived in the channel", name, ghost), extra)
		return
	}
	if len(sentTrue) > 0 && len(sentFalse) > 0 {
		c.Count("timed_scenarios_with_both_outcomes", 1)
	}
	c.NonTrivial(core.Mix(c.Seed, 1))
	if c.WantSample() {
		c.Sample(extra)
	}
}

// c19recv: receivers use RecvTimeout / RecvContext; one plain producer peer; optional close.
func c19recv(c *core.Ctx, r *core.Rand) {
	capa := r.Intn(4)
	ch := make(chan int, capa)
	nr := r.Range(1, 4)
	per := r.Range(1, 12)
	useCtx := r.Bool()
	timeout := timeoutDur(r)
	closeAtEnd := r.Chance(1, 3)
	produce := r.Range(0, nr*per+2)
	pdelay := r.Intn(3)
	neverCancel := useCtx && closeAtEnd && r.Chance(1, 2)
	if neverCancel && produce > nr*per {
		produce = nr * per // the producer must reach its close
	}
	var sent []int
	stop := make(chan struct{})
	prodDone := make(chan struct{})
	rr := r.Fork()
	go func() {
		defer close(prodDone)
		for i := 0; i < produce; i++ {
			switch pdelay {
			case 1:
				time.Sleep(dur(rr, 1, 400))
			case 2:
				if rr.Chance(1, 4) {
					time.Sleep(dur(rr, 500, 3000))
				}
			}
			v := 5000 + i
			select {
			case ch <- v:
				sent = append(sent, v)
			case <-stop:
				return
			}
		}
		if closeAtEnd {
			close(ch)
		}
	}()
	ctx, cancel := context.WithCancel(context.Background())
	defer cancel()
	if !neverCancel {
		ctx, cancel = ctxOfKind(c, r, ctx, cancel, useCtx)
	}
	if neverCancel {
		// a context that can never be cancelled (Done() == nil): only the close ends the receivers
		type ck struct{}
		ctx = []context.Context{context.Background(), context.TODO(), context.WithValue(context.Background(), ck{}, 1)}[r.Intn(3)]
	}
	time.AfterFunc(dur(r, 20, 3000), func() {
		if useCtx {
			cancel()
		}
	})
	type res struct {
		got      []int
		falses   int
		nonZero  int
		zeroTrue int
	}
	results := make([]res, nr)
	var wg sync.WaitGroup
	for k := 0; k < nr; k++ {
		k := k
		wg.Add(1)
		go func() {
			defer wg.Done()
			for i := 0; i < per; i++ {
				var v int
				var ok bool
				if useCtx {
					v, ok = chans.RecvContext(ctx, (<-chan int)(ch))
				} else {
					v, ok = chans.RecvTimeout(ch, timeout)
				}
				if ok {
					if v == 0 {
						results[k].zeroTrue++
					}
					results[k].got = append(results[k].got, v)
				} else {
					results[k].falses++
					if v != 0 {
						results[k].nonZero++
					}
				}
			}
		}()
	}
	if !neverCancel {
		if !boundedJoin(c, &wg, map[bool]string{false: "RecvTimeout", true: "RecvContext"}[useCtx], timeout, useCtx) {
			return
		}
	} else {
		wg.Wait()
	}
	cancel()
	close(stop)
	<-prodDone
	var left []int
	for len(ch) > 0 {
		left = append(left, <-ch)
	}
	name := "RecvTimeout"
	if useCtx {
		name = "RecvContext"
	}
	c.Count("timed_"+name+"_scenarios", 1)
	var got []int
	falses := 0
	for _, x := range results {
		got = append(got, x.got...)
		falses += x.falses
		if x.nonZero > 0 {
			c.Violate(name+":false-with-value", fmt.Sprintf("%s returned a non-zero value together with false %d times", name, x.nonZero), nil)
			return
		}
		if x.zeroTrue > 0 {
			c.Violate(name+":invented-zero", fmt.Sprintf("%s returned (0,true) %d times but only values >= 5000 were sent (closed=%v)", name, x.zeroTrue, closeAtEnd), nil)
			return
		}
	}
	c.Count("timed_recvs_true", int64(len(got)))
	c.Count("timed_recvs_false", int64(falses))
	if closeAtEnd {
		c.Count("timed_recv_scenarios_with_close", 1)
	}
	all := append(append([]int{}, got...), left...)
	extra := map[string]any{"helper": name, "capacity": capa, "receivers": nr, "per_receiver": per, "timeout_us": timeout.Microseconds(), "closed_at_end": closeAtEnd,
		"sent": sorted(sent), "received_true": sorted(got), "left_in_channel": sorted(left), "false_results": falses, "gomaxprocs": runtime.GOMAXPROCS(0)}
	if d := firstDup(all); d != 0 {
		c.Violate(name+":duplicated", fmt.Sprintf("value %d was received twice", d), extra)
		return
	}
	if !sameSet(sent, all) {
		lostV, ghost := diff(sent, all)
		if len(ghost) > 0 {
			c.Violate(name+":invented", fmt.Sprintf("%s returned values that were never sent: %v", name, ghost), extra)
			return
		}
		c.Violate(name+":consumed-but-not-returned", fmt.Sprintf("values %v were taken from the channel but no %s call returned them (a false result must consume nothing)", lostV, name), extra)
		return
	}
	c.NonTrivial(core.Mix(c.Seed, 2))
	if c.WantSample() {
		c.Sample(extra)
	}
}

// c19unlimited: a non-positive timeout means wait without limit: the peer shows
// up only after a delay far longer than any small finite timeout; the call must
// still report success (false is impossible for an unlimited wait on an open
// channel, whatever the timing).
func c19unlimited(c *core.Ctx, r *core.Rand) {
	to := []time.Duration{0, -1, -time.Second}[r.Intn(3)]
	delay := dur(r, 3000, 25000)
	extra := map[string]any{"timeout": to.String(), "peer_delay_us": delay.Microseconds()}
	if r.Bool() {
		ch := make(chan int)
		got := make(chan int, 1)
		go func() {
			time.Sleep(delay)
			got <- <-ch
		}()
		ok := chans.SendTimeout(ch, 77, to)
		if !ok {
			c.Violate("SendTimeout:non-positive-timeout-returned-false", fmt.Sprintf("SendTimeout(timeout=%v) returned false; a non-positive timeout means wait without limit", to), extra)
			return
		}
		if v := <-got; v != 77 {
			c.Violate("SendTimeout:non-positive-timeout-value", fmt.Sprintf("peer received %d", v), extra)
			return
		}
		c.Count("timed_unlimited_send", 1)
	} else {
		ch := make(chan int)
		go func() {
			time.Sleep(delay)
			ch <- 88
		}()
		v, ok := chans.RecvTimeout(ch, to)
		if !ok || v != 88 {
			c.Violate("RecvTimeout:non-positive-timeout-returned-false", fmt.Sprintf("RecvTimeout(timeout=%v) returned (%d,%v); a non-positive timeout means wait without limit", to, v, ok), extra)
			return
		}
		c.Count("timed_unlimited_recv", 1)
	}
	c.NonTrivial(core.Mix(c.Seed, 3))
}

func sorted(s []int) []int {
	out := append([]int(nil), s...)
	sort.Ints(out)
	return out
}

func firstDup(s []int) int {
	m := map[int]bool{}
	for _, v := range s {
		if m[v] {
			return v
		}
		m[v] = true
	}
	return 0
}

func sameSet(a, b []int) bool {
	if len(a) != len(b) {
		return false
	}
	x, y := sorted(a), sorted(b)
	for i := range x {
		if x[i] != y[i] {
			return false
		}
	}
	return true
}

// diff returns a\b and b\a.
func diff(a, b []int) (onlyA, onlyB []int) {
	ma, mb := map[int]bool{}, map[int]bool{}
	for _, v := range a {
		ma[v] = true
	}
	for _, v := range b {
		mb[v] = true
	}
	for _, v := range a {
		if !mb[v] {
			onlyA = append(onlyA, v)
		}
	}
	for _, v := range b {
		if !ma[v] {
			onlyB = append(onlyB, v)
		}
	}
	return
}

// boundedJoin: every call in these scenarios has a positive timeout of at most
// 2 ms (or a context that is cancelled after at most 3 ms), so each of the at
// most 48 calls must return within milliseconds. A scenario that is still not
// finished after 60 s - four orders of magnitude later - contains a call whose
// timeout never fired: that is the bounded-progress form of "cancels after the
// given duration", reported as a violation. (This is the one place where a
// wall-clock bound is a verdict: the property itself is about a deadline; the
// margin is x30000.)
// ctxOfKind: two contexts in five are cancelled by a later cancel() call (the one passed in);
// the others end in other ways: a deadline that has already passed when the calls are made,
// a deadline 20..3000 us ahead that nobody cancels, a context cancelled before the first call.
func ctxOfKind(c *core.Ctx, r *core.Rand, ctx context.Context, cancel context.CancelFunc, use bool) (context.Context, context.CancelFunc) {
	if !use {
		return ctx, cancel
	}
	switch r.Intn(5) {
	case 2:
		c.Count("contexts_with_deadline_already_passed", 1)
		cancel()
		return context.WithDeadline(context.Background(), time.Now().Add(-dur(r, 1, 5000)))
	case 3:
		c.Count("contexts_ended_by_deadline_only", 1)
		cancel()
		return context.WithTimeout(context.Background(), dur(r, 20, 3000))
	case 4:
		c.Count("contexts_cancelled_before_the_calls", 1)
		cancel()
	}
	return ctx, cancel
}

func boundedJoin(c *core.Ctx, wg *sync.WaitGroup, helper string, timeout time.Duration, ctx bool) bool {
	done := make(chan struct{})
	go func() { wg.Wait(); close(done) }()
	if core.PatientWait(done, 60*time.Second) {
		return true
	}
	how := fmt.Sprintf("a positive timeout of %v", timeout)
	if ctx {
		how = "a context cancelled within 3 ms"
	}
	timedStuck.Store(true)
	c.Violate(helper+":does-not-return", fmt.Sprintf("a %s call with %s has not returned after 60 s", helper, how), map[string]any{"helper": helper, "timeout_us": timeout.Microseconds()})
	return false
}
