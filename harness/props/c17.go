package props

import (
	"fmt"
	"runtime"
	"sync"
	"sync/atomic"
	"time"

	"gopkg.in/typ.v4/sync2"
	"verifharness/internal/core"
)

// C17 — Once1/Once2/Once3 run the action exactly once and share its results.
// Free-running rounds: a fresh OnceN, 2..32 goroutines released by a barrier
// plus late callers; every caller passes ITS OWN function, which counts its
// invocations, keeps the window open for a few microseconds, writes a plain
// completion flag as its last statement and returns a unique tuple.
// Oracle: exactly one invocation in total; every Do returns that invocation's
// tuple; every caller sees the completion flag set right after Do returns
// (plain read: under -race a Do that returns without synchronising with the
// invocation is a race report).

func init() { register("C17", runC17) }

type onceRound struct {
	invocations atomic.Int64
	winner      atomic.Int64 // caller id whose function ran (+1)
	completed   int          // plain: written by the action as its last statement
	seenUnset   atomic.Int64
	wrong       atomic.Int64
	wrongMsg    atomic.Value
}

// c17slow: ONE action per run that takes seconds (3.6 s in the quick tier, 12 s in the
// thorough tier), with callers arriving while it runs: however long the action takes,
// nobody may return before it has completed (no "stall limit").
func c17slow(c *core.Ctx) {
	d := 3600 * time.Millisecond
	if c.Tier == "thorough" {
		d = 12 * time.Second
	}
	var o sync2.Once2[int64, string]
	var inv atomic.Int64
	completed := 0
	var early, wrong atomic.Int64
	var wg sync.WaitGroup
	var releaseCrowd sync.Once
	crowdStart := make(chan struct{})
	call := func(id int64) {
		defer wg.Done()
		a, b := o.Do(func() (int64, string) {
			inv.Add(1)
			// the crowd is let loose 50 ms after the slow action has STARTED (released from in
			// here: on a loaded machine the goroutine making this call may get going late, and
			// a crowd member that came first would rightly run its own function instead)
			releaseCrowd.Do(func() { time.AfterFunc(50*time.Millisecond, func() { close(crowdStart) }) })
			time.Sleep(d)
			completed = 1
			return 77, "slow"
		})
		if completed != 1 {
			early.Add(1)
		}
		if a != 77 || b != "slow" {
			wrong.Add(1)
		}
	}
	// while the slow action runs, 70 000 further callers pile up behind it (more waiters
	// at once than a 16-bit field can count): all of them must wait and get the results
	var crowd sync.WaitGroup
	var crowdBad atomic.Int64
	for i := 0; i < 70000; i++ {
		crowd.Add(1)
		go func() {
			defer crowd.Done()
			<-crowdStart
			a, b := o.Do(func() (int64, string) { inv.Add(1); return -1, "crowd" })
			if a != 77 || b != "slow" || completed != 1 {
				crowdBad.Add(1)
			}
		}()
	}
	wg.Add(1)
	go call(0)
	// the first waiters arrive within milliseconds (they wait for almost the whole
	// action), the others spread over its lifetime
	for i := 1; i <= 8; i++ {
		if i <= 2 {
			time.Sleep(5 * time.Millisecond)
		} else {
			time.Sleep(d / 8)
		}
		wg.Add(1)
		go call(int64(i))
	}
	if !joinOrDeadlock(c, &wg, "Once2:slow-action", fmt.Sprintf("Do calls made while an action that takes %v runs", d), nil) {
		return
	}
	crowd.Wait()
	c.Count("rounds_slow_action", 1)
	if n := crowdBad.Load(); n != 0 {
		c.Violate("Once2:returned-before-completion[70000 callers at once]", fmt.Sprintf("%d of 70000 Do calls that piled up behind a running action (taking %v) returned before it had completed or with other values", n, d), nil)
		return
	}
	// ... and afterwards 2^30 + 1000 further Do calls on the same value (a counter of calls
	// must not run into whatever marks the value as done)
	extraInv := 0
	calls := 1 << 20 // quick tier; the thorough tier makes 2^30 + 1000 calls (about 10 s)
	if c.Tier == "thorough" {
		calls = 1<<30 + 1000
	}
	if p := c.Param["once_marathon_calls"]; p != "" {
		fmt.Sscan(p, &calls)
	}
	for i := 0; i < calls; i++ {
		if a, _ := o.Do(func() (int64, string) { extraInv++; return -2, "again" }); a != 77 {
			c.Violate("Once2:results[after many calls]", fmt.Sprintf("Do call number %d after the invocation returned %d instead of the stored 77 (%d further functions were invoked)", i+1, a, extraInv), nil)
			return
		}
	}
	c.Count("do_calls_after_completion_on_one_value", int64(calls))
	if n := inv.Load(); n != 1 {
		c.Violate("Once2:invocations[slow action]", fmt.Sprintf("%d functions were invoked while the first action (taking %v) was running", n, d), nil)
		return
	}
	if early.Load() > 0 || wrong.Load() > 0 {
		c.Violate("Once2:returned-before-completion[slow action]", fmt.Sprintf("%d Do calls returned before the action (taking %v) had completed, %d returned other values than (77,\"slow\")", early.Load(), d, wrong.Load()), nil)
		return
	}
	c.NonTrivial(core.Mix(c.Seed, 1717))
}

// goid reads the calling goroutine's id off its stack header (harness-side only).
func goid() int64 {
	buf := make([]byte, 64)
	n := runtime.Stack(buf, false)
	var id int64
	fmt.Sscanf(string(buf[:n]), "goroutine %d ", &id)
	return id
}

// c17goidWrap: Do calls made while the action runs, from goroutines created 2^24 goroutines
// after the one that runs the action (whatever identifies "the goroutine inside the action"
// must not confuse it with a goroutine whose id is the same in the low 24 bits). About 17
// million short-lived goroutines are created to get there (10..30 s).
func c17goidWrap(c *core.Ctx) {
	var o sync2.Once2[int64, string]
	release := make(chan struct{})
	started := make(chan int64, 1)
	var done atomic.Bool
	var inv atomic.Int64
	var wg sync.WaitGroup
	wg.Add(1)
	go func() {
		defer wg.Done()
		o.Do(func() (int64, string) {
			inv.Add(1)
			started <- goid()
			<-release
			done.Store(true)
			return 77, "w"
		})
	}()
	g0 := <-started
	const wrap = 1 << 24
	target := g0 + wrap
	sample := func() int64 {
		ch := make(chan int64, 1)
		go func() { ch <- goid() }()
		return <-ch
	}
	burned := int64(0)
	for {
		cur := sample()
		left := target - 20000 - cur
		if left <= 0 {
			break
		}
		if left > 50000 {
			left = 50000
		}
		for i := int64(0); i < left; i++ {
			go func() {}()
		}
		burned += left
	}
	// the window: every P creates waiters, so that every P's cache of ids gets used up
	var early, hits atomic.Int64
	np := runtime.GOMAXPROCS(0)
	var sp sync.WaitGroup
	for p := 0; p < np; p++ {
		sp.Add(1)
		go func() {
			defer sp.Done()
			for i := 0; i < 60000/np; i++ {
				wg.Add(1)
				go func() {
					defer wg.Done()
					if (goid()-g0)%wrap == 0 {
						hits.Add(1)
					}
					a, b := o.Do(func() (int64, string) { inv.Add(1); return -1, "x" })
					if !done.Load() || a != 77 || b != "w" {
						early.Add(1)
					}
				}()
			}
		}()
	}
	sp.Wait()
	last := sample()
	time.Sleep(20 * time.Millisecond)
	close(release)
	if !joinOrDeadlock(c, &wg, "Once2:goroutine-id-wrap", "Do calls made while the action runs, by goroutines created about 2^24 goroutines later", nil) {
		return
	}
	c.Count("goroutines_created_between_invoker_and_callers", burned)
	c.Count("callers_with_invoker_id_modulo_2^24", hits.Load())
	if n := early.Load(); n != 0 || inv.Load() != 1 {
		c.Violate("Once2:returned-before-completion[caller created 2^24 goroutines after the invoker]", fmt.Sprintf("%d of 60000 Do calls made while the action was running returned before it had completed or with other values (%d functions invoked); the callers were goroutines created about 2^24 goroutines after the one running the action (invoker id %d, ids up to %d)", n, inv.Load(), g0, last), nil)
		return
	}
	if hits.Load() == 0 {
		c.Inconclusive(fmt.Sprintf("no caller got an id equal to the invoker's modulo 2^24 (invoker %d, window ended at %d)", g0, last))
		return
	}
	c.NonTrivial(core.Mix(c.Seed, 171717))
}

func runC17(c *core.Ctx) {
	if c.Index == 3 && c.Build == "plain" {
		c17slow(c)
		return
	}
	if c.Index == 5 && c.Build == "plain" && c.Mode != "par" {
		c17goidWrap(c)
		return
	}
	r := c.R
	rounds := r.Range(4, 20)
	for round := 0; round < rounds; round++ {
		if r.Chance(1, 8) {
			if !c17abnormal(c, r) {
				return
			}
			continue
		}
		if r.Chance(1, 12) {
			if !c17nested(c, r) {
				return
			}
			continue
		}
		if r.Chance(1, 6) {
			// result types and values that invite shortcuts: zero values, nil pointers,
			// nil and NON-nil errors as the last result
			ok := true
			switch r.Intn(12) {
			case 7: // result types smaller than a word (whatever sits next to the stored result must leave it alone)
				ok = c17typed(c, r, "int32", func(id int64) int32 { return int32(1000 + id) })
			case 8:
				ok = c17typed(c, r, "int8", func(id int64) int8 { return int8(100 - id%50) })
			case 9:
				ok = c17typed(c, r, "float32", func(id int64) float32 { return 1.5 + float32(id) })
			case 10:
				ok = c17typed(c, r, "[3]byte", func(id int64) [3]byte { return [3]byte{byte(id), 0xFF, 1} })
			case 11:
				ok = c17typed(c, r, "uint16", func(id int64) uint16 { return uint16(40000 + id) })
			case 0:
				errs := map[int64]error{}
				var mu sync.Mutex
				ok = c17typed(c, r, "error(non-nil)", func(id int64) error {
					mu.Lock()
					defer mu.Unlock()
					if errs[id] == nil {
						errs[id] = fmt.Errorf("action of caller %d failed", id)
					}
					return errs[id]
				})
			case 1:
				ok = c17typed(c, r, "error(nil)", func(id int64) error { return nil })
			case 2:
				ok = c17typed(c, r, "*int(nil)", func(id int64) *int { return nil })
			case 3:
				ok = c17typed(c, r, "int(zero)", func(id int64) int { return 0 })
			case 4:
				ok = c17typed(c, r, "string(empty)", func(id int64) string { return "" })
			case 5:
				ok = c17typed(c, r, "bool", func(id int64) bool { return id%2 == 0 })
			case 6:
				ok = c17zeroSize(c, r)
			}
			if !ok {
				return
			}
			continue
		}
		arity := 1 + r.Intn(3)
		ng := r.Range(2, 32)
		late := r.Intn(4)
		st := &onceRound{}
		var o1 sync2.Once1[int64]
		var o2 sync2.Once2[int64, string]
		var o3 sync2.Once3[int64, string, [3]int64]
		hold := time.Duration(r.Intn(30)) * time.Microsecond
		gosched := r.Intn(4)
		tuple := func(id int64) (int64, string, [3]int64) {
			return id*1000 + 7, fmt.Sprintf("r%d", id), [3]int64{id, -id, id * 2}
		}
		call := func(id int64) {
			action := func() (int64, string, [3]int64) {
				st.invocations.Add(1)
				st.winner.Store(id + 1)
				for i := 0; i < gosched; i++ {
					runtime.Gosched()
				}
				if hold > 0 {
					time.Sleep(hold)
				}
				a, b, cc := tuple(id)
				st.completed = 1 // last statement: the effect callers must see
				return a, b, cc
			}
			var a int64
			var b string
			var cc [3]int64
			switch arity {
			case 1:
				a = o1.Do(func() int64 { x, _, _ := action(); return x })
			case 2:
				a, b = o2.Do(func() (int64, string) { x, y, _ := action(); return x, y })
			case 3:
				a, b, cc = o3.Do(action)
			}
			// Do has returned: the invocation must have completed
			if st.completed != 1 {
				st.seenUnset.Add(1)
			}
			w := st.winner.Load() - 1
			wa, wb, wc := tuple(w)
			ok := a == wa
			if arity >= 2 {
				ok = ok && b == wb
			}
			if arity >= 3 {
				ok = ok && cc == wc
			}
			if !ok {
				st.wrong.Add(1)
				st.wrongMsg.Store(fmt.Sprintf("caller %d got (%d,%q,%v); the action that ran (caller %d) returned (%d,%q,%v)", id, a, b, cc, w, wa, wb, wc))
			}
		}
		var wg sync.WaitGroup
		start := make(chan struct{})
		// arrivals are staggered over the lifetime of the action (and a little beyond)
		// in half of the rounds, so that some callers arrive exactly while it completes
		stagger := r.Bool()
		span := hold + time.Duration(gosched+1)*2*time.Microsecond
		// a third of the rounds (when every caller can have a processor of its own)
		// release the callers from a spin barrier instead of a channel: they then reach
		// the very first Do on the fresh value within nanoseconds of each other
		spin := r.Chance(1, 3) && ng <= runtime.GOMAXPROCS(0)
		var ready, goFlag atomic.Int32
		if spin {
			stagger = false
			c.Count("rounds_spin_barrier", 1)
		}
		for g := 0; g < ng; g++ {
			wg.Add(1)
			delay := time.Duration(0)
			if stagger {
				delay = time.Duration(r.Intn(int(span) + 1))
			}
			go func(id int64, delay time.Duration) {
				defer wg.Done()
				<-start
				if spin {
					ready.Add(1)
					for goFlag.Load() == 0 {
					}
				}
				if delay > 0 {
					for t0 := time.Now(); time.Since(t0) < delay; {
					}
				}
				call(id)
			}(int64(g), delay)
		}
		// in a third of the rounds another goroutine keeps completing first Do calls on
		// OTHER, unrelated Once values of the same types while this round's callers wait
		// for their action: nothing that happens to another value may release them early
		// or change what they get
		var sideWG sync.WaitGroup
		sideStop := make(chan struct{})
		sideBad := ""
		if r.Chance(1, 3) {
			c.Count("rounds_with_unrelated_once_values_completing_meanwhile", 1)
			sideWG.Add(1)
			go func() {
				defer sideWG.Done()
				<-start
				for k := int64(0); k < 60; k++ {
					select {
					case <-sideStop:
						return
					default:
					}
					var s1 sync2.Once1[int64]
					var s2 sync2.Once2[int64, string]
					var s3 sync2.Once3[int64, string, [3]int64]
					a := s1.Do(func() int64 { return -k })
					b, bs := s2.Do(func() (int64, string) { return -k, "side" })
					cc, _, _ := s3.Do(func() (int64, string, [3]int64) { return -k, "side", [3]int64{} })
					if a != -k || b != -k || bs != "side" || cc != -k {
						sideBad = fmt.Sprintf("an unrelated Once value returned (%d,%d,%q,%d) for its own action returning %d", a, b, bs, cc, -k)
						return
					}
					runtime.Gosched()
				}
			}()
		}
		close(start)
		if spin {
			for t0 := time.Now(); ready.Load() < int32(ng) && time.Since(t0) < 2*time.Second; {
				runtime.Gosched()
			}
			goFlag.Store(1)
		}
		if !joinOrDeadlock(c, &wg, fmt.Sprintf("Once%d", arity), "a round of concurrent Do calls", map[string]any{"arity": arity, "goroutines": ng}) {
			return
		}
		close(sideStop)
		sideWG.Wait()
		if sideBad != "" {
			c.Violate(fmt.Sprintf("Once%d:unrelated-values-interfere", arity), sideBad, nil)
			return
		}
		for l := 0; l < late; l++ {
			call(int64(ng + l))
		}
		c.Count("rounds", 1)
		c.Count(fmt.Sprintf("rounds_Once%d", arity), 1)
		c.Count("do_calls", int64(ng+late))
		c.Count("late_calls", int64(late))
		extra := map[string]any{"arity": arity, "goroutines": ng, "late_callers": late, "gomaxprocs": runtime.GOMAXPROCS(0)}
		if n := st.invocations.Load(); n != 1 {
			c.Violate(fmt.Sprintf("Once%d:invocations", arity), fmt.Sprintf("%d of the supplied functions were invoked (callers: %d concurrent + %d late); exactly one must be", n, ng, late), extra)
			return
		}
		if n := st.wrong.Load(); n != 0 {
			msg, _ := st.wrongMsg.Load().(string)
			c.Violate(fmt.Sprintf("Once%d:results", arity), fmt.Sprintf("%d Do calls returned values other than those of the one invocation: %s", n, msg), extra)
			return
		}
		if n := st.seenUnset.Load(); n != 0 {
			c.Violate(fmt.Sprintf("Once%d:returned-before-completion", arity), fmt.Sprintf("%d Do calls returned before the invocation had completed (its last write was not visible)", n), extra)
			return
		}
	}
	c.NonTrivial(core.Mix(c.Seed, uint64(rounds)))
	if c.WantSample() {
		c.Sample(map[string]any{"rounds": rounds, "what": "fresh OnceN per round, 2..32 goroutines behind a barrier + 0..3 late callers, own function per caller"})
	}
}

// c17abnormal: the first action exits abnormally (panics - the caller recovers -
// or calls runtime.Goexit). "Whatever functions they pass, exactly one of those
// functions is invoked, exactly once": later and concurrent Do calls must not run
// their functions.
func c17abnormal(c *core.Ctx, r *core.Rand) bool {
	arity := 1 + r.Intn(3)
	goexit := r.Bool()
	var inv atomic.Int64
	var o1 sync2.Once1[int64]
	var o2 sync2.Once2[int64, string]
	var o3 sync2.Once3[int64, string, [3]int64]
	do := func(f func() (int64, string, [3]int64)) {
		switch arity {
		case 1:
			o1.Do(func() int64 { x, _, _ := f(); return x })
		case 2:
			o2.Do(func() (int64, string) { x, y, _ := f(); return x, y })
		case 3:
			o3.Do(f)
		}
	}
	// In half of the rounds the other callers are already inside Do (blocked behind the
	// running action) when it exits abnormally: they must come back - without running
	// their own functions - and not wait forever for a lock that is never released.
	ng := r.Range(1, 8)
	concurrent := r.Bool()
	var arrived atomic.Int64
	var running = make(chan struct{})
	first := make(chan struct{})
	go func() {
		defer close(first)
		defer func() { recover() }()
		do(func() (int64, string, [3]int64) {
			inv.Add(1)
			close(running)
			if concurrent {
				for t0 := time.Now(); arrived.Load() < int64(ng) && time.Since(t0) < 20*time.Millisecond; {
					runtime.Gosched()
				}
				for i := 0; i < 20; i++ {
					runtime.Gosched() // let them get from the counter into Do
				}
				time.Sleep(50 * time.Microsecond)
			}
			if goexit {
				runtime.Goexit()
			}
			panic("first action panics")
		})
	}()
	if concurrent {
		<-running
	} else {
		<-first
	}
	var wg sync.WaitGroup
	for g := 0; g < ng; g++ {
		wg.Add(1)
		go func() {
			defer wg.Done()
			arrived.Add(1)
			do(func() (int64, string, [3]int64) { inv.Add(1); return 1, "x", [3]int64{1, 2, 3} })
		}()
	}
	if !joinOrDeadlock(c, &wg, fmt.Sprintf("Once%d", arity), "Do calls made while (or after) the first action exits abnormally", map[string]any{"arity": arity, "goexit": goexit, "callers_inside_Do_during_the_exit": concurrent}) {
		return false
	}
	<-first
	if concurrent {
		c.Count("rounds_abnormal_exit_with_callers_waiting_inside_Do", 1)
	}
	do(func() (int64, string, [3]int64) { inv.Add(1); return 2, "y", [3]int64{} })
	c.Count("rounds_abnormal_first_action", 1)
	if n := inv.Load(); n != 1 {
		how := "panicked"
		if goexit {
			how = "called runtime.Goexit"
		}
		c.Violate(fmt.Sprintf("Once%d:invocations-after-abnormal-exit", arity), fmt.Sprintf("the first action %s; afterwards %d further functions were invoked by later Do calls (exactly one function may ever be invoked)", how, n-1), map[string]any{"arity": arity, "goexit": goexit, "later_callers": ng + 1})
		return false
	}
	return true
}

// c17typed: one round with the last result of type T (values chosen by val), on
// Once1[T], Once2[int64,T] or Once3[int64,string,T]; concurrent callers, then late ones.
func c17typed[T comparable](c *core.Ctx, r *core.Rand, tname string, val func(id int64) T) bool {
	arity := 1 + r.Intn(3)
	ng := r.Range(2, 8)
	late := 1 + r.Intn(3)
	var o1 sync2.Once1[T]
	var o2 sync2.Once2[int64, T]
	var o3 sync2.Once3[int64, string, T]
	var inv, winner, early atomic.Int64
	var wrong atomic.Value
	completed := 0 // plain: written by the action as its last statement
	call := func(id int64) {
		var a int64
		var b string
		var t T
		f := func() {
			inv.Add(1)
			winner.Store(id + 1)
			for i := 0; i < 3; i++ {
				runtime.Gosched()
			}
			completed = 1 // last statement of the action: every returning Do must see it
		}
		switch arity {
		case 1:
			t = o1.Do(func() T { f(); return val(id) })
		case 2:
			a, t = o2.Do(func() (int64, T) { f(); return id + 100, val(id) })
		case 3:
			a, b, t = o3.Do(func() (int64, string, T) { f(); return id + 100, fmt.Sprint("r", id), val(id) })
		}
		if completed != 1 {
			early.Add(1)
		}
		w := winner.Load() - 1
		ok := t == val(w)
		if arity >= 2 {
			ok = ok && a == w+100
		}
		if arity >= 3 {
			ok = ok && b == fmt.Sprint("r", w)
		}
		if !ok {
			wrong.Store(fmt.Sprintf("caller %d got (%d,%q,%v); the action that ran (caller %d) returned (%d,%q,%v)", id, a, b, t, w, w+100, fmt.Sprint("r", w), val(w)))
		}
	}
	var wg sync.WaitGroup
	start := make(chan struct{})
	for g := 0; g < ng; g++ {
		wg.Add(1)
		go func(id int64) {
			defer wg.Done()
			<-start
			call(id)
		}(int64(g))
	}
	close(start)
	extra := map[string]any{"arity": arity, "last_result": tname, "goroutines": ng, "late_callers": late}
	if !joinOrDeadlock(c, &wg, fmt.Sprintf("Once%d", arity), "a round of concurrent Do calls", extra) {
		return false
	}
	for l := 0; l < late; l++ {
		call(int64(ng + l))
	}
	// a later caller may pass a nil function: it is never invoked, the stored results come back
	{
		w := winner.Load() - 1
		var a int64
		var t T
		switch arity {
		case 1:
			t = o1.Do(nil)
		case 2:
			a, t = o2.Do(nil)
		case 3:
			a, _, t = o3.Do(nil)
		}
		if t != val(w) || (arity >= 2 && a != w+100) {
			c.Violate(fmt.Sprintf("Once%d:results[nil function]", arity), fmt.Sprintf("a Do(nil) call made after the invocation returned (%d,%v) instead of the values of the one invocation (%d,%v)", a, t, w+100, val(w)), nil)
			return false
		}
	}
	c.Count("rounds", 1)
	c.Count("rounds_last_result_"+tname, 1)
	c.Count("do_calls", int64(ng+late))
	if n := inv.Load(); n != 1 {
		c.Violate(fmt.Sprintf("Once%d:invocations[last result %s]", arity, tname), fmt.Sprintf("%d of the supplied functions were invoked (callers: %d concurrent + %d late); exactly one must be, whatever it returns", n, ng, late), extra)
		return false
	}
	if m, _ := wrong.Load().(string); m != "" {
		c.Violate(fmt.Sprintf("Once%d:results[last result %s]", arity, tname), "a Do call returned values other than those of the one invocation: "+m, extra)
		return false
	}
	if n := early.Load(); n != 0 {
		c.Violate(fmt.Sprintf("Once%d:returned-before-completion[last result %s]", arity, tname), fmt.Sprintf("%d Do calls returned before the invocation had completed (its last write was not visible)", n), extra)
		return false
	}
	return true
}

// c17nested: actions that use OTHER Once values. Value k's action makes the first Do
// call on value k+1 (directly, or in a goroutine it waits for), in a chain of
// 1100..2600 distinct values: every action must run exactly once, every Do must return
// its own action's value. Once values that secretly share state (a striped lock table,
// a pooled helper) block or mix results here - a chain longer than any plausible table.
func c17nested(c *core.Ctx, r *core.Rand) bool {
	n := r.Range(1100, 2600)
	viaGoroutine := r.Chance(1, 4)
	if viaGoroutine {
		n = r.Range(300, 1100)
	}
	separately := r.Bool()
	chain := make([]*sync2.Once1[int], n)
	if separately {
		for i := range chain {
			chain[i] = new(sync2.Once1[int])
		}
	} else {
		block := make([]sync2.Once1[int], n)
		for i := range chain {
			chain[i] = &block[i]
		}
	}
	inv := make([]int32, n)
	var do func(k int) int
	do = func(k int) int {
		return chain[k].Do(func() int {
			atomic.AddInt32(&inv[k], 1)
			if k+1 == n {
				return k
			}
			if viaGoroutine {
				ch := make(chan int)
				go func() { ch <- do(k + 1) }()
				return <-ch - 1
			}
			return do(k+1) - 1
		})
	}
	var wg sync.WaitGroup
	var got int
	wg.Add(1)
	go func() { defer wg.Done(); got = do(0) }()
	extra := map[string]any{"chain_length": n, "nested_call_in_a_goroutine_the_action_waits_for": viaGoroutine, "separately_allocated": separately}
	if !joinOrDeadlock(c, &wg, "Once1:nested", fmt.Sprintf("a chain of %d Once1 values, each action making the first Do call on the next value", n), extra) {
		return false
	}
	c.Count("rounds_nested_chains", 1)
	c.Count("do_calls", int64(n))
	// value k's action returns (value of k+1) - 1 and the last one returns n-1, so value k holds k
	if got != 0 {
		c.Violate("Once1:nested:results", fmt.Sprintf("the head of a chain of %d nested Once1 values returned %d, expected 0", n, got), extra)
		return false
	}
	for k := range inv {
		if inv[k] != 1 {
			c.Violate("Once1:nested:invocations", fmt.Sprintf("the action of value %d in a chain of %d nested Once1 values ran %d times", k, n, inv[k]), extra)
			return false
		}
	}
	// later calls return the stored values (value k of the chain holds k) without invoking anything
	for _, k := range []int{0, n / 2, n - 1} {
		if v := chain[k].Do(func() int { atomic.AddInt32(&inv[k], 1); return -1 }); v != k {
			c.Violate("Once1:nested:results", fmt.Sprintf("a later Do on value %d of a chain of %d nested Once1 values returned %d, expected %d", k, n, v, k), extra)
			return false
		}
	}
	for k := range inv {
		if inv[k] != 1 {
			c.Violate("Once1:nested:invocations", fmt.Sprintf("a later Do on value %d of the chain ran its function", k), extra)
			return false
		}
	}
	return true
}

// c17zeroSize: result types of size zero (struct{}, [0]int): there is nothing to store,
// but every Do must still wait for the one invocation to complete and nobody else's
// function may run.
func c17zeroSize(c *core.Ctx, r *core.Rand) bool {
	ng := r.Range(2, 8)
	var o1 sync2.Once1[struct{}]
	var o2 sync2.Once2[struct{}, [0]int]
	two := r.Bool()
	var inv, early atomic.Int64
	completed := 0
	hold := time.Duration(r.Intn(40)) * time.Microsecond
	call := func() {
		f := func() {
			inv.Add(1)
			runtime.Gosched()
			if hold > 0 {
				time.Sleep(hold)
			}
			completed = 1
		}
		if two {
			o2.Do(func() (struct{}, [0]int) { f(); return struct{}{}, [0]int{} })
		} else {
			o1.Do(func() struct{} { f(); return struct{}{} })
		}
		if completed != 1 {
			early.Add(1)
		}
	}
	var wg sync.WaitGroup
	start := make(chan struct{})
	for g := 0; g < ng; g++ {
		wg.Add(1)
		go func() { defer wg.Done(); <-start; call() }()
	}
	close(start)
	if !joinOrDeadlock(c, &wg, "Once:zero-size-results", "a round of concurrent Do calls on a Once with zero-size results", nil) {
		return false
	}
	call()
	c.Count("rounds", 1)
	c.Count("rounds_zero_size_results", 1)
	if n := inv.Load(); n != 1 {
		c.Violate("Once:invocations[zero-size results]", fmt.Sprintf("%d functions were invoked on a Once whose results have size zero", n), nil)
		return false
	}
	if n := early.Load(); n != 0 {
		c.Violate("Once:returned-before-completion[zero-size results]", fmt.Sprintf("%d Do calls on a Once whose results have size zero returned before the invocation had completed", n), nil)
		return false
	}
	return true
}
