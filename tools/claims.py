# claim(id, technique, level text, level note, design ref)
claim("C01",
  "reference-model lock-step monitor (sorted-multiset model) over PRNG-generated operation histories; full state re-observed after every call",
  "Runtime monitoring: generated Add/Remove(present|absent)/Clear/Clone/read histories over 6 element-type/comparator families are mirrored on a sorted slice; after every call Len, all three traversals (slices and walks), String and Contains over the whole universe are compared for every live tree (originals and clones), and the three traversals are checked to be traversals of one binary tree. Held on the histories of this run; nothing is proven.",
  "Trusted: Go toolchain; the sorted-slice model; four element types stand in for 'every element type'.",
  "DESIGN.md section 4, C01")
claim("C02",
  "invariant monitor: tree shape reconstructed from SlicePreOrder+SliceInOrder after every Add/Remove, AVL balance asserted at every node; counting comparator bounds per-operation work",
  "Runtime monitoring: nine workload families (ascending, descending, zig-zag, random, Fibonacci-shaped trees then deletions, delete-root/min/max, interleaved) with distinct values; after every mutation the shape is rebuilt from the public traversals and |hl-hr|<=1 plus the 1.4405*log2(n+2) depth bound are asserted; comparator invocations per Contains/Add/Remove are bounded by 4*depth bound+8. Held on the histories of this run.",
  "Trusted: Go toolchain; shape reconstruction is exact only for distinct values (duplicates are covered by the comparator-count proxy and by C01).",
  "DESIGN.md section 4, C02")
