// Package props wires the per-property monitors into the worker.
package props

import (
	"sort"

	"verifharness/internal/core"
)

var registry = map[string]func(*core.Ctx){}

func register(id string, f func(*core.Ctx)) { registry[id] = f }

func Lookup(id string) func(*core.Ctx) { return registry[id] }

func IDs() []string {
	var out []string
	for k := range registry {
		out = append(out, k)
	}
	sort.Strings(out)
	return out
}
