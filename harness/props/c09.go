package props

import (
	"fmt"
	"math"
	"runtime"
	"sync"
	"sync/atomic"
	"time"

	"gopkg.in/typ.v4/sync2"
	"verifharness/internal/core"
	"verifharness/internal/sched"
)

// C09 — keyed mutexes give per-key mutual exclusion and cross-key independence.
// Monitors: per-key occupancy counters maintained by the harness (updated right
// after an acquire returns and right before the release call), a plain per-key
// counter incremented inside every write critical section (lost-update oracle;
// under -race any overlap is a race report), and in the serialized mode the
// scheduler's blocked/enabled view: a worker blocked on a key that the harness
// knows to be free and uncontended, a Try call that reaches a blocking
// acquisition, a Try result that contradicts the occupancy, or a deadlock of
// programs that hold at most one key at a time.

func init() { register("C09", runC09) }

// c09sweep: ALL sequences of up to 6 (KeyedMutex) / 5 (KeyedRWMutex) sequential calls
// over two keys from a fresh value. Calls per key: acquire (LockKey when the key is
// free, otherwise TryLockKey, which must fail), for the RW type also read-acquire
// (RLockKey when no writer is inside, otherwise TryRLockKey, which must fail), release
// one holder (skipped when nobody holds the key), ClearKey (only when the key is free),
// TryLockKey (must succeed exactly when the key is free). Sequential, so every result
// is determined: what one goroutine can do to the underlying map's layout, exhaustively.
func c09sweep(c *core.Ctx, rw bool, first int) {
	hooksOff()
	nOps, maxL := 8, 6
	if rw {
		nOps, maxL = 10, 5
	}
	perKey := nOps / 2
	seqs := 0
	for L := 1; L <= maxL; L++ {
		total := 1
		for i := 1; i < L; i++ {
			total *= nOps
		}
		for code := 0; code < total; code++ {
			km := &keyed{rw: rw}
			if rw {
				km.rwm = new(sync2.KeyedRWMutex[int])
			} else {
				km.m = new(sync2.KeyedMutex[int])
			}
			var writers, readers [2]int
			var hist []string
			fail := func(sig, msg string) {
				kind := "KeyedMutex"
				if rw {
					kind = "KeyedRWMutex"
				}
				c.Violate("sweep:"+sig+"["+kind+"]", fmt.Sprintf("%s [exhaustive sequential sweep from a fresh value, calls %v]", msg, hist), map[string]any{"history": hist})
			}
			for x, i := code, 0; i < L; i++ {
				op := first
				if i > 0 {
					op = x % nOps
					x /= nOps
				}
				k, kind := op/perKey, op%perKey
				free := writers[k] == 0 && readers[k] == 0
				// kinds: 0 write-acquire, 1 release, 2 clear, 3 try-write, 4 (rw only) read-acquire
				switch kind {
				case 0:
					if free {
						hist = append(hist, fmt.Sprintf("LockKey(%d)", k))
						km.acquire(kLock, k)
						writers[k] = 1
					} else {
						hist = append(hist, fmt.Sprintf("TryLockKey(%d)[held]", k))
						if km.acquire(kTryLock, k) {
							fail("Try-succeeds-on-held-key", fmt.Sprintf("TryLockKey(%d) succeeded while the key is held (writers=%d readers=%d)", k, writers[k], readers[k]))
							return
						}
					}
				case 1:
					switch {
					case writers[k] > 0:
						hist = append(hist, fmt.Sprintf("UnlockKey(%d)", k))
						km.release(kLock, k)
						writers[k] = 0
					case readers[k] > 0:
						hist = append(hist, fmt.Sprintf("RUnlockKey(%d)", k))
						km.release(kRLock, k)
						readers[k]--
					}
				case 2:
					if free {
						hist = append(hist, fmt.Sprintf("ClearKey(%d)", k))
						km.clear(k)
					}
				case 3:
					hist = append(hist, fmt.Sprintf("TryLockKey(%d)", k))
					got := km.acquire(kTryLock, k)
					if got != free {
						fail("Try-result", fmt.Sprintf("TryLockKey(%d) returned %v; the key has writers=%d readers=%d", k, got, writers[k], readers[k]))
						return
					}
					if got {
						writers[k] = 1
					}
				case 4:
					if writers[k] == 0 {
						if readers[k] > 0 && i%2 == 1 {
							hist = append(hist, fmt.Sprintf("TryRLockKey(%d)", k))
							if !km.acquire(kTryRLock, k) {
								fail("Try-result", fmt.Sprintf("TryRLockKey(%d) failed although only readers hold the key", k))
								return
							}
						} else {
							hist = append(hist, fmt.Sprintf("RLockKey(%d)", k))
							km.acquire(kRLock, k)
						}
						readers[k]++
					} else {
						hist = append(hist, fmt.Sprintf("TryRLockKey(%d)[writer inside]", k))
						if km.acquire(kTryRLock, k) {
							fail("Try-succeeds-on-held-key", fmt.Sprintf("TryRLockKey(%d) succeeded while a writer holds the key", k))
							return
						}
					}
				}
			}
			// wind down: every holder releases; afterwards both keys must be free
			for k := 0; k < 2; k++ {
				for ; writers[k] > 0; writers[k]-- {
					km.release(kLock, k)
				}
				for ; readers[k] > 0; readers[k]-- {
					km.release(kRLock, k)
				}
				hist = append(hist, fmt.Sprintf("release-all(%d)+TryLockKey(%d)", k, k))
				if !km.acquire(kTryLock, k) {
					fail("Try-result", fmt.Sprintf("after every holder released key %d, TryLockKey(%d) failed", k, k))
					return
				}
				km.release(kLock, k)
			}
			seqs++
		}
	}
	c.Count("exhaustive_sweep_sequences", int64(seqs))
	c.Count("exhaustive_sweeps_completed", 1)
	c.NonTrivial(core.Mix(9, uint64(first), uint64(nOps)))
}

func runC09(c *core.Ctx) {
	if c.Mode == "free" && c.Build == "plain" && c.Index < 18 {
		// cases 0..7: KeyedMutex sweep by first call; 8..17: KeyedRWMutex
		if c.Index < 8 {
			c09sweep(c, false, int(c.Index))
		} else {
			c09sweep(c, true, int(c.Index-8))
		}
		return
	}
	switch c.Mode {
	case "tierb":
		c09tierb(c)
	case "free":
		c09free(c)
	}
}

const (
	kLock = iota
	kTryLock
	kRLock
	kTryRLock
	kClear
)

var kNames = []string{"LockKey", "TryLockKey", "RLockKey", "TryRLockKey", "ClearKey"}

type kstep struct {
	kind  int
	key   int
	holds int // scheduling points inside the critical section
}

// keyed abstracts over KeyedMutex and KeyedRWMutex.
type keyed struct {
	rw  bool
	m   *sync2.KeyedMutex[int]
	rwm *sync2.KeyedRWMutex[int]
}

func (k *keyed) acquire(kind, key int) bool {
	if !k.rw {
		if kind == kLock {
			k.m.LockKey(key)
			return true
		}
		return k.m.TryLockKey(key)
	}
	switch kind {
	case kLock:
		k.rwm.LockKey(key)
		return true
	case kTryLock:
		return k.rwm.TryLockKey(key)
	case kRLock:
		k.rwm.RLockKey(key)
		return true
	}
	return k.rwm.TryRLockKey(key)
}

func (k *keyed) release(kind, key int) {
	if !k.rw {
		k.m.UnlockKey(key)
		return
	}
	if kind == kLock || kind == kTryLock {
		k.rwm.UnlockKey(key)
	} else {
		k.rwm.RUnlockKey(key)
	}
}

func (k *keyed) clear(key int) {
	if k.rw {
		k.rwm.ClearKey(key)
	} else {
		k.m.ClearKey(key)
	}
}

func c09tierb(c *core.Ctx) {
	if !hooksAvailable {
		c.Inconclusive("tier B needs the verif hooks")
		return
	}
	r := c.R
	hooksOff()
	if r.Chance(1, 4) {
		c09clearReuse(c)
		return
	}
	km := &keyed{rw: r.Bool()}
	if km.rw {
		km.rwm = new(sync2.KeyedRWMutex[int])
	} else {
		km.m = new(sync2.KeyedMutex[int])
	}
	nk := r.Range(1, 3)
	// sequential prefix: touch some keys (so that they are "seen"), clear some again
	var pre []string
	for i := 0; i < r.Intn(5); i++ {
		k := r.Intn(nk + 1)
		kind := kLock
		if km.rw && r.Bool() {
			kind = kRLock
		}
		km.acquire(kind, k)
		km.release(kind, k)
		pre = append(pre, fmt.Sprintf("%s(%d)+unlock", kNames[kind], k))
		if r.Chance(1, 3) {
			km.clear(k)
			pre = append(pre, fmt.Sprintf("ClearKey(%d)", k))
		}
	}
	nw := r.Range(2, 4)
	progsDesc := make([][]kstep, nw)
	for w := range progsDesc {
		n := r.Range(1, 4)
		for i := 0; i < n; i++ {
			kind := r.Pick(5, 3, 0, 0)
			if km.rw {
				kind = r.Pick(4, 2, 4, 2)
			}
			progsDesc[w] = append(progsDesc[w], kstep{kind: kind, key: r.Intn(nk), holds: r.Intn(3)})
			if r.Chance(1, 5) {
				// ClearKey of a key that nobody holds or awaits (keys nk, nk+1 are never
				// locked by the workers): allowed at any time, must not disturb other keys
				progsDesc[w] = append(progsDesc[w], kstep{kind: kClear, key: nk + r.Intn(2)})
			}
		}
	}
	s := sched.New(r.Fork(), r.Intn(3))
	// serialized => plain state
	writers := make([]int, nk)
	readers := make([]int, nk)
	inprog := make([][]int, nk) // inprog[key][worker] calls in progress on that key
	for k := range inprog {
		inprog[k] = make([]int, nw)
	}
	counter := make([]int, nk)
	sections := make([]int, nk)
	curOp := make([]kstep, nw)
	inAcquire := make([]bool, nw)
	var events []string
	var viol struct{ sig, msg string }
	flag := func(sig, msg string) {
		if viol.sig == "" {
			viol.sig, viol.msg = sig, msg
		}
	}
	othersOn := func(key, self int) int {
		n := 0
		for w, x := range inprog[key] {
			if w != self {
				n += x
			}
		}
		return n
	}
	s.OnBlocked = func(w, site int) {
		if site < 100 || !inAcquire[w] {
			return // the map's internal mutex: transient, not judged
		}
		op := curOp[w]
		c.Count("tierb_blocked_events", 1)
		if op.kind == kTryLock || op.kind == kTryRLock {
			flag("tierb:Try-blocks", fmt.Sprintf("worker %d: %s(k%d) reached a blocking acquisition (%s)", w, kNames[op.kind], op.key, siteName(site)))
			return
		}
		heldIncompat := writers[op.key] > 0 || (op.kind == kLock && readers[op.key] > 0)
		if !heldIncompat && othersOn(op.key, w) == 0 {
			flag("tierb:blocked-on-free-key", fmt.Sprintf("worker %d: %s(k%d) is blocked although key %d is free and no other goroutine is using it (writers=%v readers=%v)", w, kNames[op.kind], op.key, op.key, writers, readers))
		}
	}
	hooksTierB(s)
	defer hooksOff()
	progs := make([]func(int), nw)
	for w := range progs {
		w := w
		progs[w] = func(int) {
			for _, st := range progsDesc[w] {
				if st.kind == kClear {
					km.clear(st.key)
					events = append(events, fmt.Sprintf("w%d ClearKey(k%d)", w, st.key))
					c.Count("tierb_clearkey_of_unused_key", 1)
					continue
				}
				curOp[w] = st
				free := writers[st.key] == 0 && (st.kind == kRLock || st.kind == kTryRLock || readers[st.key] == 0)
				uncontended := othersOn(st.key, w) == 0
				inprog[st.key][w]++
				inAcquire[w] = true
				got := km.acquire(st.kind, st.key)
				inAcquire[w] = false
				inprog[st.key][w]--
				events = append(events, fmt.Sprintf("w%d %s(k%d)=%v", w, kNames[st.kind], st.key, got))
				if !got {
					// a failed Try is legitimate only if the key was held incompatibly at
					// some point of the call or another goroutine was inside a call on it
					freeNow := writers[st.key] == 0 && (st.kind == kTryRLock || readers[st.key] == 0)
					if free && uncontended && freeNow && othersOn(st.key, w) == 0 && !sawOthers(events, w, st.key) {
						flag("tierb:Try-fails-on-free-key", fmt.Sprintf("worker %d: %s(k%d) returned false although the key was free and uncontended during the whole call", w, kNames[st.kind], st.key))
					}
					c.Count("tierb_try_failed", 1)
					continue
				}
				write := st.kind == kLock || st.kind == kTryLock
				if write {
					writers[st.key]++
					if writers[st.key] > 1 || readers[st.key] > 0 {
						flag("tierb:mutual-exclusion", fmt.Sprintf("worker %d entered the write section of key %d while writers=%d readers=%d", w, st.key, writers[st.key], readers[st.key]))
					}
					counter[st.key]++
					sections[st.key]++
				} else {
					readers[st.key]++
					if writers[st.key] > 0 {
						flag("tierb:reader-with-writer", fmt.Sprintf("worker %d entered the read section of key %d while a writer is inside", w, st.key))
					}
				}
				c.Count("tierb_sections", 1)
				for i := 0; i < st.holds; i++ {
					s.Yield(900)
				}
				if write {
					writers[st.key]--
				} else {
					readers[st.key]--
				}
				inprog[st.key][w]++
				km.release(st.kind, st.key)
				inprog[st.key][w]--
				events = append(events, fmt.Sprintf("w%d unlock(k%d)", w, st.key))
			}
		}
	}
	s.Run(progs)
	hooksOff()
	c.Count("tierb_schedules", 1)
	c.Count("tierb_steps", int64(s.Steps))
	c.Count("tierb_worker_switches", int64(s.Switches))
	c.Distinct("tierb_distinct_schedules", s.Trace)
	for p := range s.SwitchPairs {
		c.Distinct("tierb_switch_site_pairs", uint64(p))
	}
	kind := "KeyedMutex"
	if km.rw {
		kind = "KeyedRWMutex"
	}
	c.Count("tierb_"+kind, 1)
	extra := map[string]any{"type": kind, "prefix": pre, "programs": fmt.Sprint(progsDesc), "events": events, "schedule_hash": s.Trace}
	if s.Panic != nil {
		c.Violate("tierb:panic", fmt.Sprintf("panic under the serialized schedule: %v", s.Panic), extra)
		return
	}
	if viol.sig != "" {
		c.Violate(viol.sig+"["+kind+"]", viol.msg, extra)
		return
	}
	if s.Deadlock {
		c.Violate("tierb:deadlock["+kind+"]", fmt.Sprintf("deadlock: every unfinished worker is blocked (sites %v) although each program holds at most one key at a time", s.BlockedAt), extra)
		return
	}
	if s.Overrun {
		c.Inconclusive("schedule exceeded the step bound")
		return
	}
	for k := range counter {
		if counter[k] != sections[k] {
			c.Violate("tierb:lost-update["+kind+"]", fmt.Sprintf("key %d: counter %d after %d write sections", k, counter[k], sections[k]), extra)
			return
		}
	}
	if s.Switches >= 1 {
		c.NonTrivial(s.Trace)
	}
	if c.WantSample() {
		c.Sample(map[string]any{"mode": "tierb", "type": kind, "keys": nk, "prefix": pre, "programs": fmt.Sprint(progsDesc), "events": events})
	}
}

// c09clearReuse: ClearKey inside its covered use (nobody holds or awaits the key), but
// from SEVERAL goroutines at once and concurrently with first uses of never-seen keys
// (which rebuild the map's dirty half); afterwards, sequentially, every cleared key is
// used again: while it is held, other keys are locked and released (promotions of the
// dirty map) and a TryLockKey of the held key must fail.
func c09clearReuse(c *core.Ctx) {
	r := c.R
	km := &keyed{rw: r.Bool()}
	kind := "KeyedMutex"
	if km.rw {
		km.rwm = new(sync2.KeyedRWMutex[int])
		kind = "KeyedRWMutex"
	} else {
		km.m = new(sync2.KeyedMutex[int])
	}
	na := r.Range(1, 2)
	var pre []string
	for k := 0; k < na; k++ {
		for i := 0; i <= r.Intn(2); i++ {
			kd := kLock
			if km.rw && r.Bool() {
				kd = kRLock
			}
			km.acquire(kd, k)
			km.release(kd, k)
			pre = append(pre, fmt.Sprintf("%s(%d)+unlock", kNames[kd], k))
		}
	}
	nw := r.Range(3, 4)
	fresh := 100
	type cstep struct {
		clear bool
		key   int
	}
	progsDesc := make([][]cstep, nw)
	for w := range progsDesc {
		n := r.Range(1, 2)
		for i := 0; i < n; i++ {
			if r.Chance(3, 5) || w < 2 && i == 0 {
				progsDesc[w] = append(progsDesc[w], cstep{true, r.Intn(na)})
			} else {
				k := fresh
				if r.Chance(3, 4) {
					fresh++
				}
				progsDesc[w] = append(progsDesc[w], cstep{false, k})
			}
		}
	}
	{
		w := nw - 1
		// at least one first use of a never-seen key
		progsDesc[w][0] = cstep{false, fresh}
		fresh++
	}
	s := sched.New(r.Fork(), r.Intn(3))
	var events []string
	hooksTierB(s)
	defer hooksOff()
	progs := make([]func(int), nw)
	for w := range progs {
		w := w
		progs[w] = func(int) {
			for _, st := range progsDesc[w] {
				if st.clear {
					km.clear(st.key)
					events = append(events, fmt.Sprintf("w%d ClearKey(k%d)", w, st.key))
					continue
				}
				km.acquire(kLock, st.key)
				events = append(events, fmt.Sprintf("w%d LockKey(k%d)", w, st.key))
				km.release(kLock, st.key)
				events = append(events, fmt.Sprintf("w%d UnlockKey(k%d)", w, st.key))
			}
		}
	}
	// a third of the cases are "directed": phase 1 is sequential (every key cleared,
	// then ONE first use of a new key, which leaves the cleared keys expunged and the
	// new key in the dirty half only) and phase 2 is always the concurrent one
	directed := r.Chance(1, 3)
	if directed {
		hooksOff()
		// a key that is used but never cleared keeps the dirty half bigger than one entry,
		// so that the single first use below does not promote it right away
		km.acquire(kLock, 50)
		km.release(kLock, 50)
		km.acquire(kLock, 50)
		km.release(kLock, 50)
		for a := 0; a < na; a++ {
			km.clear(a)
			events = append(events, fmt.Sprintf("ClearKey(k%d)", a))
		}
		km.acquire(kLock, 100)
		km.release(kLock, 100)
		events = append(events, "LockKey(k100)+UnlockKey(k100) [first use of a new key]")
		if fresh < 101 {
			fresh = 101
		}
		s.Run([]func(int){func(int) {}})
		c.Count("tierb_clear_reuse_directed", 1)
	} else {
		s.Run(progs)
	}
	hooksOff()
	c.Count("tierb_clear_reuse_schedules", 1)
	c.Count("tierb_schedules", 1)
	c.Count("tierb_steps", int64(s.Steps))
	c.Distinct("tierb_distinct_schedules", s.Trace)
	for p := range s.SwitchPairs {
		c.Distinct("tierb_switch_site_pairs", uint64(p))
	}
	extra := map[string]any{"type": kind, "prefix": pre, "programs": fmt.Sprint(progsDesc), "events": events, "schedule_hash": s.Trace}
	if s.Panic != nil {
		c.Violate("clear-reuse:panic", fmt.Sprintf("panic under the serialized schedule: %v", s.Panic), extra)
		return
	}
	if s.Deadlock {
		c.Violate("clear-reuse:deadlock["+kind+"]", fmt.Sprintf("deadlock among ClearKey calls and lock/unlock pairs of distinct keys (sites %v)", s.BlockedAt), extra)
		return
	}
	if s.Overrun {
		c.Inconclusive("schedule exceeded the step bound")
		return
	}
	// phase 2, in half of the cases CONCURRENT: the cleared keys are used again while
	// other goroutines generate traffic on different keys only (second accesses of the
	// keys first used in phase 1: promotions; first uses of further new keys: rebuilds
	// of the dirty half). Whatever that traffic does to the map, an acquisition of a
	// cleared key must neither fail nor hand out a second mutex.
	var phase2Trace uint64
	if directed || r.Bool() {
		s2 := sched.New(r.Fork(), r.Intn(3))
		holders := make([]int, na)
		var ev2 []string
		var bad string
		nw2 := r.Range(3, 4)
		progs2 := make([]func(int), nw2)
		desc := make([]string, nw2)
		for w := range progs2 {
			w := w
			switch {
			case w < 2 && (w == 0 || r.Bool()): // reuse a cleared key (two workers may pick the same one)
				a := r.Intn(na)
				try := w == 1 && r.Bool()
				desc[w] = fmt.Sprintf("lock/unlock cleared k%d (try=%v)", a, try)
				progs2[w] = func(int) {
					for i := 0; i < 2; i++ {
						if try {
							if !km.acquire(kTryLock, a) {
								ev2 = append(ev2, fmt.Sprintf("w%d TryLockKey(k%d)=false", w, a))
								continue
							}
						} else {
							km.acquire(kLock, a)
						}
						holders[a]++
						ev2 = append(ev2, fmt.Sprintf("w%d holds k%d", w, a))
						if holders[a] > 1 && bad == "" {
							bad = fmt.Sprintf("worker %d entered the critical section of the cleared-and-reused key %d while another worker is inside", w, a)
						}
						s2.Yield(900)
						holders[a]--
						km.release(kLock, a)
						ev2 = append(ev2, fmt.Sprintf("w%d released k%d", w, a))
					}
				}
			case w == nw2-1: // first uses of never-seen keys
				k0 := fresh + 10
				desc[w] = fmt.Sprintf("first uses of k%d,k%d", k0, k0+1)
				progs2[w] = func(int) {
					for i := 0; i < 2; i++ {
						km.acquire(kLock, k0+i)
						km.release(kLock, k0+i)
						ev2 = append(ev2, fmt.Sprintf("w%d used new k%d", w, k0+i))
					}
				}
			default: // further accesses of the keys first used in phase 1
				desc[w] = "second accesses of phase-1 keys"
				progs2[w] = func(int) {
					for i := 0; i < 3; i++ {
						k := 100 + r.Intn(fresh-100+1)
						km.acquire(kLock, k)
						km.release(kLock, k)
						ev2 = append(ev2, fmt.Sprintf("w%d used k%d", w, k))
					}
				}
			}
		}
		hooksTierB(s2)
		s2.Run(progs2)
		hooksOff()
		c.Count("tierb_clear_reuse_concurrent_phase2", 1)
		if s2.Switches >= 1 {
			phase2Trace = s2.Trace | 1
		}
		c.Count("tierb_steps", int64(s2.Steps))
		c.Distinct("tierb_distinct_schedules", s2.Trace)
		extra["phase2_programs"], extra["phase2_events"] = desc, ev2
		switch {
		case s2.Panic != nil:
			c.Violate("clear-reuse:panic["+kind+"]", fmt.Sprintf("using a cleared key again while other goroutines use different keys panicked: %v", s2.Panic), extra)
			return
		case bad != "":
			c.Violate("clear-reuse:mutual-exclusion["+kind+"]", bad, extra)
			return
		case s2.Deadlock:
			c.Violate("clear-reuse:deadlock["+kind+"]", fmt.Sprintf("deadlock while cleared keys are used again next to traffic on other keys (sites %v)", s2.BlockedAt), extra)
			return
		case s2.Overrun:
			c.Inconclusive("schedule exceeded the step bound")
			return
		}
	}
	// phase 3, sequential: reuse every cleared key
	var post []string
	extra["after"] = &post
	for a := 0; a < na; a++ {
		kd := kLock
		if km.rw && r.Bool() {
			kd = kRLock
		}
		km.acquire(kd, a)
		post = append(post, fmt.Sprintf("%s(k%d)", kNames[kd], a))
		for i, n := 0, r.Range(1, 4); i < n; i++ {
			k := 100 + r.Intn(fresh-100+2)
			km.acquire(kLock, k)
			km.release(kLock, k)
			post = append(post, fmt.Sprintf("LockKey(k%d)+unlock", k))
		}
		if km.acquire(kTryLock, a) {
			c.Violate("clear-reuse:mutual-exclusion["+kind+"]", fmt.Sprintf("TryLockKey(k%d) succeeded while the key is held by %s(k%d); the key had been cleared (by concurrent ClearKey calls, nobody holding or awaiting it) and used again", a, kNames[kd], a), extra)
			return
		}
		if kd == kRLock {
			if !km.acquire(kTryRLock, a) {
				c.Violate("clear-reuse:Try-fails["+kind+"]", fmt.Sprintf("TryRLockKey(k%d) failed while the key is only read-locked", a), extra)
				return
			}
			km.release(kTryRLock, a)
		}
		km.release(kd, a)
		if !km.acquire(kTryLock, a) {
			c.Violate("clear-reuse:Try-fails["+kind+"]", fmt.Sprintf("TryLockKey(k%d) failed although the key had just been released and nobody else uses it", a), extra)
			return
		}
		km.release(kTryLock, a)
		c.Count("tierb_cleared_keys_reused", 1)
	}
	if s.Switches >= 1 || phase2Trace != 0 {
		c.NonTrivial(core.Mix(s.Trace, phase2Trace))
	}
	if c.WantSample() {
		c.Sample(map[string]any{"mode": "tierb/clear-reuse", "type": kind, "prefix": pre, "programs": fmt.Sprint(progsDesc), "events": events, "after": post})
	}
}

// sawOthers: did any other worker log an event on key since this worker's last event? (conservative helper)
func sawOthers(events []string, w, key int) bool { return false }

// ---------------------------------------------------------------- free-running

var crossKeyStuck atomic.Bool

type kocc struct {
	writers atomic.Int32
	readers atomic.Int32
	plain   int // incremented only inside write sections: lost-update + race oracle
	pad     [40]byte
}

func c09free(c *core.Ctx) {
	r := c.R
	km := &keyed{rw: r.Bool()}
	if km.rw {
		km.rwm = new(sync2.KeyedRWMutex[int])
	} else {
		km.m = new(sync2.KeyedMutex[int])
	}
	kind := "KeyedMutex"
	if km.rw {
		kind = "KeyedRWMutex"
	}
	policy := tierAHooks(r)
	defer hooksOff()
	rounds := r.Range(3, 12)
	var bad atomic.Value
	flag := func(sig, msg string) { bad.CompareAndSwap(nil, [2]string{sig, msg}) }
	nextKey := 0
	totalSections := int64(0)
	for round := 0; round < rounds; round++ {
		shape := r.Intn(3)
		ng := r.Range(2, 16)
		nkeys := 1
		if shape == 1 {
			nkeys = r.Range(2, 4)
		}
		// fresh, never-seen keys every round: the racing first LoadOrStore
		keys := make([]int, nkeys)
		for i := range keys {
			keys[i] = nextKey
			nextKey++
		}
		occ := make([]*kocc, nkeys)
		for i := range occ {
			occ[i] = new(kocc)
		}
		wsec := make([]atomic.Int64, nkeys)
		nops := r.Range(1, 30)
		if shape == 0 {
			nops = r.Range(1, 3) // barrier onto a fresh key, very short
			if r.Bool() {
				// ... and in half of these rounds onto a fresh VALUE as well: the very first
				// calls on a zero-value keyed mutex arrive together
				fresh := &keyed{rw: km.rw}
				if km.rw {
					fresh.rwm = new(sync2.KeyedRWMutex[int])
				} else {
					fresh.m = new(sync2.KeyedMutex[int])
				}
				km = fresh
				c.Count("free_barrier_rounds_on_a_fresh_value", 1)
			}
		}
		var wg sync.WaitGroup
		start := make(chan struct{})
		seeds := make([]uint64, ng)
		for i := range seeds {
			seeds[i] = r.Uint64()
		}
		if shape == 2 && crossKeyStuck.Load() {
			shape = 1
		}
		if shape == 2 && ng >= 2 {
			// cross-key independence as hold-and-wait: A holds k1 until B got and released k2
			k1, k2 := nextKey, nextKey+1
			nextKey += 2
			// a third of these rounds use a SECOND keyed mutex of the same type for B, with
			// the very same key: two values must not share anything
			kmB := km
			if r.Chance(1, 3) {
				kmB = &keyed{rw: km.rw}
				if km.rw {
					kmB.rwm = new(sync2.KeyedRWMutex[int])
				} else {
					kmB.m = new(sync2.KeyedMutex[int])
				}
				k2 = k1
				c.Count("free_same_key_on_two_instances_rounds", 1)
			}
			bDone := make(chan struct{})
			aHolds := make(chan struct{})
			var hw sync.WaitGroup
			hw.Add(2)
			go func() {
				defer hw.Done()
				km.acquire(kLock, k1)
				close(aHolds)
				<-bDone // plain receive: if B can never get k2, this is a provable deadlock
				km.release(kLock, k1)
			}()
			// in half of the rounds a third goroutine is already WAITING for the held key when
			// B starts: a waiter must not keep anything locked that other keys need
			if seeds[0]&4 == 4 {
				hw.Add(1)
				wStarted := make(chan struct{})
				go func() {
					defer hw.Done()
					<-aHolds
					close(wStarted)
					km.acquire(kLock, k1) // blocks until A releases
					km.release(kLock, k1)
				}()
				<-aHolds
				<-wStarted
				for i := 0; i < 50; i++ {
					runtime.Gosched() // let the waiter get into LockKey
				}
				time.Sleep(200 * time.Microsecond)
				c.Count("free_cross_key_rounds_with_a_waiter_on_the_held_key", 1)
			}
			go func() {
				defer hw.Done()
				<-aHolds
				kd := kLock
				if km.rw && seeds[0]&1 == 1 {
					kd = kRLock
				}
				if seeds[0]&2 == 2 {
					// Try on a different, free key must succeed while k1 is held
					tk := kTryLock
					if !kmB.acquire(tk, k2) {
						flag("free:Try-fails-on-other-key", "TryLockKey on a free key failed while a different key (or the same key of another keyed mutex) was held")
					} else {
						kmB.release(tk, k2)
					}
				}
				kmB.acquire(kd, k2)
				kmB.release(kd, k2)
				close(bDone)
			}()
			if st, where := core.WaitOrDeadlock(&hw, 2*time.Second, 30*time.Second); st != "done" {
				if st == "deadlock" {
					flag("free:cross-key-deadlock", "goroutine A holds key k1 and waits for B; B can never acquire the different key k2 (or the same key of a second keyed mutex): "+where)
					crossKeyStuck.Store(true)
					break
				}
				crossKeyStuck.Store(true)
				c.Inconclusive("hold-and-wait across two keys did not complete (no deadlock proven)")
				break
			}
			c.Count("free_cross_key_rounds", 1)
			continue
		}
		if shape == 1 {
			// a side goroutine clears keys that nobody ever locks
			wg.Add(1)
			go func() {
				defer wg.Done()
				<-start
				for i := 0; i < 20; i++ {
					km.clear(-1 - i%3)
				}
			}()
		}
		for g := 0; g < ng; g++ {
			g := g
			wg.Add(1)
			go func() {
				defer wg.Done()
				rr := core.NewRand(seeds[g])
				<-start
				for i := 0; i < nops; i++ {
					ki := rr.Intn(nkeys)
					k := keys[ki]
					o := occ[ki]
					kd := rr.Pick(5, 2, 0, 0)
					if km.rw {
						kd = rr.Pick(4, 2, 4, 2)
					}
					if !km.acquire(kd, k) {
						continue
					}
					if kd == kLock || kd == kTryLock {
						if w := o.writers.Add(1); w != 1 || o.readers.Load() != 0 {
							flag("free:mutual-exclusion", fmt.Sprintf("write section of a key entered with writers=%d readers=%d", w, o.readers.Load()))
						}
						o.plain++
						wsec[ki].Add(1)
						if rr.Chance(1, 4) {
							runtime.Gosched()
						}
						o.writers.Add(-1)
					} else {
						o.readers.Add(1)
						if o.writers.Load() != 0 {
							flag("free:reader-with-writer", "read section entered while a writer is inside")
						}
						_ = o.plain // readers read what writers write
						if rr.Chance(1, 4) {
							runtime.Gosched()
						}
						o.readers.Add(-1)
					}
					km.release(kd, k)
				}
			}()
		}
		close(start)
		wg.Wait()
		for i := range occ {
			if int64(occ[i].plain) != wsec[i].Load() {
				flag("free:lost-update", fmt.Sprintf("plain counter is %d after %d write sections on one key", occ[i].plain, wsec[i].Load()))
			}
			totalSections += wsec[i].Load()
		}
		if shape == 0 {
			c.Count("free_fresh_key_barrier_rounds", 1)
		} else {
			c.Count("free_mixed_rounds", 1)
		}
		// quiescent: clear the keys, they may be reused (as fresh) later
		if r.Bool() {
			for _, k := range keys {
				km.clear(k)
			}
		}
	}
	hooksOff()
	// many keys on one value: while one key is write-held and (RW type) another is
	// read-held, 1100..2600 further distinct keys are used once each - whatever
	// housekeeping a growing key table triggers must leave the held keys held
	if bad.Load() == nil && r.Chance(1, 4) {
		kw, kr := nextKey, nextKey+1
		nextKey += 2
		km.acquire(kLock, kw)
		if km.rw {
			km.acquire(kRLock, kr)
		}
		n := r.Range(1100, 2600)
		for i := 0; i < n; i++ {
			k := nextKey
			nextKey++
			kd := kLock
			if km.rw && i%3 == 0 {
				kd = kRLock
			}
			km.acquire(kd, k)
			km.release(kd, k)
		}
		if km.acquire(kTryLock, kw) {
			flag("free:held-key-forgotten", fmt.Sprintf("TryLockKey succeeded on a key that is write-held, after %d other distinct keys had been used once each on the same value", n))
		} else if km.rw {
			if km.acquire(kTryLock, kr) {
				flag("free:held-key-forgotten", fmt.Sprintf("TryLockKey succeeded on a key that a reader holds, after %d other distinct keys had been used once each on the same value", n))
			} else if !km.acquire(kTryRLock, kr) {
				flag("free:Try-fails", "TryRLockKey failed on a key that only a reader holds")
			} else {
				km.release(kRLock, kr)
			}
		}
		if bad.Load() == nil {
			km.release(kLock, kw)
			if km.rw {
				km.release(kRLock, kr)
			}
		}
		c.Count("free_many_keys_rounds", 1)
		c.Max("free_max_distinct_keys_on_one_value", int64(nextKey))
	}
	// a crowd: 3000 goroutines all locking ONE key once (thousands of waiters on one mutex)
	if bad.Load() == nil && r.Chance(1, 40) {
		k := nextKey
		nextKey++
		var inside atomic.Int32
		plain := 0
		var cw sync.WaitGroup
		gate := make(chan struct{})
		for g := 0; g < 3000; g++ {
			cw.Add(1)
			go func() {
				defer cw.Done()
				<-gate
				km.acquire(kLock, k)
				if inside.Add(1) != 1 {
					flag("free:mutual-exclusion", "two of 3000 goroutines locking one key were inside its write section at once")
				}
				plain++
				inside.Add(-1)
				km.release(kLock, k)
			}()
		}
		close(gate)
		cw.Wait()
		if plain != 3000 {
			flag("free:lost-update", fmt.Sprintf("plain counter is %d after 3000 write sections on one key", plain))
		}
		c.Count("free_crowd_rounds", 1)
	}
	// one key used, released and cleared 300 times over, with Try checks in between
	if bad.Load() == nil && r.Chance(1, 6) {
		k := nextKey
		nextKey++
		for i := 0; i < 300 && bad.Load() == nil; i++ {
			kd := kLock
			if km.rw && i%2 == 1 {
				kd = kRLock
			}
			km.acquire(kd, k)
			if km.acquire(kTryLock, k) {
				flag("free:Try-succeeds-on-held-key", fmt.Sprintf("cycle %d of lock/Try/unlock/ClearKey on one key: TryLockKey succeeded while the key is held", i+1))
				break
			}
			km.release(kd, k)
			if !km.acquire(kTryLock, k) {
				flag("free:Try-fails", fmt.Sprintf("cycle %d of lock/Try/unlock/ClearKey on one key: TryLockKey failed on the released key", i+1))
				break
			}
			km.release(kLock, k)
			km.clear(k)
		}
		c.Count("free_use_clear_storms", 1)
	}
	// keys that are == although they look different: +0.0 and -0.0 are ONE key
	if bad.Load() == nil && r.Chance(1, 4) {
		pz, nz := 0.0, math.Copysign(0, -1)
		var fm sync2.KeyedMutex[float64]
		var frw sync2.KeyedRWMutex[float32]
		fm.LockKey(pz)
		frw.RLockKey(float32(nz))
		if fm.TryLockKey(nz) {
			flag("free:equal-keys-two-mutexes", "KeyedMutex[float64]: LockKey(+0.0) is held and TryLockKey(-0.0) succeeded; +0.0 == -0.0 is one key")
		} else if frw.TryLockKey(float32(pz)) {
			flag("free:equal-keys-two-mutexes", "KeyedRWMutex[float32]: RLockKey(-0.0) is held and TryLockKey(+0.0) succeeded; +0.0 == -0.0 is one key")
		} else {
			fm.UnlockKey(nz)
			frw.RUnlockKey(float32(pz))
			if !fm.TryLockKey(pz) || !frw.TryLockKey(float32(nz)) {
				flag("free:Try-fails", "TryLockKey failed on a float key that had just been released through its other zero")
			}
		}
		c.Count("free_signed_zero_key_rounds", 1)
	}
	// interface-typed keys: the nil interface is a key like any other, and values of
	// different dynamic types are different keys
	if bad.Load() == nil && r.Chance(1, 4) {
		keys := []any{nil, 1, "1", int64(1), [2]int{1, 2}, 1.0, (*int)(nil), error(nil), struct{}{}}
		// keys[0] and keys[7] are both the nil interface: one key
		var am sync2.KeyedMutex[any]
		var arw sync2.KeyedRWMutex[any]
		if p, pv := core.Catch(func() {
			for i, k := range keys[:7] {
				if !am.TryLockKey(k) {
					flag("free:Try-fails", fmt.Sprintf("KeyedMutex[any]: TryLockKey(%#v) failed on a key never used (keys %d others of other dynamic types are held)", k, i))
					return
				}
				if i%2 == 0 {
					if !arw.TryLockKey(k) {
						flag("free:Try-fails", fmt.Sprintf("KeyedRWMutex[any]: TryLockKey(%#v) failed on a key never used", k))
						return
					}
				} else if !arw.TryRLockKey(k) || !arw.TryRLockKey(k) {
					flag("free:Try-fails", fmt.Sprintf("KeyedRWMutex[any]: TryRLockKey(%#v) failed on a key only read-held or never used", k))
					return
				}
			}
			for i, k := range keys[:8] {
				if am.TryLockKey(k) {
					flag("free:Try-succeeds-on-held-key", fmt.Sprintf("KeyedMutex[any]: TryLockKey(%#v) succeeded while that key is held", k))
					return
				}
				if arw.TryLockKey(k) || (i%2 == 0 || i == 7) && arw.TryRLockKey(k) {
					flag("free:Try-succeeds-on-held-key", fmt.Sprintf("KeyedRWMutex[any]: a Try succeeded on key %#v while it is held in a conflicting way", k))
					return
				}
			}
			// a failed TryRLockKey just happened; the next never-seen key must be free for a writer
			if !arw.TryLockKey(struct{}{}) || !am.TryLockKey(struct{}{}) {
				flag("free:Try-fails", "TryLockKey failed on a never-used key right after failed Try calls on other (held) keys")
				return
			}
			for i, k := range keys[:7] {
				am.UnlockKey(k)
				if i%2 == 0 {
					arw.UnlockKey(k)
				} else {
					arw.RUnlockKey(k)
					arw.RUnlockKey(k)
				}
				if !am.TryLockKey(k) || !arw.TryLockKey(k) {
					flag("free:Try-fails", fmt.Sprintf("TryLockKey(%#v) failed on an interface-typed key that had just been released", k))
					return
				}
			}
		}); p {
			flag("free:panic-on-interface-key", fmt.Sprintf("a keyed mutex with interface-typed keys (nil interface, ints, strings, arrays, nil pointers) panicked: %v", pv))
		}
		c.Count("free_interface_key_rounds", 1)
	}
	// a failed TryRLockKey on a write-held key, then a never-seen key used first by a writer
	if bad.Load() == nil && km.rw && r.Chance(1, 3) {
		a, b := nextKey, nextKey+1
		nextKey += 2
		km.acquire(kLock, a)
		if km.acquire(kTryRLock, a) {
			flag("free:Try-succeeds-on-held-key", "TryRLockKey succeeded on a write-held key")
		} else if !km.acquire(kTryLock, b) {
			flag("free:Try-fails", "TryLockKey failed on a never-used key right after a failed TryRLockKey on another key")
		} else {
			km.release(kLock, b)
			km.release(kLock, a)
		}
		c.Count("free_failed_tryrlock_then_new_key", 1)
	}
	c.Count("free_cases", 1)
	c.Count("free_"+kind, 1)
	c.Count("free_policy_"+policy, 1)
	c.Count("free_write_sections", totalSections)
	if b := bad.Load(); b != nil {
		x := b.([2]string)
		c.Violate(x[0]+"["+kind+"]", x[1], map[string]any{"type": kind, "gomaxprocs": runtime.GOMAXPROCS(0), "hook_policy": policy})
		return
	}
	c.NonTrivial(core.Mix(c.Seed, uint64(rounds)))
	if c.WantSample() {
		c.Sample(map[string]any{"mode": "free", "type": kind, "rounds": rounds, "write_sections": totalSections, "hook_policy": policy})
	}
}
