# claim(id, technique, level text, level note, design ref)
claim("C01",
  "reference-model lock-step monitor (sorted-multiset model) over PRNG-generated operation histories; full state re-observed after every call",
  "Runtime monitoring: generated Add/Remove(present|absent)/Clear/Clone/read histories over 6 element-type/comparator families are mirrored on a sorted slice; after every call Len, all three traversals (slices and walks), String and Contains over the whole universe are compared for every live tree (originals and clones), and the three traversals are checked to be traversals of one binary tree. Held on the histories of this run; nothing is proven.",
  "Trusted: Go toolchain; the sorted-slice model; four element types stand in for 'every element type'.",
  "DESIGN.md section 4, C01")
claim("C02",
  "invariant monitor: tree shape reconstructed from SlicePreOrder+SliceInOrder after every Add/Remove, AVL balance asserted at every node; counting comparator bounds per-operation work",
  "Runtime monitoring: nine workload families (ascending, descending, zig-zag, random, Fibonacci-shaped trees then deletions, delete-root/min/max, interleaved) with distinct values; after every mutation the shape is rebuilt from the public traversals and |hl-hr|<=1 plus the 1.4405*log2(n+2) depth bound are asserted; comparator invocations per Contains/Add/Remove are bounded by 4*depth bound+8. Held on the histories of this run.",
  "Trusted: Go toolchain; shape reconstruction is exact only for distinct values (duplicates are covered by the comparator-count proxy and by C01).",
  "DESIGN.md section 4, C02")
claim("C07",
  "reference-model lock-step monitor (sorted-slice model) over PRNG-generated histories; strict-order regime (full contract) and weak-order regime (invariant half)",
  "Runtime monitoring: NewSorted/NewSortedOrdered over random inputs (nil, empty, duplicates, spare capacity), then Add / Remove(present|absent) / RemoveAt / Get / Index / Contains / out-of-range calls; after every call the contents (Get over 0..Len-1), String and the caller's input slice (incl. spare capacity) are compared with the model. Weak-order regime with tagged elements checks sortedness and exact multiset only. Held on the histories of this run.",
  "Trusted: Go toolchain; the sorted-slice model; five element/order families stand in for 'any less function'.",
  "DESIGN.md section 4, C07")
claim("C08",
  "cell-model monitor: every call mirrored on a [][]int of unique values, whole grid re-read through Get after every mutation; all shapes 0..6 x 0..6 systematically plus random flat/tall shapes",
  "Runtime monitoring: per shape every cell is Set (random order) and the whole grid re-read, every out-of-bounds coordinate in -2..w+1 x -2..h+1 must panic and change nothing, Row/RowSpan are checked for contents and liveness in both directions, Fill for all corner orders, Clone independence both ways, New2DFilled, New2DFromJagged (shorter/longer/more/fewer rows) and String. Held on the shapes and calls of this run.",
  "Trusted: Go toolchain; the cell model. RowSpan with x1 > x2 is outside the property and not generated.",
  "DESIGN.md section 4, C08")
claim("C11",
  "reference-model lock-step monitor (slice-of-pairs model); ALL histories of length <= 4 over the 25 mutating calls enumerated in every run, plus random longer histories with Clone",
  "Runtime monitoring: after every call GetForward/ContainsForward over all keys, GetReverse/ContainsReverse over all values, Len, Range (each pair exactly once; early stop honoured) and the inverse-bijection invariant itself are checked on every live map (originals and clones). The systematic part enumerates every history of up to 4 calls of {Add(k,v) 16, RemoveForward 4, RemoveReverse 4, Clear} from the zero value. Held on the histories of this run.",
  "Trusted: Go toolchain; the pair-list model; key/value universes of size 4.",
  "DESIGN.md section 4, C11")
claim("C12",
  "model-comparison monitor: expected sequence rebuilt in a fresh slice; systematic sweep len 0..8 x spare capacity 0..8 x every index x inserted length 0..5 x removal length, sentinels in spare capacity",
  "Runtime monitoring: Insert/InsertSlice/Remove/RemoveSlice results compared element-wise with the splice model for every valid position and capacity in the systematic range and for sampled positions on random lengths up to 5000; Fill/Repeat for every length 0..300, Reverse 0..65, Concat/Clone contents and memory independence, Grow zero-extension over sentinel-filled capacity. Held on the inputs of this run.",
  "Trusted: Go toolchain; the copy-based reference.",
  "DESIGN.md section 4, C12")
claim("C13",
  "naive-loop reference monitor over every (n, size) with n 0..64, size 1..70 in every run plus random n <= 5000",
  "Runtime monitoring: Chunk (count, every piece's length/contents, no empty piece, concatenation == input), Windowed, Pairs and the sequence of callback arguments of ChunkFunc/WindowedFunc/PairsFunc are compared with naive loops. Held on the inputs of this run.",
  "Trusted: Go toolchain; the naive loops. Aliasing of pieces with the input is not part of the property and not judged.",
  "DESIGN.md section 4, C13")
claim("C14",
  "naive-loop reference monitor with order/position-sensitive callbacks; inputs snapshotted and compared after each call, every returned slice/map scribbled on; ALL slices over a 3-letter alphabet up to length 6 in every run plus random inputs",
  "Runtime monitoring: Fold/FoldReverse (non-commutative accumulators, call counts), Map/MapErr (call-order-sensitive converter, failure at chosen positions), Filter (position mask), Any/All, Index*/Contains*, Distinct/DistinctFunc, Except/ExceptSet (both Set implementations), GroupBy/CountBy, the Trim family, TryGet/SafeGet/SafeGetOr/Last and the map helpers are compared with reference loops; inputs must be unchanged and results must not share memory with inputs. Held on the inputs of this run.",
  "Trusted: Go toolchain; the reference loops. TrimFunc's doc comment says 'unwanted if the callback returns false' but the parameter is named unwanted and Trim trims what IS unwanted: the reference follows the code's evident intent. Trim results are compared by contents (sub-slice identity is not demanded).",
  "DESIGN.md section 4, C14")
claim("C15",
  "post-condition monitor: permutation + adjacent order + tie order via tagged elements; BinarySearch against a linear scan; ALL slices over {0,1,2} up to length 7 in every run plus random slices up to length 3000",
  "Runtime monitoring: every Sort* variant is run on tagged copies of each input and the result is checked to be a permutation, ordered in the promised direction and (Stable variants) with ties in original order; BinarySearch/BinarySearchFunc are compared with a linear lower-bound scan for present/absent/below/above targets; ShuffleRand is a permutation and deterministic in the generator, Shuffle a permutation. Held on the inputs of this run.",
  "Trusted: Go toolchain.",
  "DESIGN.md section 4, C15")
claim("C16",
  "reference-model lock-step monitor (slice models) from the zero value, op mix biased to drain to empty and refill",
  "Runtime monitoring: after every Enqueue/Dequeue/Push/Pop the return values, Len and two consecutive Peeks of both containers are compared with slice models; empty Dequeue/Pop/Peek must return (zero,false) and leave the container usable. Held on the histories of this run.",
  "Trusted: Go toolchain; the slice models.",
  "DESIGN.md section 4, C16")
claim("C20",
  "reference-computation monitor: exhaustive all pairs/triples of int8 and uint8, all 16-bit values, boundary-dense 32/64-bit/float samples; thorough adds all 2^32 values of int32/uint32 for the one-argument functions",
  "Runtime monitoring against references independent of the implementation (strconv digit counts, widened and big-integer arithmetic, explicit comparisons): Min/Max/Clamp/Sum/Product/Compare/Less/Coal over ALL pairs and triples of int8 and uint8, Digits10/DigitsSign10/Abs/Clamp01/IsZero over all 8- and 16-bit values (named types included), boundary-dense samples of int32/int64/int/uint/uintptr/float32/float64/string/complex, and the utility helpers (Zero, ZeroOf, IsZero with method, Tern, TernCast, Ref, DerefZero, IsNil). Exhaustive only where stated.",
  "Trusted: Go toolchain, strconv, math/big. NaN excluded; Abs(min) excluded ('where representable').",
  "DESIGN.md section 4, C20")
claim("C03",
  "reference-model lock-step monitor (map[T]bool per set object) over random construction histories in all four implementation pairings; operands and results fully re-read after every call",
  "Runtime monitoring: A and B are built by random histories (constructors with duplicates, Add/Remove/Has-miss/Len/Slice/Clone-and-swap - which for the concurrent set drive misses, promotion and deleted entries), then Union/Intersect/SetDiff/SymDiff in both directions, AddSet/RemoveSet and CartesianProduct are applied; after each call result and operands are re-read (sorted Slice, Has over the universe, Len, Range exactly-once and early stop, String) and compared with the models, and results are mutated to show they share no state with operands (and vice versa). Held on the cases of this run.",
  "Trusted: Go toolchain; the map model; three element types and universes <= 8. VerifLayout (hooks) is used for coverage evidence only.",
  "DESIGN.md section 4, C03")
claim("C06",
  "differential lock-step monitor against container/list and container/ring of the toolchain through parallel handle tables; all lengths, traversals and every handle's neighbours compared after every call",
  "Runtime monitoring: every List call (Push*, Insert*, Move*, Remove, Init, PushBackList/PushFrontList of another list and of itself, Front/Back) with element arguments drawn from live-here / live-elsewhere / removed / never-inserted, and every Ring call (NewRing incl. n<=0, zero rings, Next, Prev, Move any sign, Link same/other/itself, Unlink, Len, Do) is made on both libraries; return values, Len, forward and backward traversals and Next/Prev of every handle ever issued must agree after every call; a self-push that never returns is caught by the per-case watchdog and confirmed by a re-run. Held on the histories of this run.",
  "Trusted: Go toolchain incl. container/list and container/ring as the reference. Nil element/receiver arguments are not generated; elements orphaned by Init() (stale owner pointer in both libraries) are retired.",
  "DESIGN.md section 4, C06")
claim("C04",
  "recorded-history linearizability checking (porcupine, per key) over (a) a serialized PRNG scheduler driving the real code through add-only hook sites and (b) free-running goroutines; sequential lock-step model; Go race detector (+checkptr) on unrecorded rounds",
  "Runtime monitoring in four modes: seq - sequential histories incl. Range vs a map[K]V, logging the read/dirty/expunged layout states reached; tierb - after a random sequential prefix 2..4 workers x 1..6 calls run under a serialized scheduler that switches at every atomic/mutex hook site (uniform, sticky and PCT-style strategies), history judged by porcupine per key; lin - 2..16 free-running goroutines with hook-injected yields, same oracle (plain and -race builds); race - up to 64 goroutines without recorder under the race detector. Range is judged at the property's strength (visited pair = a Load hit inside the call's interval; unvisited key = a miss only if no mutating call on it overlaps; no key twice). Sampling, not enumeration: distinct schedules and switch site pairs are reported.",
  "Trusted: Go toolchain/runtime/race detector, porcupine v1.3.0, the per-key sequential model. Interleaving granularity in tierb is the hook sites under sequential consistency; weak-memory effects only as far as x86-64 + the Go runtime exhibit them in the free-running modes.",
  "DESIGN.md section 4, C04")
claim("C05",
  "recorded-history linearizability checking (porcupine, per value, state bool) + conservation law at quiescence, over the serialized PRNG scheduler and free-running goroutines; Go race detector on unrecorded rounds",
  "Runtime monitoring: Add/Remove/Has and singleton AddSet/RemoveSet calls are recorded with invocation/response stamps and checked per value against an atomic-set model (successful Adds and Removes alternate, starting from the prefix state, consistent with real time; Has agrees); multi-element AddSet/RemoveSet counts enter the conservation law initial + successful Adds + AddSet counts - successful Removes - RemoveSet counts == final Len == |final Slice|; per-value balance and Len bounds are checked; final Has/Slice/Len agree. Modes tierb (serialized scheduler over the sync2.Map hooks), lin (free-running, plain and -race), race (no recorder, race detector).",
  "Trusted: Go toolchain/runtime/race detector, porcupine v1.3.0. Len during concurrency is only bounded, as the property allows.",
  "DESIGN.md section 4, C05")
claim("C09",
  "occupancy-invariant monitors maintained by the harness per key + the serialized scheduler's blocked/enabled view (blocked-on-free-key, Try-blocks, Try-result-vs-occupancy, deadlock) + lost-update counter under the Go race detector on free-running rounds",
  "Runtime monitoring: tierb - 2..4 workers run short programs (LockKey/TryLockKey/RLockKey/TryRLockKey, at most one key held at a time, hold-and-yield) over 1..3 keys under a serialized PRNG scheduler that switches at the hook sites of sync2.Map and before the blocking Lock/RLock; the harness asserts writers<=1 and writers==1 => readers==0 at every entry, that a worker is never blocked on a key that is free and uncontended, that Try* never reaches a blocking acquisition and never fails on a free uncontended key, and that no schedule deadlocks. free - real goroutines released by a barrier onto never-seen keys, steady-state mixes and a cross-key hold-and-wait protocol, with atomic occupancy asserts and a plain per-key counter (lost update; race report under -race).",
  "Trusted: Go toolchain/runtime/race detector. RWMutex writer-preference queueing inside sync.RWMutex is invisible to the serialized mode (exercised only statistically in free mode). ClearKey only at quiescent points, as the property says.",
  "DESIGN.md section 4, C09")
claim("C10",
  "recorded-event-log checkers (exactly-once, order, delivery-xor-timeout, nothing after removal, error contract) over free-running scenarios in isolated worker processes; process exit status for panics; Go race detector",
  "Runtime monitoring: stable scenarios (0..4 subscribers, buffers 0..3, six publish variants, timeout on/off, prompt/delayed/stalled receivers, 1..3 publishers): for Wait/Sync variants UnsubAll is called the moment the publish calls return and every subscriber must have every event exactly once (Sync: in publication order); async variants are judged after acknowledged quiescence (bounded-progress restatement of 'eventually', loss detected when no send goroutine is left, channels are empty and the count is short); with a timeout each (event,subscriber) pair ends in exactly one delivery or OnPubTimeout call, none after a Wait/Sync call returned. Churn scenarios add concurrent Sub/SubBuf/Unsub/UnsubAll (error contract, exactly the given channel closed, stable subscribers unaffected) and WithOnly. A panic in a library goroutine kills the worker process and is attributed to the journaled case.",
  "Trusted: Go toolchain/runtime/race detector. Unbounded 'eventually' is restated as bounded progress with a generous watchdog whose firing is inconclusive. Two KNOWN FINDINGS (send on closed channel under concurrent Unsub, KNOWN_FINDINGS.txt) are exercised in separate small modes.",
  "DESIGN.md section 4, C10")
claim("C17",
  "invariant monitor over free-running rounds: per-function invocation counters, returned-tuple comparison, plain completion flag read right after Do returns; Go race detector",
  "Runtime monitoring: per round a fresh Once1/Once2/Once3, 2..32 goroutines released by a barrier plus late callers, each passing its own function; exactly one invocation in total, every Do returns that invocation's tuple, and every caller sees the action's last plain write immediately after Do returns (assert in the plain build, race report in the -race build).",
  "Trusted: Go toolchain/runtime/race detector.",
  "DESIGN.md section 4, C17")
claim("C18",
  "recorded-history linearizability checking (porcupine, single-register model over unique values, three value representations incl. multi-word) for AtomicValue; ownership-flag monitor on pooled tokens for Pool; Go race detector on unrecorded rounds",
  "Runtime monitoring: reg - Load/Store/Swap/CompareAndSwap histories of 2..8 goroutines are checked against one atomic register (zero value before the first Store; CAS before the first Store may go either way, as the property is silent there); torn multi-word values are detected by a redundant field. pool - tokens carry an atomic ownership flag (a Get that returns a token somebody still holds fails a CAS), a minted flag (nothing invented) and plain data written by the holder (race report under -race); rounds with and without New and with forced GCs. race - unrecorded rounds under the race detector decide 'free of data races'.",
  "Trusted: Go toolchain/runtime/race detector, porcupine v1.3.0.",
  "DESIGN.md section 4, C18")
claim("C19",
  "conservation checker over unique values for the timed/context helpers in free-running scenarios (valid whichever side wins a race); exhaustive sequential sweep for RecvQueued/RecvQueuedFull",
  "Runtime monitoring: queued - every capacity 0..5 x fill 0..cap x open/closed x limit 0..cap+2 for RecvQueued and RecvQueuedFull on bidirectional and receive-only channels: exactly the first min(fill,limit) queued values in FIFO order, the rest still queued, nothing invented on a closed channel, never blocks (deterministic-hang rule). timed - SendTimeout/SendContext senders against a plain receiver, RecvTimeout/RecvContext receivers against a plain producer (optionally closing), timeouts 50us..2ms, peers arriving before/around/after the deadline: values reported sent == values that arrived (received or left in the channel), values reported not sent arrive nowhere, values returned == values taken, (zero,false) otherwise, no duplicates; non-positive timeouts must wait for a late peer.",
  "Trusted: Go toolchain/runtime/race detector. An unbuffered channel with a blocked sender is not used for RecvQueued (whether that value is 'queued' is not stated).",
  "DESIGN.md section 4, C19")
