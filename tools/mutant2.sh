#!/bin/bash
# tools/mutant2.sh <prop> <mutant-dir> <demo-dir-in-repo> [extra go test args]
# Like mutant.sh, but never touches /repo: patch and demo are applied in a scratch worktree and the check is built
# against that worktree (VERIF_REPO development override). Safe to run while something else uses /repo.
export GOFLAGS=-mod=mod GOPROXY=off GOSUMDB=off GOTOOLCHAIN=local
prop=$1; mdir=$2; ddir=$3; shift 3; extra="$@"
here=$(cd "$(dirname "$0")/.." && pwd)
wt=/tmp/wt/verify2-$$
git -C /repo worktree add -q --detach $wt HEAD || exit 2
demo=$(ls $mdir/*_test.go | head -1)
mkdir -p $wt/$ddir; cp $demo $wt/$ddir/zz_demo_test.go
( cd $wt && go test -count=1 $extra ./$ddir/ >/dev/null 2>&1 ) && dwo=ok || dwo=FAIL
rm $wt/$ddir/zz_demo_test.go; git -C $wt clean -fdq
if ! git -C $wt apply $mdir/patch.diff; then echo "MUTANT $mdir patch-does-not-apply"; git -C /repo worktree remove --force $wt; exit 2; fi
( cd $wt && go build ./... && go test -count=1 ./... >/dev/null 2>&1 ) && t=ok || t=FAIL
mkdir -p $wt/$ddir; cp $demo $wt/$ddir/zz_demo_test.go
( cd $wt && timeout 600 go test -count=1 $extra ./$ddir/ >/dev/null 2>&1 ) && dw=ok || dw=FAIL
rm $wt/$ddir/zz_demo_test.go; git -C $wt clean -fdq
( cd $here && VERIF_REPO=$wt ./check $prop ${VERIF_MUT_TIER:-quick} > $mdir/check_output.txt 2>&1 ); rc=$?
git -C /repo worktree remove --force $wt
nv=$(grep -c '^VIOLATION' $mdir/check_output.txt)
echo "MUTANT $mdir tests=$t demo_with=$dw demo_without=$dwo check_exit=$rc violation_lines=$nv"
grep -A2 '^VIOLATION' $mdir/check_output.txt | cut -c1-260 | head -9
