//go:build !verif

package props

const Tagged = false
