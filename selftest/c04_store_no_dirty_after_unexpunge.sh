python3 - <<'PY'
p='/repo/sync2/map.go'
s=open(p).read()
a='''			// The entry was previously expunged, which implies that there is a
			// non-nil dirty map and this entry is not in it.
			m.dirty[key] = e
'''
b='''			// The entry was previously expunged, which implies that there is a
			// non-nil dirty map and this entry is not in it.
'''
assert s.count(a)==1
open(p,'w').write(s.replace(a,b))
PY
