#!/bin/bash
# tools/runall.sh [quick|thorough] [props...] : run the claimed checks one after the other, print summaries
here=$(cd "$(dirname "$0")/.." && pwd); cd $here
tier=${1:-quick}; shift
props="$@"
[ -z "$props" ] && props=$(python3 -c "import json;print(' '.join(c['property_id'] for c in json.load(open('MANIFEST.json'))['checks']))")
rc=0
for p in $props; do
  out=$(./check $p $tier 2>&1); e=$?
  echo "$out" | grep -E '^(VIOLATION|KNOWN-FINDING|INCONCLUSIVE|SUMMARY)' | cut -c1-260
  [ $e -ne 0 ] && { echo "   exit=$e for $p"; rc=1; }
done
exit $rc
