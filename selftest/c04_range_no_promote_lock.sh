# Range: promote without re-checking amended under the lock -> may drop entries stored in between
python3 - <<'PY'
p='/repo/sync2/map.go'
s=open(p).read()
a='''		read, _ = m.read.Load().(readOnly[K, V])
		if read.amended {
			read = readOnly[K, V]{m: m.dirty}'''
b='''		if read.amended {
			read = readOnly[K, V]{m: m.dirty}'''
assert s.count(a)==1, s.count(a)
open(p,'w').write(s.replace(a,b))
PY
