# Load: drop the re-read of the read map after mu.Lock()
python3 - <<'PY'
p='/repo/sync2/map.go'
s=open(p).read()
a='''		verifYield(2)
		read, _ = m.read.Load().(readOnly[K, V])
		e, ok = read.m[key]
		if !ok && read.amended {
			e, ok = m.dirty[key]
			// Regardless of whether the entry was present, record a miss: this key'''
b='''		if !ok && read.amended {
			e, ok = m.dirty[key]
			// Regardless of whether the entry was present, record a miss: this key'''
assert s.count(a)==1
open(p,'w').write(s.replace(a,b))
PY
