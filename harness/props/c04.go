package props

import (
	"fmt"
	"math"
	"reflect"
	"runtime"
	"sync"
	"sync/atomic"
	"time"

	"gopkg.in/typ.v4/sync2"
	"verifharness/internal/core"
	"verifharness/internal/sched"
)

// C04 — sync2.Map is linearizable to an ordinary map, sequentially and
// concurrently; Range contract; race freedom.
//
// modes: seq   — sequential lock-step vs map[K]V (drives the read/dirty/expunged machine)
//        tierb — serialized PRNG scheduler over the hook sites, porcupine per key
//        lin   — free-running goroutines with recorded histories, porcupine per key
//        race  — free-running goroutines without recorder (race detector / checkptr / asan are the oracle)

func init() { register("C04", runC04) }

func runC04(c *core.Ctx) {
	switch c.Mode {
	case "seq":
		c04seq(c)
	case "tierb":
		c04tierb(c)
	case "lin":
		c04lin(c)
	case "race":
		c04race(c)
	}
}

type mapOpGen struct {
	r      *core.Rand
	client int
	n      int64
	keys   []int
	rangeW int
}

func (g *mapOpGen) next() rec {
	g.n++
	k := g.keys[g.r.Intn(len(g.keys))]
	switch g.r.Pick(24, 18, 18, 14, 8, g.rangeW) {
	case 0:
		return rec{Client: g.client, Op: opLoad, Key: k}
	case 1:
		return rec{Client: g.client, Op: opStore, Key: k, Arg: int64(g.client)<<32 | g.n}
	case 2:
		return rec{Client: g.client, Op: opLoadOrStore, Key: k, Arg: int64(g.client)<<32 | g.n}
	case 3:
		return rec{Client: g.client, Op: opLoadAndDelete, Key: k}
	case 4:
		return rec{Client: g.client, Op: opDelete, Key: k}
	}
	// Range: full, or stopping after `Arg` callbacks
	stop := int64(0)
	if g.r.Chance(1, 3) {
		stop = int64(1 + g.r.Intn(3))
	}
	return rec{Client: g.client, Op: opRange, Arg: stop}
}

// kvMap is the API of a sync2.Map seen through int keys and int64 values;
// *sync2.Map[int, int64] implements it directly, typedMap adapts other
// instantiations (multi-word keys and values).
type kvMap interface {
	Load(int) (int64, bool)
	Store(int, int64)
	LoadOrStore(int, int64) (int64, bool)
	LoadAndDelete(int) (int64, bool)
	Delete(int)
	Range(func(int, int64) bool)
}

// typedMap drives a sync2.Map[string, pairV]: string keys, two-word values whose
// halves must always belong together.
type typedMap struct {
	m    sync2.Map[string, pairV]
	torn *bool
}

func tk(k int) string  { return fmt.Sprintf("key-%d", k) }
func tv(v int64) pairV { return pairV{v, -v} }
func (t *typedMap) un(p pairV, ok bool) (int64, bool) {
	if ok && p.B != -p.A {
		*t.torn = true
	}
	return p.A, ok
}
func (t *typedMap) Load(k int) (int64, bool) { return t.un(t.m.Load(tk(k))) }
func (t *typedMap) Store(k int, v int64)     { t.m.Store(tk(k), tv(v)) }
func (t *typedMap) LoadOrStore(k int, v int64) (int64, bool) {
	return t.un(t.m.LoadOrStore(tk(k), tv(v)))
}
func (t *typedMap) LoadAndDelete(k int) (int64, bool) { return t.un(t.m.LoadAndDelete(tk(k))) }
func (t *typedMap) Delete(k int)                      { t.m.Delete(tk(k)) }
func (t *typedMap) Range(f func(int, int64) bool) {
	t.m.Range(func(k string, p pairV) bool {
		var id int
		fmt.Sscanf(k, "key-%d", &id)
		v, _ := t.un(p, true)
		return f(id, v)
	})
}

// doMapOp executes one call on the real map and fills in its result.
func doMapOp(m kvMap, o *rec) {
	switch o.Op {
	case opLoad:
		o.Val, o.Ok = m.Load(o.Key)
	case opStore:
		m.Store(o.Key, o.Arg)
	case opLoadOrStore:
		o.Val, o.Ok = m.LoadOrStore(o.Key, o.Arg)
	case opLoadAndDelete:
		o.Val, o.Ok = m.LoadAndDelete(o.Key)
	case opDelete:
		m.Delete(o.Key)
	case opRange:
		o.Visited = o.Visited[:0]
		o.Full = true
		m.Range(func(k int, v int64) bool {
			o.Visited = append(o.Visited, kv{k, v})
			if o.Arg > 0 && int64(len(o.Visited)) >= o.Arg {
				o.Full = false
				return false
			}
			return true
		})
	}
}

// applyModel applies a call to a plain map and returns the expected result.
func applyModel(model map[int]int64, o rec) (val int64, ok bool) {
	cur, has := model[o.Key]
	switch o.Op {
	case opLoad:
		return cur, has
	case opStore:
		model[o.Key] = o.Arg
	case opLoadOrStore:
		if has {
			return cur, true
		}
		model[o.Key] = o.Arg
		return o.Arg, false
	case opLoadAndDelete:
		delete(model, o.Key)
		return cur, has
	case opDelete:
		delete(model, o.Key)
	}
	return 0, false
}

// seqStep runs one call against map and model and compares; returns "" or a message.
func seqStep(m kvMap, model map[int]int64, o *rec) (sig, msg string) {
	doMapOp(m, o)
	if o.Op == opRange {
		seen := map[int]bool{}
		for _, e := range o.Visited {
			if seen[e.K] {
				return "Range:key-twice", fmt.Sprintf("Range visited key %d twice: %v", e.K, o.Visited)
			}
			seen[e.K] = true
			if mv, ok := model[e.K]; !ok || mv != e.V {
				return "Range:wrong-pair", fmt.Sprintf("Range visited (%d,%d), model holds (%d,%v)", e.K, e.V, mv, ok)
			}
		}
		if o.Full && len(seen) != len(model) {
			return "Range:missed-key", fmt.Sprintf("full Range visited %v, model holds %v", o.Visited, model)
		}
		if !o.Full && int64(len(o.Visited)) != o.Arg {
			return "Range:early-stop", fmt.Sprintf("Range asked to stop after %d callbacks made %d", o.Arg, len(o.Visited))
		}
		return "", ""
	}
	wv, wok := applyModel(model, *o)
	switch o.Op {
	case opLoad, opLoadOrStore, opLoadAndDelete:
		if o.Ok != wok || o.Val != wv {
			return opNames[o.Op] + ":result", fmt.Sprintf("%s(k%d) returned (%d,%v), a map[K]V returns (%d,%v)", opNames[o.Op], o.Key, o.Val, o.Ok, wv, wok)
		}
	}
	return "", ""
}

// nestedRange: one Range call whose callback makes further calls on the same map -
// Loads, nested full Ranges, and also Stores/Deletes. The Range contract is judged
// with the nested mutations taken into account: no key twice, every visited value is
// one the key held at some moment of the call, and every key that was present at the
// start and not touched by a nested call is visited. The nested calls themselves must
// return what a map[K]V returns.
func nestedRange(c *core.Ctx, m kvMap, model map[int]int64, g *mapOpGen) (sig, msg string, out rec) {
	r := g.r
	start := map[int]int64{}
	for k, v := range model {
		start[k] = v
	}
	held := map[int][]int64{}
	touched := map[int]bool{}
	out = rec{Op: opRange, Full: true}
	var nested []string
	m.Range(func(k int, v int64) bool {
		out.Visited = append(out.Visited, kv{k, v})
		if sig != "" {
			return false
		}
		switch r.Intn(4) {
		case 0: // read back the pair just visited (if no nested call has touched it)
			if !touched[k] {
				if lv, ok := m.Load(k); !ok || lv != v {
					sig, msg = "Range:nested-Load", fmt.Sprintf("inside the Range callback for (k%d,%d), Load(k%d) returned (%d,%v)", k, v, k, lv, ok)
				}
			}
		case 1: // nested full Range: exactly the current contents
			seen := map[int]int64{}
			dup := false
			m.Range(func(k2 int, v2 int64) bool {
				if _, d := seen[k2]; d {
					dup = true
				}
				seen[k2] = v2
				return true
			})
			if dup || len(seen) != len(model) {
				sig, msg = "Range:nested-Range", fmt.Sprintf("a Range started inside a Range callback visited %v, the map holds %v", seen, model)
			}
			for k2, v2 := range seen {
				if mv, ok := model[k2]; !ok || mv != v2 {
					sig, msg = "Range:nested-Range", fmt.Sprintf("a Range started inside a Range callback visited (k%d,%d), the map holds %v", k2, v2, model)
				}
			}
			c.Count("seq_nested_range_in_range", 1)
		case 2: // nested call of any kind
			o := g.next()
			for o.Op == opRange {
				o = g.next()
			}
			doMapOp(m, &o)
			wv, wok := applyModel(model, o)
			if (o.Op == opLoad || o.Op == opLoadOrStore || o.Op == opLoadAndDelete) && (o.Ok != wok || o.Val != wv) {
				sig, msg = "Range:nested-"+opNames[o.Op], fmt.Sprintf("inside a Range callback %s(k%d) returned (%d,%v), a map[K]V returns (%d,%v)", opNames[o.Op], o.Key, o.Val, o.Ok, wv, wok)
			}
			if o.Op != opLoad {
				touched[o.Key] = true
				if cv, ok := model[o.Key]; ok {
					held[o.Key] = append(held[o.Key], cv)
				}
			}
			nested = append(nested, o.String())
			c.Count("seq_nested_calls_in_range", 1)
		}
		return sig == ""
	})
	if sig != "" {
		msg += fmt.Sprintf(" (nested calls so far: %v)", nested)
		return
	}
	seen := map[int]bool{}
	for _, e := range out.Visited {
		if seen[e.K] {
			return "Range:key-twice", fmt.Sprintf("Range (with nested calls %v) visited key %d twice: %v", nested, e.K, out.Visited), out
		}
		seen[e.K] = true
		ok := false
		if sv, has := start[e.K]; has && sv == e.V {
			ok = true
		}
		for _, hv := range held[e.K] {
			if hv == e.V {
				ok = true
			}
		}
		if !ok {
			return "Range:wrong-pair", fmt.Sprintf("Range (with nested calls %v) visited (k%d,%d), a value the key never held during the call (start %v)", nested, e.K, e.V, start), out
		}
	}
	for k := range start {
		if !touched[k] && !seen[k] {
			return "Range:missed-key", fmt.Sprintf("Range (with nested calls %v) did not visit key %d, which was present and untouched for the whole call; visited %v", nested, k, out.Visited), out
		}
	}
	return "", "", out
}

// c04seqBig: thousands of keys in one map, in scripted phases (fill, read everything,
// delete everything key by key, reuse) interleaved with random calls: sizes where a
// re-implemented promotion, pruning or shrinking policy changes its behaviour.
func c04seqBig(c *core.Ctx) {
	r := c.R
	hooksOff()
	var im sync2.Map[int, int64]
	var m kvMap = &im
	model := map[int]int64{}
	nk := r.Range(1100, 3000)
	var calls int
	var last []rec
	step := func(o rec) bool {
		sig, msg := seqStep(m, model, &o)
		calls++
		if o.Op == opRange {
			o.Visited = nil
		}
		last = append(last, o)
		if len(last) > 60 {
			last = last[len(last)-60:]
		}
		if sig != "" {
			c.Violate("seq:"+sig+"[big]", msg+fmt.Sprintf(" [sequential, %d keys, call %d]", nk, calls), map[string]any{"last_calls": histStrings(last, 60)})
			return false
		}
		return true
	}
	val := int64(0)
	phases := []string{}
	for ph := 0; ph < 6; ph++ {
		kind := r.Intn(6)
		if ph == 0 {
			kind = 0
		}
		switch kind {
		case 0: // fill (Store or LoadOrStore), all keys or a random half
			phases = append(phases, "fill")
			for k := 0; k < nk; k++ {
				if ph > 0 && r.Bool() {
					continue
				}
				val++
				op := opStore
				if r.Bool() {
					op = opLoadOrStore
				}
				if !step(rec{Op: op, Key: k, Arg: val}) {
					return
				}
			}
		case 1: // read everything (hits and misses), with a Range in between
			phases = append(phases, "read-all")
			for k := -5; k < nk+5; k++ {
				if !step(rec{Op: opLoad, Key: k}) {
					return
				}
				if k == nk/2 && !step(rec{Op: opRange}) {
					return
				}
			}
		case 2: // delete everything key by key
			phases = append(phases, "delete-all")
			for _, k := range r.Perm(nk) {
				op := opDelete
				if r.Bool() {
					op = opLoadAndDelete
				}
				if !step(rec{Op: op, Key: k}) {
					return
				}
			}
			if !step(rec{Op: opRange}) {
				return
			}
		case 3: // delete all but a handful, then use those and new keys
			phases = append(phases, "shrink-to-few")
			keep := r.Range(0, 3)
			for _, k := range r.Perm(nk) {
				if len(model) <= keep {
					break
				}
				if !step(rec{Op: opLoadAndDelete, Key: k}) {
					return
				}
			}
			for i := 0; i < 12; i++ {
				val++
				if !step(rec{Op: []int{opLoad, opStore, opLoadOrStore, opDelete}[r.Intn(4)], Key: r.Intn(nk + 3), Arg: val}) {
					return
				}
			}
		case 4:
			phases = append(phases, "range")
			if !step(rec{Op: opRange}) || !step(rec{Op: opRange, Arg: int64(1 + r.Intn(5))}) {
				return
			}
		case 5: // random calls over all keys
			phases = append(phases, "random")
			g := &mapOpGen{r: r, keys: []int{0}, rangeW: 0}
			for i := 0; i < 2000; i++ {
				o := g.next()
				o.Key = r.Intn(nk + 2)
				if !step(o) {
					return
				}
			}
		}
	}
	for k := 0; k < nk; k++ {
		if v, ok := m.Load(k); ok != (func() bool { _, has := model[k]; return has })() || v != model[k] {
			c.Violate("seq:final-Load[big]", fmt.Sprintf("final Load(k%d)=(%d,%v), model (%d)", k, v, ok, model[k]), map[string]any{"phases": phases})
			return
		}
	}
	c.Count("seq_big_histories", 1)
	c.Count("seq_calls", int64(calls))
	c.Max("seq_max_keys_in_one_map", int64(nk))
	c.NonTrivial(core.Mix(c.Seed, uint64(nk), 4))
	if c.WantSample() {
		c.Sample(map[string]any{"mode": "seq/big", "keys": nk, "calls": calls, "phases": phases})
	}
}

// c04seqSweep: ALL sequences of up to 6 calls that start with call number `first` of an
// 8-call alphabet over two keys (Load/Store/LoadOrStore/delete of k0, Load/Store/delete
// of k1, Range; the deletes alternate between Delete and LoadAndDelete by position) on
// a fresh Map, each call judged against a plain map: every path of the read-map /
// dirty-map / expunged state machine that two keys and six calls can reach, exhaustively.
func c04seqSweep(c *core.Ctx, first int) {
	hooksOff()
	const nOps = 8
	seqs := 0
	val := int64(0)
	for L := 1; L <= 6; L++ {
		total := 1
		for i := 1; i < L; i++ {
			total *= nOps
		}
		for code := 0; code < total; code++ {
			var im sync2.Map[int, int64]
			var m kvMap = &im
			model := map[int]int64{}
			var hist []rec
			for x, k := code, 0; k < L; k++ {
				op := first
				if k > 0 {
					op = x % nOps
					x /= nOps
				}
				val++
				var o rec
				switch op {
				case 0:
					o = rec{Op: opLoad, Key: 0}
				case 1:
					o = rec{Op: opStore, Key: 0, Arg: val}
				case 2:
					o = rec{Op: opLoadOrStore, Key: 0, Arg: val}
				case 3:
					o = rec{Op: []int{opDelete, opLoadAndDelete}[k%2], Key: 0}
				case 4:
					o = rec{Op: opLoad, Key: 1}
				case 5:
					o = rec{Op: opStore, Key: 1, Arg: val}
				case 6:
					o = rec{Op: []int{opLoadAndDelete, opDelete}[k%2], Key: 1}
				case 7:
					o = rec{Op: opRange}
				}
				sig, msg := seqStep(m, model, &o)
				hist = append(hist, o)
				if sig != "" {
					c.Violate("seq:sweep:"+sig, msg+" [exhaustive sweep from a fresh Map]", map[string]any{"history": histStrings(hist, 10)})
					return
				}
			}
			for k := 0; k < 2; k++ {
				v, ok := m.Load(k)
				if mv, mok := model[k]; ok != mok || v != mv {
					c.Violate("seq:sweep:final-Load", fmt.Sprintf("final Load(k%d)=(%d,%v), a map[K]V holds (%d,%v) [exhaustive sweep from a fresh Map]", k, v, ok, mv, mok), map[string]any{"history": histStrings(hist, 10)})
					return
				}
			}
			seqs++
		}
	}
	c.Count("seq_exhaustive_sweep_sequences", int64(seqs))
	c.Count("exhaustive_sweeps_completed", 1)
	c.NonTrivial(core.Mix(4, uint64(first), 0x5eeb))
	if c.WantSample() {
		c.Sample(map[string]any{"mode": "seq/sweep", "first_call": first, "sequences_enumerated": seqs, "what": "all call sequences of length <= 6 over 8 calls on 2 keys from a fresh Map"})
	}
}

// c04floatValues: a stored value is what Load returns - also when the new value compares
// == to the old one but is not the same value (+0.0 over -0.0 and back), on a key in
// the read map (lock-free store) and on a dirty-only key (locked store).
func c04floatValues(c *core.Ctx) bool {
	nz := math.Copysign(0, -1)
	var m sync2.Map[int, float64]
	var ms sync2.Map[int, [2]float64]
	m.Store(1, 0.0)
	ms.Store(1, [2]float64{0, 1})
	m.Range(func(int, float64) bool { return true }) // promote: key 1 now lives in the read map
	ms.Range(func(int, [2]float64) bool { return true })
	m.Store(2, nz) // dirty-only key
	for i, want := range []float64{nz, 0.0, nz} {
		m.Store(1, want)
		ms.Store(1, [2]float64{want, 1})
		m.Store(2, -want)
		v1, _ := m.Load(1)
		v2, _ := m.Load(2)
		a1, _ := ms.Load(1)
		if math.Signbit(v1) != math.Signbit(want) || math.Signbit(v2) != math.Signbit(-want) || math.Signbit(a1[0]) != math.Signbit(want) {
			c.Violate("seq:Store:signed-zero-lost", fmt.Sprintf("round %d: Store of %v over its other zero: Load gives %v (read-map key), %v (dirty-only key, wanted %v), %v (array value)", i+1, want, v1, v2, -want, a1), nil)
			return false
		}
		if old, loaded := m.LoadOrStore(1, 5); !loaded || math.Signbit(old) != math.Signbit(want) {
			c.Violate("seq:LoadOrStore:signed-zero-lost", fmt.Sprintf("LoadOrStore on a key holding %v returned (%v,%v)", want, old, loaded), nil)
			return false
		}
	}
	// NaN keys: like in a map[float64]V every Store(NaN) makes a new entry that no Load
	// finds and that Range visits
	var mk sync2.Map[float64, int]
	mk.Store(math.NaN(), 1)
	mk.Store(1.5, 2)
	mk.Range(func(float64, int) bool { return true })
	mk.Store(math.NaN(), 3)
	nans, others := 0, 0
	mk.Range(func(k float64, v int) bool {
		if k != k {
			nans++
		} else {
			others++
		}
		return true
	})
	if _, ok := mk.Load(math.NaN()); ok || nans != 2 || others != 1 {
		c.Violate("seq:NaN-keys", fmt.Sprintf("a Map[float64,int] after Store(NaN), Store(1.5), Range, Store(NaN): Load(NaN) found=%v, Range visits %d NaN entries and %d others; a map[float64]int has 2 NaN entries, finds none of them, and ranges over all 3", ok, nans, others), nil)
		return false
	}
	c.Count("seq_float_value_checks", 1)
	return true
}

// c04anyKeys: a Map with an interface key type against a map[any]int. The nil interface and
// values of different dynamic types are keys like any other; an unhashable key makes the call
// panic (a map does too) and leaves the Map as usable as the map is - in every layout.
// The scenario runs on its own goroutine: a later call that parks for good is a verdict.
func c04anyKeys(c *core.Ctx) bool {
	r := c.R
	var bad [2]string
	var step atomic.Value
	step.Store("")
	var wg sync.WaitGroup
	wg.Add(1)
	go func() {
		defer wg.Done()
		keys := []any{nil, 1, "1", int64(1), [2]int{1, 2}, 1.5, (*int)(nil), struct{}{}, true, 'x'}
		unhashable := []any{[]int{1}, map[int]int{}, [1]any{[]int{2}}, struct{ f any }{func() {}}}
		for layoutKind := 0; layoutKind < 4 && bad[0] == ""; layoutKind++ {
			var m sync2.Map[any, int]
			model := map[any]int{}
			fail := func(sig, msg string) {
				bad = [2]string{sig, msg + fmt.Sprintf(" [Map[any,int], layout kind %d]", layoutKind)}
			}
			store := func(k any, v int) { step.Store(fmt.Sprintf("Store(%#v)", k)); m.Store(k, v); model[k] = v }
			// layouts: 0 fresh, 1 dirty-only entries, 2 all promoted, 3 promoted + dirty-only + deleted
			if layoutKind >= 1 {
				for i, k := range keys[:6] {
					store(k, i)
				}
			}
			if layoutKind >= 2 {
				m.Range(func(any, int) bool { return true })
			}
			if layoutKind == 3 {
				store(keys[6], 60)
				m.Delete(keys[1])
				delete(model, keys[1])
			}
			for i := 0; i < 60 && bad[0] == ""; i++ {
				k := keys[r.Intn(len(keys))]
				switch r.Intn(8) {
				case 0: // an unhashable key: panics like the map, and changes nothing
					u := unhashable[r.Intn(len(unhashable))]
					op := r.Intn(5)
					step.Store(fmt.Sprintf("call %d with unhashable key %T", op, u))
					p, _ := core.Catch(func() {
						switch op {
						case 0:
							m.Store(u, 1)
						case 1:
							m.Load(u)
						case 2:
							m.LoadOrStore(u, 1)
						case 3:
							m.LoadAndDelete(u)
						case 4:
							m.Delete(u)
						}
					})
					if !p {
						fail("seq:unhashable-key-accepted", fmt.Sprintf("a call (kind %d) with a key of unhashable dynamic type %T did not panic; a map[any]int panics", op, u))
					}
					c.Count("seq_any_unhashable_key_calls", 1)
				case 1, 2:
					store(k, 100+i)
				case 3:
					step.Store(fmt.Sprintf("LoadOrStore(%#v)", k))
					v, loaded := m.LoadOrStore(k, 200+i)
					mv, mok := model[k]
					if !mok {
						model[k] = 200 + i
						mv = 200 + i
					}
					if loaded != mok || v != mv {
						fail("seq:LoadOrStore", fmt.Sprintf("LoadOrStore(%#v)=(%d,%v), the map has (%d,%v)", k, v, loaded, mv, mok))
					}
				case 4:
					step.Store(fmt.Sprintf("LoadAndDelete(%#v)", k))
					v, loaded := m.LoadAndDelete(k)
					mv, mok := model[k]
					delete(model, k)
					if loaded != mok || v != mv {
						fail("seq:LoadAndDelete", fmt.Sprintf("LoadAndDelete(%#v)=(%d,%v), the map has (%d,%v)", k, v, loaded, mv, mok))
					}
				case 5: // a Range stopped early (possibly on an amended Map), then calls that need the mutex
					step.Store("Range stopped at the first pair")
					m.Range(func(any, int) bool { return false })
					nk := fmt.Sprint("new", i)
					store(nk, i)
					step.Store("Delete after early-stopped Range")
					m.Delete(nk)
					delete(model, nk)
				case 6:
					step.Store("Range")
					seen := map[any]int{}
					m.Range(func(k any, v int) bool { seen[k] = v; return true })
					if !reflect.DeepEqual(seen, model) {
						fail("seq:Range", fmt.Sprintf("Range visits %v, the map holds %v", seen, model))
					}
				case 7:
					step.Store(fmt.Sprintf("Delete(%#v)", k))
					m.Delete(k)
					delete(model, k)
				}
				for _, k := range keys {
					step.Store(fmt.Sprintf("Load(%#v)", k))
					v, ok := m.Load(k)
					if mv, mok := model[k]; ok != mok || v != mv {
						fail("seq:Load", fmt.Sprintf("Load(%#v)=(%d,%v), the map has (%d,%v)", k, v, ok, mv, mok))
						break
					}
				}
				c.Count("seq_any_key_calls", 1)
			}
		}
	}()
	if st, where := core.WaitOrDeadlock(&wg, 5*time.Second, 100*time.Second); st != "done" {
		if st == "deadlock" {
			c.Violate("seq:call-never-returns", fmt.Sprintf("Map[any,int], one goroutine: %s never returns, the goroutine is parked for good (%s); a map[any]int with a mutex would have answered", step.Load(), where), nil)
		} else {
			c.Inconclusive("the interface-key scenario did not finish within the watchdog (no deadlock proven)")
		}
		return false
	}
	if bad[0] != "" {
		c.Violate(bad[0], bad[1], nil)
		return false
	}
	c.Count("seq_any_key_scenarios", 1)
	return true
}

// c04counted: every reader (Load, Range), then exactly 256 / 65536 writes with no read in
// between (stores to a read-map key, or store+delete pairs of a dirty-only key), one more
// write, and every reader again.
func c04counted(c *core.Ctx) bool {
	for _, m := range []int{256, 65536} {
		for variant := 0; variant < 2; variant++ {
			var im sync2.Map[int, int64]
			model := map[int]int64{}
			step := func(o rec) bool {
				if sig, msg := seqStep(&im, model, &o); sig != "" {
					c.Violate("seq:counted:"+sig, fmt.Sprintf("%s [after exactly %d writes without a read; variant %d]", msg, m, variant), nil)
					return false
				}
				return true
			}
			if !step(rec{Op: opStore, Key: 0, Arg: 1}) || !step(rec{Op: opStore, Key: 1, Arg: 2}) || !step(rec{Op: opRange}) || !step(rec{Op: opLoad, Key: 0}) {
				return false
			}
			if variant == 1 && !step(rec{Op: opStore, Key: 2, Arg: 3}) { // key 2 is dirty-only, the map amended
				return false
			}
			for i := 0; i < m; i++ {
				var o rec
				switch {
				case variant == 0:
					o = rec{Op: opStore, Key: 0, Arg: int64(100 + i)}
				case i%2 == 0:
					o = rec{Op: opDelete, Key: 2}
				default:
					o = rec{Op: opStore, Key: 2, Arg: int64(100 + i)}
				}
				im2 := o
				doMapOp(&im, &im2)
				applyModel(model, o)
			}
			if !step(rec{Op: opStore, Key: 1, Arg: 77}) || !step(rec{Op: opRange}) || !step(rec{Op: opLoad, Key: 0}) || !step(rec{Op: opLoad, Key: 1}) || !step(rec{Op: opLoad, Key: 2}) || !step(rec{Op: opRange}) {
				return false
			}
		}
	}
	c.Count("seq_counted_write_storms", 1)
	return true
}

func c04seq(c *core.Ctx) {
	r := c.R
	hooksOff()
	if c.Index == 8 && !c04floatValues(c) {
		return
	}
	if c.Index == 9 && !c04counted(c) {
		return
	}
	if c.Index%200 == 10 && c.Mode != "par" && !c04anyKeys(c) {
		return
	}
	if c.Index < 8 {
		c04seqSweep(c, int(c.Index))
		return
	}
	if c.Index%40 == 17 {
		c04seqBig(c)
		return
	}
	var im sync2.Map[int, int64]
	torn := false
	tm := &typedMap{torn: &torn}
	var m kvMap = &im
	layout := func() string { return layoutOfMap(&im) }
	if c.Index%6 == 5 {
		m = tm
		layout = func() string { return layoutOfMap(&tm.m) }
		c.Count("seq_histories_string_keys_struct_values", 1)
	}
	model := map[int]int64{}
	nk := r.Range(1, 6)
	n := r.Range(1, 300)
	if c.Index%5 == 3 {
		nk, n = r.Range(7, 40), r.Range(100, 800) // bigger maps: promotion thresholds grow with the dirty map
	}
	keys := make([]int, nk)
	for i := range keys {
		keys[i] = i
	}
	g := &mapOpGen{r: r, client: 0, keys: keys, rangeW: 6}
	var hist []rec
	prev := layout()
	for i := 0; i < n; i++ {
		if r.Chance(1, 25) {
			// a Range whose callback calls the map itself ("f may call any method on m")
			sig, msg, o := nestedRange(c, m, model, g)
			hist = append(hist, o)
			c.Count("seq_calls", 1)
			c.Count("seq_Range_with_nested_calls", 1)
			if sig != "" {
				c.Violate("seq:"+sig, msg+fmt.Sprintf(" [sequential, call %d]", i), map[string]any{"history": histStrings(hist, 400)})
				return
			}
			continue
		}
		o := g.next()
		// bias towards misses on absent keys (they drive promotion)
		if o.Op == opLoad && r.Chance(1, 3) {
			o.Key = nk + r.Intn(2)
		}
		sig, msg := seqStep(m, model, &o)
		if torn {
			sig, msg = "torn-value", "a two-word value came back with halves that do not belong together"
		}
		hist = append(hist, o)
		c.Count("seq_calls", 1)
		c.Count("seq_"+opNames[o.Op], 1)
		if sig != "" {
			c.Violate("seq:"+sig, msg+fmt.Sprintf(" [sequential, call %d]", i), map[string]any{"history": histStrings(hist, 400)})
			return
		}
		cur := layout()
		if cur != "" {
			c.Distinct("layout_states", core.HashString(cur))
			c.Distinct("layout_transitions", core.HashString(prev+"|"+opNames[o.Op]+"|"+cur))
			prev = cur
		}
	}
	// final full read
	for _, k := range append(keys, nk, nk+1) {
		v, ok := m.Load(k)
		mv, mok := model[k]
		if ok != mok || v != mv {
			c.Violate("seq:final-Load", fmt.Sprintf("final Load(k%d)=(%d,%v), model (%d,%v)", k, v, ok, mv, mok), map[string]any{"history": histStrings(hist, 400)})
			return
		}
	}
	if n >= 5 {
		c.NonTrivial(histHash(hist))
	}
	if c.WantSample() {
		c.Sample(map[string]any{"mode": "seq", "keys": nk, "calls": n, "history_prefix": histStrings(hist, 25)})
	}
}

// prefix applies 0..12 sequential calls so that the concurrent part starts from
// every layout of the read/dirty/expunged machine.
func c04prefix(r *core.Rand, m kvMap, keys []int, max int) (map[int]int64, []rec, string) {
	model := map[int]int64{}
	g := &mapOpGen{r: r, client: 0, keys: keys, rangeW: 3}
	n := r.Intn(max + 1)
	var hist []rec
	// Half of the prefixes start with a directed recipe that reaches a specific
	// layout of the read/dirty/expunged machine (then random calls follow).
	if r.Bool() {
		nu := len(keys) + 2
		K := func(i int) int { return i % nu }
		val := int64(1 << 20)
		st := func(k int) rec { val++; return rec{Op: opStore, Key: K(k), Arg: val} }
		rng := rec{Op: opRange}
		del := func(k int) rec { return rec{Op: opDelete, Key: K(k)} }
		ld := func(k int) rec { return rec{Op: opLoad, Key: K(k)} }
		los := func(k int) rec { val++; return rec{Op: opLoadOrStore, Key: K(k), Arg: val} }
		lad := func(k int) rec { return rec{Op: opLoadAndDelete, Key: K(k)} }
		expunged := []rec{st(0), st(1), rng, del(0), st(2)} // k0 expunged in read, dirty={k1,k2}, amended
		recipes := [][]rec{
			expunged,
			{st(0), rng, del(0)},  // nil entry, no dirty map
			{st(0), rng, st(1)},   // amended: k1 only in dirty
			{st(0), st(1), ld(5)}, // one miss short of promotion
			{st(0), ld(0)},        // promoted by a miss
			append(append([]rec{}, expunged...), st(0)), // store to an expunged entry (unexpunge)
			append(append([]rec{}, expunged...), los(0)),
			append(append([]rec{}, expunged...), lad(0), ld(0)),
			{st(0), rng, st(1), del(1)},                     // delete of a dirty-only key
			{st(0), st(1), rng, del(0), del(1), st(2), rng}, // expunged entries dropped by the next promotion
			{st(0), rng, del(0), los(0)},                    // LoadOrStore into a nil entry (lock-free CAS path)
		}
		for _, o := range recipes[r.Intn(len(recipes))] {
			o := o
			if sig, msg := seqStep(m, model, &o); sig != "" {
				return model, hist, "prefix:" + sig + " " + msg
			}
			hist = append(hist, o)
		}
		n = r.Intn(4)
	}
	for i := 0; i < n; i++ {
		o := g.next()
		if o.Op == opLoad && r.Chance(1, 2) {
			o.Key = len(keys) + r.Intn(2) // miss on an absent key
		}
		if sig, msg := seqStep(m, model, &o); sig != "" {
			return model, hist, "prefix:" + sig + " " + msg
		}
		hist = append(hist, o)
	}
	return model, hist, ""
}

func judgeMapHistory(c *core.Ctx, mode string, h []rec, universe []int, init map[int]int64, extra map[string]any) bool {
	byKey, dup, nv, nm := mapHistoryOps(h, universe)
	if dup != "" {
		extra["history"] = histStrings(h, 600)
		c.Violate(mode+":Range:key-twice", dup, extra)
		return false
	}
	c.Count(mode+"_range_visit_observations", int64(nv))
	c.Count(mode+"_range_untouched_miss_observations", int64(nm))
	res := checkPerKey(mapStep, func(k int) any {
		if v, ok := init[k]; ok {
			return v
		}
		return absent
	}, byKey, 20*time.Second)
	c.Count(mode+"_histories_checked", 1)
	c.Count(mode+"_key_subhistories_checked", int64(res.checked))
	c.Count(mode+"_operations_checked", int64(res.ops))
	if res.illegal {
		extra["history"] = histStrings(h, 600)
		extra["illegal_key"] = res.illegalKey
		extra["key_subhistory"] = res.witness
		extra["initial_state"] = fmt.Sprint(init)
		kinds := map[string]bool{}
		for _, o := range h {
			if o.Key == res.illegalKey || o.Op == opRange {
				kinds[opNames[o.Op]] = true
			}
		}
		c.Violate(mode+":not-linearizable", fmt.Sprintf("the sub-history of key %d is not linearizable to a map (ops involved: %v); initial state %v", res.illegalKey, keysOf(kinds), init), extra)
		return false
	}
	if res.unknown {
		c.Count(mode+"_histories_unknown", 1)
		c.Inconclusive("porcupine timed out on a key sub-history")
	}
	return true
}

func keysOf(m map[string]bool) []string {
	var out []string
	for _, k := range []string{"Load", "Store", "LoadOrStore", "LoadAndDelete", "Delete", "Range", "Add", "Remove", "Has"} {
		if m[k] {
			out = append(out, k)
		}
	}
	return out
}

func c04tierb(c *core.Ctx) {
	if !hooksAvailable {
		c.Inconclusive("tier B needs the verif hooks")
		return
	}
	r := c.R
	hooksOff()
	var m sync2.Map[int, int64]
	nk := r.Range(1, 3)
	keys := make([]int, nk)
	for i := range keys {
		keys[i] = i
	}
	model, pre, perr := c04prefix(r, &m, keys, 12)
	if perr != "" {
		c.Violate("tierb:"+perr, perr, map[string]any{"prefix": histStrings(pre, 50)})
		return
	}
	startLayout := layoutOfMap(&m)
	nw := r.Range(2, 4)
	strat := r.Intn(3)
	s := sched.New(r.Fork(), strat)
	hooksTierB(s)
	defer hooksOff()
	var clk clock
	logs := make([][]rec, nw)
	progs := make([]func(int), nw)
	for w := 0; w < nw; w++ {
		g := &mapOpGen{r: r.Fork(), client: w + 1, keys: keys, rangeW: 4}
		nops := g.r.Range(1, 6)
		ops := make([]rec, nops)
		for i := range ops {
			ops[i] = g.next()
		}
		w := w
		progs[w] = func(int) {
			for i := range ops {
				o := ops[i]
				o.Call = clk.now()
				doMapOp(&m, &o)
				o.Ret = clk.now()
				if o.Op == opRange {
					o.Visited = append([]kv(nil), o.Visited...)
				}
				logs[w] = append(logs[w], o)
			}
		}
	}
	s.Run(progs)
	hooksOff()
	c.Count("tierb_schedules", 1)
	c.Count("tierb_steps", int64(s.Steps))
	c.Count("tierb_worker_switches", int64(s.Switches))
	c.Distinct("tierb_distinct_schedules", s.Trace)
	for p := range s.SwitchPairs {
		c.Distinct("tierb_switch_site_pairs", uint64(p))
	}
	if startLayout != "" {
		c.Distinct("tierb_start_layouts", core.HashString(startLayout))
	}
	var h []rec
	for _, l := range logs {
		h = append(h, l...)
	}
	extra := map[string]any{"prefix": histStrings(pre, 50), "strategy": []string{"uniform", "sticky", "pct"}[strat], "workers": nw, "schedule_hash": s.Trace}
	if s.Panic != nil {
		extra["history"] = histStrings(h, 200)
		c.Violate("tierb:panic", fmt.Sprintf("a map operation panicked under the serialized schedule: %v", s.Panic), extra)
		return
	}
	if s.Deadlock {
		extra["history"] = histStrings(h, 200)
		extra["blocked_at"] = fmt.Sprint(s.BlockedAt)
		c.Violate("tierb:deadlock", fmt.Sprintf("all unfinished workers are blocked on the map's mutex (sites %v)", s.BlockedAt), extra)
		return
	}
	if s.Overrun {
		c.Inconclusive("schedule exceeded the step bound")
		return
	}
	universe := append(append([]int{}, keys...), nk, nk+1)
	if !judgeMapHistory(c, "tierb", h, universe, model, extra) {
		return
	}
	if s.Switches >= 1 {
		c.NonTrivial(s.Trace)
	}
	if c.WantSample() {
		c.Sample(map[string]any{"mode": "tierb", "prefix": histStrings(pre, 12), "workers": nw, "steps": s.Steps, "switches": s.Switches, "history": histStrings(h, 30)})
	}
}

// tierAParams draws the free-running shape of a round.
func tierAHooks(r *core.Rand) string {
	switch r.Intn(4) {
	case 0:
		hooksTierA(-1, -1)
		return "no-yield"
	case 1:
		hooksTierA(4, -1)
		return "yield-1/16"
	case 2:
		hooksTierA(2, -1)
		return "yield-1/4"
	}
	hooksTierA(3, 9)
	return "yield-1/8+sleep-1/512"
}

func c04lin(c *core.Ctx) {
	r := c.R
	var m sync2.Map[int, int64]
	nk := r.Range(1, 4)
	keys := make([]int, nk)
	for i := range keys {
		keys[i] = i
	}
	hooksOff()
	model, pre, perr := c04prefix(r, &m, keys, 12)
	if perr != "" {
		c.Violate("lin:"+perr, perr, map[string]any{"prefix": histStrings(pre, 50)})
		return
	}
	var ng, nops int
	if r.Chance(3, 4) {
		ng, nops = r.Range(2, 8), r.Range(20, 120)
	} else {
		ng, nops = r.Range(9, 16), r.Range(5, 30)
	}
	if c.Build != "plain" {
		// the checker itself runs 5-10x slower under the sanitizers
		ng, nops = r.Range(2, 6), r.Range(10, 60)
	}
	policy := tierAHooks(r)
	defer hooksOff()
	clk := &clock{atomic: true}
	logs := make([][]rec, ng)
	var wg sync.WaitGroup
	start := make(chan struct{})
	for w := 0; w < ng; w++ {
		g := &mapOpGen{r: r.Fork(), client: w + 1, keys: keys, rangeW: 3}
		ops := make([]rec, nops)
		for i := range ops {
			ops[i] = g.next()
		}
		w := w
		wg.Add(1)
		go func() {
			defer wg.Done()
			<-start
			log := make([]rec, 0, len(ops))
			for i := range ops {
				o := ops[i]
				o.Call = clk.now()
				doMapOp(&m, &o)
				o.Ret = clk.now()
				if o.Op == opRange {
					o.Visited = append([]kv(nil), o.Visited...)
				}
				log = append(log, o)
			}
			logs[w] = log
		}()
	}
	close(start)
	if !joinOrDeadlock(c, &wg, "lin", "a round of concurrent map calls", map[string]any{"goroutines": ng, "ops_each": nops, "hook_policy": policy}) {
		return
	}
	hooksOff()
	var h []rec
	for _, l := range logs {
		h = append(h, l...)
	}
	c.Count("lin_rounds", 1)
	c.Count("lin_policy_"+policy, 1)
	c.Count("lin_goroutines", int64(ng))
	// overlap evidence: number of pairs of calls by different clients whose intervals intersect
	c.Count("lin_overlapping_call_pairs", int64(countOverlaps(h)))
	extra := map[string]any{"prefix": histStrings(pre, 50), "goroutines": ng, "ops_each": nops, "hook_policy": policy, "gomaxprocs": runtime.GOMAXPROCS(0)}
	universe := append(append([]int{}, keys...), nk, nk+1)
	if !judgeMapHistory(c, "lin", h, universe, model, extra) {
		return
	}
	// after quiescence the map must equal SOME linearization's final state: check the
	// cheap necessary condition that every key's final value was written by a recorded call
	if countOverlaps(h) > 0 {
		c.NonTrivial(histHash(h))
	}
	if c.WantSample() {
		c.Sample(map[string]any{"mode": "lin", "goroutines": ng, "ops_each": nops, "keys": nk, "hook_policy": policy, "history_prefix": histStrings(h, 20)})
	}
}

func countOverlaps(h []rec) int {
	n := 0
	lim := len(h)
	if lim > 400 {
		lim = 400
	}
	for i := 0; i < lim; i++ {
		for j := i + 1; j < lim; j++ {
			if h[i].Client != h[j].Client && h[i].Call <= h[j].Ret && h[j].Call <= h[i].Ret {
				n++
			}
		}
	}
	return n
}

// c04race: no recorder, no shared harness state between start and join; the
// race detector (+checkptr), or ASan, is the oracle. Light sanity on results.
func c04race(c *core.Ctx) {
	r := c.R
	var m sync2.Map[int, int64]
	nk := r.Range(1, 4)
	keys := make([]int, nk)
	for i := range keys {
		keys[i] = i
	}
	hooksOff()
	_, _, perr := c04prefix(r, &m, keys, 12)
	if perr != "" {
		c.Violate("race:"+perr, perr, nil)
		return
	}
	ng := r.Range(2, 16)
	if r.Chance(1, 6) {
		ng = r.Range(17, 64)
	}
	nops := r.Range(10, 150)
	policy := tierAHooks(r)
	defer hooksOff()
	var wg sync.WaitGroup
	start := make(chan struct{})
	bad := make([]string, ng)
	for w := 0; w < ng; w++ {
		g := &mapOpGen{r: r.Fork(), client: w + 1, keys: keys, rangeW: 3}
		ops := make([]rec, nops)
		for i := range ops {
			ops[i] = g.next()
		}
		w := w
		wg.Add(1)
		go func() {
			defer wg.Done()
			<-start
			for i := range ops {
				o := &ops[i]
				doMapOp(&m, o)
				// values are either absent or something some client wrote
				if (o.Op == opLoad || o.Op == opLoadAndDelete) && o.Ok && o.Val <= 0 {
					bad[w] = fmt.Sprintf("%s returned a value nobody stored: %d", opNames[o.Op], o.Val)
				}
			}
		}()
	}
	// in a third of the rounds one more goroutine uses a SECOND map that is entirely its
	// own, sequentially, against a plain-map model: two Map values must not share anything
	privateBad := ""
	if r.Chance(1, 3) {
		pr := r.Fork()
		wg.Add(1)
		go func() {
			defer wg.Done()
			var pm sync2.Map[int, int64]
			model := map[int]int64{}
			g := &mapOpGen{r: pr, client: 99, keys: []int{0, 1, 2}, rangeW: 2}
			<-start
			for i := 0; i < 4*nops && privateBad == ""; i++ {
				o := g.next()
				if sig, msg := seqStep(&pm, model, &o); sig != "" {
					privateBad = sig + ": " + msg
				}
			}
		}()
		c.Count("race_rounds_with_a_private_second_map", 1)
	}
	close(start)
	if !joinOrDeadlock(c, &wg, "race", "a round of concurrent map calls", map[string]any{"goroutines": ng, "ops_each": nops, "hook_policy": policy}) {
		return
	}
	hooksOff()
	if privateBad != "" {
		c.Violate("race:private-second-map", "a second Map used by one goroutine only, next to the shared one, misbehaved: "+privateBad, nil)
		return
	}
	c.Count("race_rounds", 1)
	c.Count("race_policy_"+policy, 1)
	c.Count("race_goroutines", int64(ng))
	c.Count("race_calls", int64(ng*nops))
	for _, b := range bad {
		if b != "" {
			c.Violate("race:invented-value", b, nil)
			return
		}
	}
	c.NonTrivial(core.Mix(c.Seed, uint64(ng), uint64(nops)))
	if c.WantSample() {
		c.Sample(map[string]any{"mode": "race", "goroutines": ng, "ops_each": nops, "keys": nk, "hook_policy": policy})
	}
}
