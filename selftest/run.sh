#!/bin/bash
# selftest/run.sh <prop> <mutant.sh> [tier]: apply a self-made mutant to /repo, run the check, undo.
cd /verif
[ -n "$(git -C /repo status --porcelain)" ] && { echo "/repo not clean"; exit 2; }
bash selftest/$2 || { git -C /repo checkout -- .; exit 2; }
(cd /repo && GOFLAGS=-mod=mod GOPROXY=off go build ./... ) || { echo "mutant does not build"; git -C /repo checkout -- .; exit 2; }
./check $1 ${3:-quick} > /tmp/selftest.out 2>&1; rc=$?
git -C /repo checkout -- .
echo "SELFTEST $2 on $1: exit=$rc"; grep -E '^(VIOLATION|  sig=)' /tmp/selftest.out | cut -c1-220 | head -8
