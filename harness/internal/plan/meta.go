package plan

// Meta is the descriptive part of the evidence of one property.
type Meta struct {
	Rule           string
	Assumptions    []string
	ExhaustivePart string
}

var metas = map[string]Meta{}

// MetaOf returns the evidence texts of a property.
func MetaOf(prop string) Meta {
	m, ok := metas[prop]
	if !ok {
		return Meta{Rule: "cases are generated from splitmix64(VERIF_SEED, property, mode, index); see DESIGN.md", Assumptions: commonAssumptions}
	}
	return m
}

var commonAssumptions = []string{
	"the Go toolchain, runtime, race detector and standard library are trusted",
	"a passing run means: held on the executions this run produced; nothing is proven",
}

func meta(prop, rule string, extra ...string) {
	metas[prop] = Meta{Rule: rule, Assumptions: append(append([]string{}, commonAssumptions...), extra...)}
}

func init() {
	meta("C01", "case i = one PRNG-generated history (seed splitmix64(VERIF_SEED,property,mode,i)) of 1..150 calls (thorough: up to 1500) over up to 3 live trees of one of 6 element-type/comparator families; a case is NON-TRIVIAL if its history contains a Remove of an absent value from a non-empty tree, an Add of a value already present, or a Clone of a tree with >= 2 values; distinctness = hash of the full call sequence",
		"element types sampled: int (dense 0..7, sparse 64-bit, NewOrdered), string, struct{int16,int16}, int with descending comparator",
		"comparators are total orders consistent with ==")
	meta("C02", "case i = one PRNG-chosen workload family (ascending, descending, zig-zag, random, Fibonacci-shape then deletions, delete-root, delete-min, delete-max, interleaved) of distinct ints, up to 40/255/1023 (thorough: 20000) elements, followed by a random drain; the shape is checked after every mutation; NON-TRIVIAL = at least 3 mutations; distinctness = hash of (family, size, mutation sequence)",
		"shape reconstruction from pre+in order is exact for distinct values only")
	meta("C07", "case i = one PRNG-generated history: NewSorted over a random input (nil/empty/1..40 values, duplicates, spare capacity) in one of 5 strict-order families or the weak-order family, then 1..100 calls of Add/Remove(present)/Remove(absent)/RemoveAt/out-of-range Get|RemoveAt/Index/Contains/Len; NON-TRIVIAL = the history contains an Add of a value already present or a Remove of an absent value (strict regime), or >= 2 calls (weak regime); distinctness = hash of input and call sequence",
		"strict regime: less is a strict total order consistent with ==; weak regime: only sortedness and the exact multiset are judged")
	meta("C08", "case i < 49 = shape (i mod 7) x (i div 7) (all widths/heights 0..6, every run); case i >= 49 = random shape (flat up to 70x5, tall up to 5x70, 0..12 squared-ish, 7..24); per shape a fixed script: Set every cell in random order, all out-of-bounds coordinates, Row/RowSpan liveness, Fill rectangles in all corner orders, Clone, New2DFilled, New2DFromJagged x3, String; NON-TRIVIAL = width >= 1 and height >= 1; distinctness = hash of shape and call sequence")
	meta("C11", "case i < 625 = systematic: the first two calls are the base-25 digits of i and ALL 651 continuations of length 0..2 are enumerated (=> all histories of length <= 4 over 16 Add(k,v), 4 RemoveForward, 4 RemoveReverse, Clear); case i >= 625 = random history of 1..60 calls over up to 3 live maps with Clone; NON-TRIVIAL = systematic block, or a random history of >= 3 calls; distinctness = block index / hash of call sequence")
	meta("C12", "case i < 81 = systematic: (len, spare capacity) = (i div 9, i mod 9): every index x inserted length 0..5 x every removal length, Grow, Concat, Clone, plus the Fill/Repeat lengths congruent to i mod 81 in 0..300 and Reverse lengths in 0..65; case i >= 81 = random length 0..5000 with sampled positions; every case is NON-TRIVIAL; distinctness = case parameters")
	meta("C13", "case i < 65 = systematic: n = i with every size 1..70; case i >= 65 = random n <= 5000 with 12 sizes (small, <= n, around n, divisors+-1, > n); every case is NON-TRIVIAL; distinctness = case parameters")
	meta("C14", "case L < 7 = ALL 3^L slices over {a,A,b} of length L; case >= 7 = random slice (length <= 30 or <= 2000, alphabet size 1..10, sometimes nil); every helper listed in the property is called on every input; every case is NON-TRIVIAL; distinctness = case parameters")
	meta("C15", "case L < 8 = ALL 3^L slices over {0,1,2} of length L; case >= 8 = random slice (length <= 40 or <= 3000, universe size 1,2,3,n/4,n,2^30; sometimes pre-sorted asc/desc); every case is NON-TRIVIAL; distinctness = case parameters")
	meta("C16", "case i = one PRNG-generated history of 1..200 calls on a zero-value Queue and a zero-value Stack with phases biased to fill or to drain; NON-TRIVIAL = at least 4 calls; distinctness = hash of call sequence")
	meta("C20", "cases 0..255: int8 first argument a, ALL (b) pairs and ALL (b,c) triples; 256..511 the same for uint8; 512..527: all 65536 16-bit values in 16 slices; >= 528: boundary-dense samples (0, +-1, 10^k, 10^k+-1, extremes, random) of 32/64-bit integer, float, string, complex types and the utility helpers; thorough mode full32: case k = all 2^24 int32/uint32 values with top byte k; every case is NON-TRIVIAL; distinctness = case parameters",
		"NaN excluded; Abs(min) excluded")
	metas["C20"] = Meta{Rule: metas["C20"].Rule, Assumptions: metas["C20"].Assumptions, ExhaustivePart: "all pairs and triples of int8 and uint8; all 16-bit values (one-argument functions); thorough: all 32-bit values (one-argument functions)"}
	metas["C11"] = Meta{Rule: metas["C11"].Rule, Assumptions: metas["C11"].Assumptions, ExhaustivePart: "all histories of length <= 4 over the 25 mutating calls from the zero value"}
	metas["C12"] = Meta{Rule: metas["C12"].Rule, Assumptions: metas["C12"].Assumptions, ExhaustivePart: "len 0..8 x spare capacity 0..8 x every index x inserted length 0..5 x every removal length; Fill/Repeat lengths 0..300; Reverse lengths 0..65"}
	metas["C13"] = Meta{Rule: metas["C13"].Rule, Assumptions: metas["C13"].Assumptions, ExhaustivePart: "every (n,size) with n 0..64, size 1..70"}
	metas["C14"] = Meta{Rule: metas["C14"].Rule, Assumptions: metas["C14"].Assumptions, ExhaustivePart: "all slices over a 3-letter alphabet up to length 6"}
	metas["C15"] = Meta{Rule: metas["C15"].Rule, Assumptions: metas["C15"].Assumptions, ExhaustivePart: "all slices over {0,1,2} up to length 7"}
	metas["C08"] = Meta{Rule: metas["C08"].Rule, Assumptions: metas["C08"].Assumptions, ExhaustivePart: "all shapes 0..6 x 0..6; per shape every Fill rectangle (all four corners in every order) and every RowSpan with x1 <= x2; the rest of the per-shape script samples"}
	meta("C03", "case i = one PRNG-generated scenario: element type (int/string/struct), universe size 1..8, implementation pairing (maps|sync2 x maps|sync2), two construction histories of 0..40 calls each (constructors with duplicates, Add, Remove, Has, Len/Slice, Clone-and-swap), then the four binary operations in both directions (10%: argument is the receiver itself), two AddSet/RemoveSet calls and CartesianProduct; NON-TRIVIAL = A and B not both empty at the end; distinctness = hash of the full call sequence")
	meta("C06", "even case = List scenario: 2..3 lists (zero value or New), 1..120 calls with element arguments from every handle ever issued (live here / live elsewhere / removed / never inserted); odd case = Ring scenario: 1..3 initial rings (NewRing(-1..7) or zero value), 1..80 calls; NON-TRIVIAL = List: a call received a non-member element or a list was pushed onto itself; Ring: at least one Link or Unlink; distinctness = hash of the call sequence")
	meta("C04", "seq: case = 1..300 sequential calls over 1..6 keys (+misses on absent keys); tierb: case = random sequential prefix of 0..12 calls, then 2..4 workers x 1..6 calls over 1..3 keys under one seeded serialized schedule (strategy uniform/sticky/PCT); lin: case = prefix, then 2..8 goroutines x 20..120 calls or 9..16 x 5..30 over 1..4 keys, free-running with a random yield policy; race: 2..64 goroutines x 10..150 calls, unrecorded; NON-TRIVIAL = seq: >= 5 calls; tierb: the schedule has >= 1 worker switch between hook sites; lin: >= 1 pair of calls by different clients overlaps in time; race: always; distinctness = schedule hash (tierb) / history hash (seq, lin) / case parameters (race)",
		"tierb explores interleavings at the granularity of the 33 hook sites in sync2/map.go under sequential consistency")
	meta("C05", "tierb: case = sequential prefix (0..12 Add/Remove/Has-miss/Len), then 2..4 workers x 1..6 set calls over 1..3 values under one seeded serialized schedule; lin: 2..8 free-running goroutines x 10..120 calls over 1..4 values; race: 2..64 goroutines unrecorded; 20% of cases include multi-element AddSet/RemoveSet (conservation only); NON-TRIVIAL = tierb: >= 1 worker switch; lin/race: always (>= 2 goroutines on a shared set); distinctness = schedule hash / case parameters")
	meta("C09", "tierb: case = KeyedMutex or KeyedRWMutex, sequential prefix touching/clearing keys, 2..4 workers x 1..4 steps (Lock/TryLock/RLock/TryRLock on 1..3 keys, 0..2 scheduling points inside the section) under one seeded serialized schedule; free: case = 3..12 rounds (barrier onto fresh keys / mixed steady state over 2..4 keys / cross-key hold-and-wait) with 2..16 goroutines; NON-TRIVIAL = tierb: >= 1 worker switch; free: always; distinctness = schedule hash / case parameters")
	meta("C10", "stable: case = one PubSub, 0..4 subscribers (buffers 0..3 / DefaultBuffer), one of six publish variants, timeout off or 0.2..2 ms, receivers prompt/delayed/stalled, 1..3 publishers x 1..8 unique events (every 8th case: WithOnly without churn); churn: 0..3 stable subscribers + 1..3 churners (Sub/SubBuf, third-party Unsub, second Unsub) + optional UnsubAll, Sync variants; churn-async: the same with Pub/PubSlice/PubWait/PubSliceWait; churn-withonly: parent Unsub while a WithOnly clone publishes; NON-TRIVIAL = stable: >= 1 subscriber and >= 1 event; churn: always; distinctness = case parameters")
	meta("C17", "case = 4..20 rounds, each a fresh Once1/2/3 with 2..32 goroutines behind a barrier + 0..3 late callers, own function per caller (0..3 Gosched, 0..30 us sleep inside); every case is NON-TRIVIAL; distinctness = case parameters")
	meta("C18", "reg: case = AtomicValue over int64 / string / struct{A,B int64}, optionally stored before start, 2..8 goroutines x 10..100 calls (Load 30%, Store 20%, Swap 20%, CAS 30% with the last value seen as old); race: 2..32 goroutines unrecorded; pool: 2..16 goroutines x 10..200 Get/Put steps, 75% with New, 33% with forced GCs; NON-TRIVIAL = reg: >= 1 pair of overlapping calls by different clients; race/pool: always; distinctness = history hash / case parameters")
	meta("C19", "queued: case i<48 = (capacity i mod 6, closed?, RecvQueuedFull?, receive-only channel type?) with every fill 0..cap and every limit 0..cap+2; timed: case = one scenario (SendTimeout|SendContext senders vs plain receiver / RecvTimeout|RecvContext receivers vs plain producer with optional close / non-positive timeout with a late peer), capacity 0..3, timeouts 50us..2ms; every case is NON-TRIVIAL; distinctness = case parameters")
	metas["C19"] = Meta{Rule: metas["C19"].Rule, Assumptions: metas["C19"].Assumptions, ExhaustivePart: "RecvQueued/RecvQueuedFull: capacity 0..5 x fill x open/closed x limit 0..cap+2 x channel direction"}
}

// Families added after the first version of a monitor (seeded-change rounds 2..6);
// appended to the rule text so that the evidence says what the cases contain now.
func init() {
	ext := map[string]string{
		"C01": "prebuilt trees up to 2600 values in extreme shapes; observation every 1..6 calls; slices returned by Slice* overwritten by the caller; nested read-only calls inside walker callbacks; big trees emptied by Remove calls and reused",
		"C02": "duplicates-only family judged existentially over all consistent shapes; quick sizes up to 5000; one sparsest-shape tree of height 26 (317 810 values) per run with insertions and deletions along paths of more than 24 nodes",
		"C03": "universes up to thousands of members; random observation order and subsets; Slice results overwritten; constructors from map[T]struct{} and nil maps with the source modified afterwards; nested read-only calls inside Range callbacks; drain by Remove and reuse",
		"C04": "seq: Range callbacks that call the map (Load, nested Range, mutating calls), and histories over 1100..3000 keys in scripted phases",
		"C06": "orphan regime after Init; Move/Unlink counts up to 700 and whole laps; Link(nil); nested calls inside Do callbacks; one list and one ring of 1100..2600 elements (every 100th case)",
		"C07": "inputs up to 3000 values, structured (sorted prefix, sorted, reversed); front-removal bursts, complete drains and reuse; streaks of 1300+ Adds; 96-byte and float64 elements; positions MaxInt/MinInt",
		"C08": "shapes up to 150x150; extreme and 2^64-wrapping coordinates; jagged inputs that are exact rectangles, overwritten after construction; the cell model over [20]int64, string, uint8 and record elements",
		"C09": "tierb: a quarter of the cases are clear-reuse schedules (concurrent ClearKey of free keys next to first uses of new keys, then sequential reuse of every cleared key)",
		"C10": "stable: 17..140 subscribers in 1 of 12 scenarios; subscribers that are not received from under Pub/PubSlice without timeout (logical starvation verdict); endings by one Unsub per subscriber with one more event published half way",
		"C11": "big histories of 200..3000 pairs with a shrink-then-evicting-Add phase; nested read-only calls inside Range callbacks",
		"C12": "a third of the random cases use other element types (0..320 bytes) with nil/empty/zero-capacity receivers and round or big Grow amounts; every 100th uses 65 536..140 000 elements",
		"C13": "sizes near MaxInt; one input of ~70 000 elements per run, re-checked under GOMAXPROCS 1/2/3/NumCPU/2+1/2*NumCPU; zero-size-element slices of 2^53+1..MaxInt elements; 160-byte elements; callbacks that call the helpers themselves",
		"C14": "alphabets up to 64 values; NaN map keys; spare capacity on inputs; extreme indices; callbacks that use the helpers themselves; float group keys with +0.0/-0.0",
		"C15": "nearly sorted inputs, McIlroy killer-adversary inputs, small ordered types, the four Func sorts over 4/16/176/336-byte and pointer elements, inputs of 8192..20001 values in block shapes (every 25th case), BinarySearchFunc over up to MaxInt zero-size elements",
		"C16": "histories up to 3000 calls and deep phases of 1000..6000 values; every 10th case repeats the model over [40]int64/struct{}/string/*int/uint8 elements; 20 cases per quick run push 700 000..1 000 000 calls through one queue and one stack; thorough: mode marathon = 2^32+2^22 values through ONE queue and ONE stack",
		"C17": "staggered arrivals and spin-barrier starts; first actions that panic or call Goexit, also while other callers are blocked inside Do; last results of type error (nil and non-nil), *int, int, string, bool; chains of 1100..2600 nested Once values",
		"C18": "reg: a quarter of the rounds over the universe {1,2,3}; CAS-only counter rounds; every 100th case = ALL call sequences of length <= 4 over an 11-call alphabet on a fresh register of each representation; pool: every 40th case = 150 000..300 000 calls on ONE pool",
		"C19": "queued: capacities 64..300 and limits up to MaxInt; timed: concurrent queued consumers, never-cancellable contexts, close while waiting, bounded join (60 s) of scenarios whose every timeout is <= 2 ms",
		"C20": "variadic lists of 0..8 and 9..40 arguments over float64/float32/int16/uint64(odd)/complex128 incl. 0, -0, +-Inf; types with IsZero methods as value, pointer and interface type arguments; typed nils",
	}
	for prop, text := range ext {
		m := MetaOf(prop)
		m.Rule += " || added later: " + text
		metas[prop] = m
	}
	for prop, text := range map[string]string{
		"C01": "all histories of <= 5 calls over {Add 0/1/2, Remove 0/1/2, Clear, Clone-and-continue, walks} from a fresh tree (66 429 histories per run)",
		"C07": "all histories of <= 5 calls over {Add 0/1/2, Remove 0/1/2, RemoveAt(0), RemoveAt(Len-1)} after NewSorted over 8 tiny inputs (299 592 histories per run)",
		"C03": "all call sequences of length <= 6 over {Add 0/1, Remove 0/1, Has 0/1, Len+Slice, Clone-and-continue} on a fresh set of each implementation (599 184 sequences per run)",
		"C04": "seq: all call sequences of length <= 6 over {Load/Store/LoadOrStore/delete k0, Load/Store/delete k1, Range} on a fresh Map (299 592 sequences per run)",
		"C06": "all sequences of <= 5 calls over a 10-call alphabet (pushes, removals, moves, inserts relative to the oldest and newest handle, live or removed) on a zero-value list, in lock-step with container/list (111 110 sequences per run)",
		"C09": "free/plain cases 0..17: all sequential call sequences of length <= 6 (KeyedMutex, 8 calls over 2 keys) / <= 5 (KeyedRWMutex, 10 calls) from a fresh value, every Try result judged",
		"C10": "stable/plain cases 0..7: all sequential call sequences of length <= 5 over {SubBuf, Unsub oldest/newest/removed, UnsubAll, PubSync, PubSliceSync, PubWait} on a fresh PubSub with buffered subscriptions (37 449 sequences per run)",
		"C16": "all call sequences of length <= 10 over {insert, remove, Peek+Len} from the zero value, for Queue and Stack",
	} {
		mm := metas[prop]
		mm.ExhaustivePart = text
		metas[prop] = mm
	}
	m := metas["C18"]
	m.ExhaustivePart = "all sequences of <= 4 calls over {Load, Store(0|1|2), Swap(0|1), CAS(0,1), CAS(1,0), CAS(1,2), CAS(2,2), CAS(0,0)} on a fresh AtomicValue of each of 3 representations (sequential)"
	metas["C18"] = m
}

// round 11
func init() {
	for prop, text := range map[string]string{
		"C01": "observers in rotating order (each of Len/SliceInOrder/SlicePreOrder/SlicePostOrder is the first to look in a quarter of the observations); a quarter of the swept histories observed only at their end",
		"C02": "the tree related by Clone that is NOT continued on is kept and re-checked (same listing, balanced) after mutations of the other one",
		"C03": "sets of 90..300 members; counted removal streaks (one new member, then exactly 63..66/127..129/255..257 successful Removes of others, no observation in between)",
		"C04": "seq: Map[any,int] against map[any]int in four layouts (nil interface and mixed dynamic key types, unhashable keys must panic and leave the Map usable, early-stopped Range followed by mutex-taking calls; a parked call is a verdict)",
		"C05": "1 free round in 12 on a set that also holds 200..3000 bystander values nobody names",
		"C07": "out-of-range positions that are in range modulo 2^8, 2^16, 2^31, 2^32, 2^62, 2^63",
		"C08": "jagged rows with sentinel-filled spare capacity; string cells that are empty or end in a space",
		"C09": "free: interface-typed keys incl. the nil interface; failed TryRLockKey followed by a never-seen key's first writer; 3 000 goroutines on one key",
		"C10": "sweep with empty batches, on its own goroutine (a parked call is a verdict); parent changes between WithOnly and the publish",
		"C11": "a different Bimap changed inside a Range callback; nested calls in observers chosen per history",
		"C12": "interface element types with nil values; Fill/Repeat with every type's zero value",
		"C13": "elements of 3, 10, 12 and 24 bytes, strings, slices, interface values; nested calls at each of the first six callbacks",
		"C14": "a garbage collection before kept results are compared",
		"C15": "Func sorts over element types without ==",
		"C16": "Queue[error]/Stack[any] with nil values; a garbage collection mid-history",
		"C17": "sub-word result types; callers created 2^24 goroutines after the invoker (one case per run); the crowd is released from inside the action",
		"C18": "exact-value checks (+0.0/-0.0, values stored twice, uncomparable struct fields); same-value rounds (only the value 1 is ever written: every CompareAndSwap(1,1) must succeed)",
		"C19": "contexts that end by a deadline already passed, by a deadline only, or were cancelled before the first call",
	} {
		m := MetaOf(prop)
		m.Rule += " || round 11: " + text
		metas[prop] = m
	}
}
