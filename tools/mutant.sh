#!/bin/bash
# tools/mutant.sh <prop> <mutant-dir> <demo-dir-in-repo> [extra go test args for the demo, e.g. -race]
# 1. confirms in a scratch worktree: tests pass with the patch; demo fails with it, passes without it
# 2. applies the patch to /repo, runs ./check <prop> quick (and thorough if VERIF_MUT_THOROUGH=1), undoes it
# Prints one summary line:  MUTANT <dir> tests=ok demo_with=FAIL demo_without=ok check=<exit> 
export GOFLAGS=-mod=mod GOPROXY=off GOSUMDB=off GOTOOLCHAIN=local
prop=$1; mdir=$2; ddir=$3; shift 3; extra="$@"
here=$(cd "$(dirname "$0")/.." && pwd)
wt=/tmp/wt/verify-$$
git -C /repo worktree add -q --detach $wt HEAD || exit 2
t=ok; dw=; dwo=
demo=$(ls $mdir/*_test.go | head -1)
mkdir -p $wt/$ddir; cp $demo $wt/$ddir/zz_demo_test.go
( cd $wt && go test -count=1 $extra ./$ddir/ >/tmp/wt/demo_without.$$ 2>&1 ) && dwo=ok || dwo=FAIL
rm $wt/$ddir/zz_demo_test.go
if ! git -C $wt apply $mdir/patch.diff; then echo "MUTANT $mdir patch-does-not-apply"; git -C /repo worktree remove --force $wt; exit 2; fi
( cd $wt && go build ./... && go test -count=1 ./... >/tmp/wt/tests.$$ 2>&1 ) && t=ok || t=FAIL
mkdir -p $wt/$ddir; cp $demo $wt/$ddir/zz_demo_test.go
( cd $wt && timeout 600 go test -count=1 $extra ./$ddir/ >/tmp/wt/demo_with.$$ 2>&1 ) && dw=ok || dw=FAIL
git -C /repo worktree remove --force $wt
rm -f /tmp/wt/demo_without.$$ /tmp/wt/tests.$$ 
# now against /repo
if [ -n "$(git -C /repo status --porcelain)" ]; then echo "/repo not clean"; exit 2; fi
git -C /repo apply $mdir/patch.diff || exit 2
tier=${VERIF_MUT_TIER:-quick}
( cd $here && ./check $prop $tier > $mdir/check_output.txt 2>&1 ); rc=$?
git -C /repo checkout -- .
nv=$(grep -c '^VIOLATION' $mdir/check_output.txt)
echo "MUTANT $mdir tests=$t demo_with=$dw demo_without=$dwo check_exit=$rc violation_lines=$nv"
grep -A2 '^VIOLATION' $mdir/check_output.txt | cut -c1-260 | head -9
rm -f /tmp/wt/demo_with.$$
