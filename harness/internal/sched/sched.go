// Package sched is the Tier-B serialized scheduler: worker goroutines run one
// at a time; at every hook site the running worker hands control back and a
// seeded PRNG picks who runs next. A schedule is a pure function of its seed.
// This is sampling, not enumeration.
package sched

import (
	"verifharness/internal/core"
)

type evKind uint8

const (
	evYield evKind = iota
	evBlocked
	evDone
	evPanic
)

type event struct {
	kind evKind
	site int
	pv   any
}

type worker struct {
	wake    chan struct{}
	done    bool
	blocked bool // last event was a failed lock probe
	probed  bool // has re-probed since the last progress
	prio    int
	site    int // site it is parked at
}

// Strategy of choosing the next worker.
const (
	Uniform = iota
	Sticky
	PCT
)

// Sched runs a set of worker programs under a serialized random schedule.
type Sched struct {
	r        *core.Rand
	ws       []*worker
	back     chan event
	cur      int
	active   bool
	strategy int
	// observations
	Trace       uint64 // hash of the (worker, site) sequence
	Steps       int
	Switches    int
	SwitchPairs map[uint32]struct{} // (site before switch) -> (site resumed), worker switch only
	Deadlock    bool
	Panic       any
	BlockedAt   map[int]int // worker -> site, filled on deadlock
	changeAt    []int
	maxSteps    int
	Overrun     bool
	// OnBlocked, if set, is called (in the worker's goroutine, while it is the
	// only one running) each time a lock probe fails.
	OnBlocked func(w, site int)
}

func New(r *core.Rand, strategy int) *Sched {
	return &Sched{r: r, strategy: strategy, back: make(chan event), SwitchPairs: map[uint32]struct{}{}, maxSteps: 200000}
}

// Cur returns the id of the running worker (valid inside worker code).
func (s *Sched) Cur() int { return s.cur }

// Active reports whether a schedule is in progress (hooks are no-ops otherwise).
func (s *Sched) Active() bool { return s != nil && s.active }

// Yield is called from a hook in the running worker.
func (s *Sched) Yield(site int) {
	if !s.active {
		return
	}
	w := s.ws[s.cur]
	s.back <- event{kind: evYield, site: site}
	<-w.wake
}

// Acquire is called from a lock hook: try() probes the lock without keeping
// it. While the probe fails the worker is parked as blocked. When Acquire
// returns the caller proceeds to the real (now non-blocking) Lock, and nobody
// else runs in between.
func (s *Sched) Acquire(site int, try func() bool) {
	if !s.active {
		return
	}
	w := s.ws[s.cur]
	// a scheduling point before the acquisition, like any other hook
	s.back <- event{kind: evYield, site: site}
	<-w.wake
	for !try() {
		if s.OnBlocked != nil {
			s.OnBlocked(s.cur, site)
		}
		s.back <- event{kind: evBlocked, site: site}
		<-w.wake
	}
}

// Run executes the programs; returns when all finished, or on deadlock
// (every unfinished worker blocked and re-probed since the last progress),
// or when a worker panicked. Goroutines of a deadlocked run stay parked
// forever (they are few and the worker process is short-lived).
func (s *Sched) Run(progs []func(w int)) {
	n := len(progs)
	s.ws = make([]*worker, n)
	for i := range s.ws {
		s.ws[i] = &worker{wake: make(chan struct{}), prio: 0}
	}
	if s.strategy == PCT {
		perm := s.r.Perm(n)
		for i, p := range perm {
			s.ws[i].prio = p + 10
		}
		k := s.r.Intn(4)
		for i := 0; i < k; i++ {
			s.changeAt = append(s.changeAt, s.r.Intn(60))
		}
	}
	s.active = true
	for i := range progs {
		i := i
		go func() {
			<-s.ws[i].wake
			defer func() {
				if r := recover(); r != nil {
					s.back <- event{kind: evPanic, pv: r}
					return
				}
				s.back <- event{kind: evDone}
			}()
			progs[i](i)
		}()
	}
	prev, prevSite := -1, -1
	for {
		// candidates: not done
		var cand []int
		allBlockedProbed := true
		for i, w := range s.ws {
			if w.done {
				continue
			}
			cand = append(cand, i)
			if !(w.blocked && w.probed) {
				allBlockedProbed = false
			}
		}
		if len(cand) == 0 {
			break
		}
		if allBlockedProbed {
			s.Deadlock = true
			s.BlockedAt = map[int]int{}
			for i, w := range s.ws {
				if !w.done {
					s.BlockedAt[i] = w.site
				}
			}
			break
		}
		if s.Steps >= s.maxSteps {
			s.Overrun = true
			break
		}
		next := s.pick(cand, prev)
		w := s.ws[next]
		if prev >= 0 && next != prev {
			s.Switches++
			s.SwitchPairs[uint32(prevSite+1)<<16|uint32(w.site+1)] = struct{}{}
		}
		s.cur = next
		s.Steps++
		w.wake <- struct{}{}
		ev := <-s.back
		s.Trace = core.Mix(s.Trace, uint64(next)<<32|uint64(uint32(ev.site)), uint64(ev.kind))
		prev, prevSite = next, ev.site
		switch ev.kind {
		case evYield:
			w.site = ev.site
			w.blocked = false
			s.progress()
		case evBlocked:
			w.site = ev.site
			if w.blocked {
				w.probed = true
			} else {
				w.blocked = true
				w.probed = true
			}
		case evDone:
			w.done = true
			s.progress()
		case evPanic:
			w.done = true
			s.Panic = ev.pv
			s.active = false
			return
		}
	}
	s.active = false
}

func (s *Sched) progress() {
	for _, w := range s.ws {
		w.probed = false
	}
}

func (s *Sched) pick(cand []int, prev int) int {
	switch s.strategy {
	case Sticky:
		if prev >= 0 && !s.ws[prev].done && !s.ws[prev].blocked && s.r.Intn(10) < 8 {
			return prev
		}
		return cand[s.r.Intn(len(cand))]
	case PCT:
		for _, at := range s.changeAt {
			if at == s.Steps && prev >= 0 {
				s.ws[prev].prio = -s.Steps // demote the running worker
			}
		}
		best, bp := -1, -1<<60
		for _, i := range cand {
			w := s.ws[i]
			if w.blocked && w.probed {
				continue
			}
			if w.prio > bp {
				best, bp = i, w.prio
			}
		}
		if best >= 0 {
			return best
		}
		return cand[s.r.Intn(len(cand))]
	}
	// uniform, but do not spin on workers that already re-probed unsuccessfully
	var fresh []int
	for _, i := range cand {
		if w := s.ws[i]; !(w.blocked && w.probed) {
			fresh = append(fresh, i)
		}
	}
	if len(fresh) > 0 {
		return fresh[s.r.Intn(len(fresh))]
	}
	return cand[s.r.Intn(len(cand))]
}
