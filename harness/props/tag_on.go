//go:build verif

package props

// Tagged reports whether the worker (and therefore /repo) was built with the
// verif hooks enabled.
const Tagged = true
