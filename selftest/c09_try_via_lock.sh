python3 - <<'PY'
p='/repo/sync2/keyedmutex.go'
s=open(p).read()
a='''func (km *KeyedRWMutex[T]) TryRLockKey(key T) bool {
	m, _ := km.m.LoadOrStore(key, &sync.RWMutex{})
	return m.TryRLock()
}'''
b='''func (km *KeyedRWMutex[T]) TryRLockKey(key T) bool {
	km.RLockKey(key)
	return true
}'''
assert s.count(a)==1
open(p,'w').write(s.replace(a,b))
PY
