package plan

// Meta is the descriptive part of the evidence of one property.
type Meta struct {
	Rule           string
	Assumptions    []string
	ExhaustivePart string
}

var metas = map[string]Meta{}

// MetaOf returns the evidence texts of a property.
func MetaOf(prop string) Meta {
	m, ok := metas[prop]
	if !ok {
		return Meta{Rule: "cases are generated from splitmix64(VERIF_SEED, property, mode, index); see DESIGN.md", Assumptions: commonAssumptions}
	}
	return m
}

var commonAssumptions = []string{
	"the Go toolchain, runtime, race detector and standard library are trusted",
	"a passing run means: held on the executions this run produced; nothing is proven",
}

func meta(prop, rule string, extra ...string) {
	metas[prop] = Meta{Rule: rule, Assumptions: append(append([]string{}, commonAssumptions...), extra...)}
}

func init() {
	meta("C01", "case i = one PRNG-generated history (seed splitmix64(VERIF_SEED,property,mode,i)) of 1..150 calls (thorough: up to 1500) over up to 3 live trees of one of 6 element-type/comparator families; a case is NON-TRIVIAL if its history contains a Remove of an absent value from a non-empty tree, an Add of a value already present, or a Clone of a tree with >= 2 values; distinctness = hash of the full call sequence",
		"element types sampled: int (dense 0..7, sparse 64-bit, NewOrdered), string, struct{int16,int16}, int with descending comparator",
		"comparators are total orders consistent with ==")
	meta("C02", "case i = one PRNG-chosen workload family (ascending, descending, zig-zag, random, Fibonacci-shape then deletions, delete-root, delete-min, delete-max, interleaved) of distinct ints, up to 40/255/1023 (thorough: 20000) elements, followed by a random drain; the shape is checked after every mutation; NON-TRIVIAL = at least 3 mutations; distinctness = hash of (family, size, mutation sequence)",
		"shape reconstruction from pre+in order is exact for distinct values only")
}
