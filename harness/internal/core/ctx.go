package core

import (
	"encoding/base64"
	"encoding/binary"
	"encoding/json"
	"fmt"
	"os"
	"sort"
	"sync"
)

// Violation is one refuting observation.
type Violation struct {
	Prop     string `json:"property"`
	Mode     string `json:"mode"`
	Build    string `json:"build,omitempty"`
	Index    int64  `json:"case_index"`
	CaseSeed uint64 `json:"case_seed"`
	RunSeed  uint64 `json:"run_seed"`
	// Sig is a short, stable description of WHAT failed (operation, argument
	// class, panic text) used to match entries of KNOWN_FINDINGS.txt.
	Sig    string `json:"sig"`
	Msg    string `json:"msg"`
	Detail any    `json:"detail,omitempty"`
}

// Inconclusive is an observation that decides nothing.
type Inconclusive struct {
	Mode     string `json:"mode"`
	Index    int64  `json:"case_index"`
	CaseSeed uint64 `json:"case_seed"`
	Reason   string `json:"reason"`
}

// Result is what one worker process reports.
type Result struct {
	Prop         string            `json:"property"`
	Mode         string            `json:"mode"`
	Build        string            `json:"build"`
	First        int64             `json:"first"`
	N            int64             `json:"n"`
	CasesRun     int64             `json:"cases_run"`
	Counters     map[string]int64  `json:"counters"`
	Maxes        map[string]int64  `json:"maxes"`
	Distinct     map[string]string `json:"distinct"` // class -> base64(le uint64s)
	NonTrivial   string            `json:"nontrivial"`
	Samples      []any             `json:"samples"`
	Violations   []Violation       `json:"violations"`
	Inconclusive []Inconclusive    `json:"inconclusive"`
	distinct     map[string]map[uint64]struct{}
	nontrivial   map[uint64]struct{}
	mu           sync.Mutex
	Tagged       bool              `json:"tagged"`
	GoVersion    string            `json:"go_version"`
	Notes        map[string]string `json:"notes,omitempty"`
}

func NewResult(prop, mode, build string) *Result {
	return &Result{Prop: prop, Mode: mode, Build: build,
		Counters: map[string]int64{}, Maxes: map[string]int64{},
		distinct: map[string]map[uint64]struct{}{}, nontrivial: map[uint64]struct{}{},
		Notes: map[string]string{}}
}

func encodeSet(m map[uint64]struct{}) string {
	ks := make([]uint64, 0, len(m))
	for k := range m {
		ks = append(ks, k)
	}
	sort.Slice(ks, func(i, j int) bool { return ks[i] < ks[j] })
	b := make([]byte, 8*len(ks))
	for i, k := range ks {
		binary.LittleEndian.PutUint64(b[8*i:], k)
	}
	return base64.StdEncoding.EncodeToString(b)
}

// DecodeSet is the inverse of the encoding used in result files.
func DecodeSet(s string, into map[uint64]struct{}) {
	b, err := base64.StdEncoding.DecodeString(s)
	if err != nil {
		return
	}
	for i := 0; i+8 <= len(b); i += 8 {
		into[binary.LittleEndian.Uint64(b[i:])] = struct{}{}
	}
}

// Write stores the result atomically.
func (r *Result) Write(path string) error {
	r.mu.Lock()
	defer r.mu.Unlock()
	r.Distinct = map[string]string{}
	for c, m := range r.distinct {
		r.Distinct[c] = encodeSet(m)
	}
	r.NonTrivial = encodeSet(r.nontrivial)
	b, err := json.Marshal(r)
	if err != nil {
		return err
	}
	tmp := path + ".tmp"
	if err := os.WriteFile(tmp, b, 0o644); err != nil {
		return err
	}
	return os.Rename(tmp, path)
}

// Ctx is handed to a monitor for one case.
type Ctx struct {
	Prop, Mode, Build string
	Index             int64
	Seed              uint64 // case seed
	RunSeed           uint64
	R                 *Rand
	Verbose           bool
	Tier              string
	Tagged            bool // built with -tags verif (hooks live)
	res               *Result
	violated          bool
	Param             map[string]string
}

func NewCtx(res *Result, idx int64, seed, runSeed uint64, tier string, verbose, tagged bool) *Ctx {
	return &Ctx{Prop: res.Prop, Mode: res.Mode, Build: res.Build, Index: idx, Seed: seed, RunSeed: runSeed,
		R: NewRand(seed), Verbose: verbose, Tier: tier, Tagged: tagged, res: res}
}

// Count adds n to a named counter (safe from any goroutine).
func (c *Ctx) Count(name string, n int64) {
	c.res.mu.Lock()
	c.res.Counters[name] += n
	c.res.mu.Unlock()
}

// Max records the maximum seen for a named quantity.
func (c *Ctx) Max(name string, v int64) {
	c.res.mu.Lock()
	if old, ok := c.res.Maxes[name]; !ok || v > old {
		c.res.Maxes[name] = v
	}
	c.res.mu.Unlock()
}

// Distinct records a member of a named set whose cardinality is reported.
func (c *Ctx) Distinct(class string, h uint64) {
	c.res.mu.Lock()
	m := c.res.distinct[class]
	if m == nil {
		m = map[uint64]struct{}{}
		c.res.distinct[class] = m
	}
	m[h] = struct{}{}
	c.res.mu.Unlock()
}

// NonTrivial marks this case as non-trivial by the property's stated rule; h
// identifies the case for distinctness.
func (c *Ctx) NonTrivial(h uint64) {
	c.res.mu.Lock()
	c.res.nontrivial[h] = struct{}{}
	c.res.mu.Unlock()
}

// Sample offers a written-out case; the worker keeps the first few.
func (c *Ctx) Sample(v any) {
	c.res.mu.Lock()
	if len(c.res.Samples) < 2 {
		c.res.Samples = append(c.res.Samples, v)
	}
	c.res.mu.Unlock()
}

// WantSample says whether Sample would keep another one (lets monitors avoid
// building big descriptions).
func (c *Ctx) WantSample() bool {
	c.res.mu.Lock()
	defer c.res.mu.Unlock()
	return len(c.res.Samples) < 2
}

func (c *Ctx) Note(k, v string) {
	c.res.mu.Lock()
	c.res.Notes[k] = v
	c.res.mu.Unlock()
}

// Violate records a refuting observation. Only the first few per worker keep
// their detail.
func (c *Ctx) Violate(sig, msg string, detail any) {
	c.res.mu.Lock()
	defer c.res.mu.Unlock()
	c.violated = true
	if len(c.res.Violations) >= 25 {
		c.res.Counters["violations_dropped"]++
		return
	}
	if len(c.res.Violations) >= 5 {
		detail = nil
	}
	c.res.Violations = append(c.res.Violations, Violation{Prop: c.Prop, Mode: c.Mode, Build: c.Build, Index: c.Index,
		CaseSeed: c.Seed, RunSeed: c.RunSeed, Sig: sig, Msg: msg, Detail: detail})
	if c.Verbose {
		fmt.Fprintf(os.Stderr, "VIOLATED %s %s case=%d sig=%s :: %s\n", c.Prop, c.Mode, c.Index, sig, msg)
	}
}

func (c *Ctx) Violated() bool {
	c.res.mu.Lock()
	defer c.res.mu.Unlock()
	return c.violated
}

func (c *Ctx) Inconclusive(reason string) {
	c.res.mu.Lock()
	defer c.res.mu.Unlock()
	c.res.Counters["inconclusive"]++
	if len(c.res.Inconclusive) < 20 {
		c.res.Inconclusive = append(c.res.Inconclusive, Inconclusive{Mode: c.Mode, Index: c.Index, CaseSeed: c.Seed, Reason: reason})
	}
}

func (c *Ctx) Logf(format string, a ...any) {
	if c.Verbose {
		fmt.Fprintf(os.Stderr, format+"\n", a...)
	}
}

// Catch runs f and reports whether it panicked (with the panic value).
func Catch(f func()) (panicked bool, val any) {
	defer func() {
		if r := recover(); r != nil {
			panicked, val = true, r
		}
	}()
	f()
	return false, nil
}

// Fork returns a context for a sub-case that runs on its own goroutine next to others:
// it has a private Result (no lock shared with its siblings while it runs) and its own
// PRNG. Join merges it back.
func (c *Ctx) Fork(index int64, seed uint64) *Ctx {
	r := NewResult(c.Prop, c.Mode, c.Build)
	ch := NewCtx(r, index, seed, c.RunSeed, c.Tier, c.Verbose, c.Tagged)
	ch.Param = c.Param
	return ch
}

// Join merges a forked context's observations into c. Violations are re-addressed to
// c's own mode and case index (that is the case to replay); note says which sub-case it was.
func (c *Ctx) Join(ch *Ctx, note string) {
	o := ch.res
	o.mu.Lock()
	defer o.mu.Unlock()
	c.res.mu.Lock()
	defer c.res.mu.Unlock()
	for k, v := range o.Counters {
		c.res.Counters[k] += v
	}
	for k, v := range o.Maxes {
		if old, ok := c.res.Maxes[k]; !ok || v > old {
			c.res.Maxes[k] = v
		}
	}
	for class, m := range o.distinct {
		dst := c.res.distinct[class]
		if dst == nil {
			dst = map[uint64]struct{}{}
			c.res.distinct[class] = dst
		}
		for h := range m {
			dst[h] = struct{}{}
		}
	}
	if len(o.nontrivial) > 0 {
		// the parent case counts once, however many of its sub-cases were non-trivial
		c.res.nontrivial[Mix(c.Seed, 0x9a7)] = struct{}{}
	}
	for _, s := range o.Samples {
		if len(c.res.Samples) < 2 {
			c.res.Samples = append(c.res.Samples, s)
		}
	}
	for _, v := range o.Violations {
		c.violated = true
		v.Mode, v.Index, v.CaseSeed = c.Mode, c.Index, c.Seed
		v.Msg += " " + note
		if len(c.res.Violations) < 25 {
			c.res.Violations = append(c.res.Violations, v)
		}
	}
	for _, in := range o.Inconclusive {
		c.res.Counters["inconclusive"]++
		in.Mode, in.Index, in.CaseSeed = c.Mode, c.Index, c.Seed
		if len(c.res.Inconclusive) < 20 {
			c.res.Inconclusive = append(c.res.Inconclusive, in)
		}
	}
	for k, v := range o.Notes {
		c.res.Notes[k] = v
	}
}
