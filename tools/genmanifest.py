#!/usr/bin/env python3
"""Regenerates /verif/MANIFEST.json from the table below (kept in one place so
that the manifest is always valid and consistent with what is built)."""
import json, os, subprocess, sys
here = os.path.dirname(os.path.dirname(os.path.abspath(__file__)))
props = [json.loads(l) for l in open(os.path.join(here, 'properties.jsonl'))]
ids = [p['id'] for p in props]

# id -> (technique, level text, level note, design ref)
claimed = {}
def claim(i, technique, text, note, ref):
    claimed[i] = (technique, text, note, ref)

exec(open(os.path.join(here, 'tools', 'claims.py')).read())

hook_commits = []
hc = os.path.join(here, 'tools', 'hook_commits.txt')
if os.path.exists(hc):
    hook_commits = [l.split()[0] for l in open(hc) if l.strip() and not l.startswith('#')]

checks = []
for i in ids:
    if i not in claimed:
        continue
    t, text, note, ref = claimed[i]
    text += " Families added by the seeded-change rounds (exhaustive short-history sweeps, size/shape/element-type families, re-entrancy, retained results, mode par, storms, ...) are listed in the As-built paragraph of " + ref + " and in the rule text of the evidence file."
    checks.append({
        "property_id": i,
        "quick_cmd": "./check %s quick" % i,
        "thorough_cmd": "./check %s thorough" % i,
        "evidence_file": "/verif/evidence/%s.json" % i,
        "replay_cmd_template": "./check replay {path}",
        "engine": "vcheck",
        "level_claimed": {"category": "exploration", "text": text, "design_ref": ref},
        "level_note": note,
        "technique": t,
    })
na = [{"property_id": i, "reason": "monitor not built yet (work in progress; see DESIGN.md section 4 for the planned runtime monitor)"} for i in ids if i not in claimed]
man = {
    "version": 1,
    "setup_cmd": "export GOFLAGS=-mod=mod GOPROXY=off GOSUMDB=off GOTOOLCHAIN=local GOWORK=off; mkdir -p bin && cd harness && go build -o ../bin/vcheck ./cmd/vcheck && go build -tags verif -o ../bin/vwork-warm ./cmd/vwork && go build -race -tags verif -o ../bin/vwork-warm-race ./cmd/vwork",
    "hooks": {
        "guard": "verif",
        "enable": "go build -tags verif (the driver builds the worker from /repo's working tree with -tags verif on every run; falls back to an untagged build with an INCONCLUSIVE line if the tagged build fails)",
        "baseline_off_cmd": "cd /repo && GOFLAGS=-mod=mod GOPROXY=off GOSUMDB=off GOTOOLCHAIN=local go test -json -vet=off -count=1 -timeout 25m ./...",
        "source_commits": hook_commits,
        "add_only": True,
    },
    "engines": [{
        "name": "vcheck",
        "path": "/verif/harness",
        "serves_properties": [c["property_id"] for c in checks],
        "kind_free_text": "runtime monitoring: driver + worker processes built from /repo's working tree (plain and -race builds, -tags verif); reference-model lock-step monitors, recorded-history checkers (porcupine), conservation/exactly-once checkers, Go race detector",
    }],
    "checks": checks,
    "not_applicable": na,
    "notes": "Every check is a runtime monitor observing executions of the real code; a pass means 'held on the executions produced by this run'. KNOWN_FINDINGS.txt lists genuine defects found (fixed: ... / known: ...).",
}
json.dump(man, open(os.path.join(here, 'MANIFEST.json'), 'w'), indent=1)
print("claimed:", [c["property_id"] for c in checks], "not_applicable:", [n["property_id"] for n in na])
