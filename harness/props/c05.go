package props

import (
	"fmt"
	"gopkg.in/typ.v4/sets"
	"runtime"
	"sort"
	"sync"
	"time"

	"github.com/anishathalye/porcupine"
	tmaps "gopkg.in/typ.v4/maps"
	"gopkg.in/typ.v4/sync2"
	"verifharness/internal/core"
	"verifharness/internal/sched"
)

// C05 — sync2.Set is an atomic set under concurrent use.
// Oracle: porcupine per value with state bool (Add returns !state, Remove
// returns state, Has returns state) = "successful Adds and Removes alternate,
// starting with an Add, consistent with real time". Singleton AddSet/RemoveSet
// are recorded as Add/Remove; multi-element ones only enter the conservation
// law checked at quiescence.

func init() { register("C05", runC05) }

func runC05(c *core.Ctx) {
	switch c.Mode {
	case "tierb":
		c05tierb(c)
	case "lin":
		c05free(c, true)
	case "race":
		c05free(c, false)
	}
}

type setOp struct {
	Kind     int // opAdd opRemove opHas, 100 AddSet(multi), 101 RemoveSet(multi), 102 Len, 103 AddSet(single), 104 RemoveSet(single)
	V        int
	Multi    []int
	Self     bool // bulk call with the receiver itself as the argument
	ArgSync2 bool // bulk argument held in a concurrent set instead of a map-backed one
}

func genSetOps(r *core.Rand, n int, univ []int, allowMulti bool) []setOp {
	ops := make([]setOp, n)
	mw := 0
	if allowMulti {
		mw = 5
	}
	for i := range ops {
		v := univ[r.Intn(len(univ))]
		switch r.Pick(30, 26, 20, mw, mw, 4, 5, 5) {
		case 0:
			ops[i] = setOp{Kind: opAdd, V: v}
		case 1:
			ops[i] = setOp{Kind: opRemove, V: v}
		case 2:
			ops[i] = setOp{Kind: opHas, V: v}
		case 3, 4:
			k := 100 + r.Intn(2)
			var multi []int
			for _, u := range univ {
				if r.Bool() {
					multi = append(multi, u)
				}
			}
			if len(multi) < 2 {
				multi = append([]int{}, univ...)
			}
			ops[i] = setOp{Kind: k, Multi: multi}
			if r.Chance(1, 5) {
				// the set itself as the argument: s.RemoveSet(s) / s.AddSet(s); any value of
				// the universe may be touched, the count is bounded by the universe
				ops[i] = setOp{Kind: k, Multi: append([]int{}, univ...), Self: true}
			}
			ops[i].ArgSync2 = r.Bool()
		case 5:
			ops[i] = setOp{Kind: 102}
		case 6:
			ops[i] = setOp{Kind: 103, V: v}
		case 7:
			ops[i] = setOp{Kind: 104, V: v}
		}
	}
	return ops
}

type setLog struct {
	recs         []rec
	gained, lost int // from multi-element AddSet / RemoveSet
	lens         []rec
	multiTouched map[int]bool
}

func bulkArg(s *sync2.Set[int], o setOp) sets.Set[int] {
	switch {
	case o.Self:
		return s
	case o.ArgSync2:
		// a concurrent set with a past: two more values were added, listed and removed
		// again (they sit in its read map as deleted entries and are not members)
		a := sync2.NewSetFromSlice(o.Multi)
		a.Add(-901)
		a.Add(-902)
		_ = a.Len()
		a.Remove(-901)
		a.Remove(-902)
		return a
	}
	return tmaps.NewSetFromSlice(o.Multi)
}

func doSetOp(s *sync2.Set[int], o setOp, client int, clk *clock, log *setLog) {
	var t0, t1 int64
	stamp := clk != nil
	if stamp {
		t0 = clk.now()
	}
	switch o.Kind {
	case opAdd:
		ok := s.Add(o.V)
		if stamp {
			t1 = clk.now()
		}
		log.recs = append(log.recs, rec{Client: client, Op: opAdd, Key: o.V, Ok: ok, Call: t0, Ret: t1})
	case opRemove:
		ok := s.Remove(o.V)
		if stamp {
			t1 = clk.now()
		}
		log.recs = append(log.recs, rec{Client: client, Op: opRemove, Key: o.V, Ok: ok, Call: t0, Ret: t1})
	case opHas:
		ok := s.Has(o.V)
		if stamp {
			t1 = clk.now()
		}
		log.recs = append(log.recs, rec{Client: client, Op: opHas, Key: o.V, Ok: ok, Call: t0, Ret: t1})
	case 103:
		n := s.AddSet(tmaps.NewSetFromSlice([]int{o.V}))
		if stamp {
			t1 = clk.now()
		}
		log.recs = append(log.recs, rec{Client: client, Op: opAdd, Key: o.V, Ok: n == 1, Val: int64(n), Call: t0, Ret: t1})
	case 104:
		n := s.RemoveSet(tmaps.NewSetFromSlice([]int{o.V}))
		if stamp {
			t1 = clk.now()
		}
		log.recs = append(log.recs, rec{Client: client, Op: opRemove, Key: o.V, Ok: n == 1, Val: int64(n), Call: t0, Ret: t1})
	case 100:
		n := s.AddSet(bulkArg(s, o))
		log.gained += n
		if n < 0 || n > len(o.Multi) {
			log.gained = 1 << 30
		}
		for _, v := range o.Multi {
			log.multiTouched[v] = true
		}
	case 101:
		n := s.RemoveSet(bulkArg(s, o))
		log.lost += n
		if n < 0 || n > len(o.Multi) {
			log.lost = 1 << 30
		}
		for _, v := range o.Multi {
			log.multiTouched[v] = true
		}
	case 102:
		n := s.Len()
		if stamp {
			t1 = clk.now()
		}
		log.lens = append(log.lens, rec{Client: client, Val: int64(n), Call: t0, Ret: t1})
	}
}

// c05prefix builds the starting set sequentially (drives promotion / deleted entries).
func c05prefix(r *core.Rand, s *sync2.Set[int], univ []int) (map[int]bool, []string) {
	model := map[int]bool{}
	var hist []string
	n := r.Intn(13)
	for i := 0; i < n; i++ {
		v := univ[r.Intn(len(univ))]
		switch r.Intn(4) {
		case 0, 1:
			s.Add(v)
			model[v] = true
			hist = append(hist, fmt.Sprintf("Add(%d)", v))
		case 2:
			s.Remove(v)
			delete(model, v)
			hist = append(hist, fmt.Sprintf("Remove(%d)", v))
		case 3:
			s.Has(len(univ) + 5) // miss
			s.Len()
			hist = append(hist, "Has(absent);Len()")
		}
	}
	return model, hist
}

// judgeSet checks a quiescent set history: porcupine per value (only values
// never touched by multi-element calls), conservation, Len bounds, final state.
func judgeSet(c *core.Ctx, mode string, s *sync2.Set[int], univ []int, init map[int]bool, logs []*setLog, extra map[string]any) bool {
	var h []rec
	gained, lost := 0, 0
	multi := map[int]bool{}
	var lens []rec
	for _, l := range logs {
		h = append(h, l.recs...)
		gained += l.gained
		lost += l.lost
		lens = append(lens, l.lens...)
		for v := range l.multiTouched {
			multi[v] = true
		}
	}
	fail := func(sig, msg string) bool {
		extra["history"] = histStrings(h, 500)
		extra["initial_members"] = fmt.Sprint(init)
		c.Violate(mode+":"+sig, msg, extra)
		return false
	}
	// final state after quiescence
	final := map[int]bool{}
	sl := s.Slice()
	for _, v := range sl {
		if final[v] {
			return fail("final:duplicate", fmt.Sprintf("final Slice lists %d twice: %v", v, sl))
		}
		final[v] = true
	}
	if s.Len() != len(sl) {
		return fail("final:Len", fmt.Sprintf("final Len()=%d but Slice has %d members", s.Len(), len(sl)))
	}
	for _, v := range univ {
		if s.Has(v) != final[v] {
			return fail("final:Has", fmt.Sprintf("final Has(%d)=%v but Slice membership is %v", v, s.Has(v), final[v]))
		}
	}
	inUniv := make(map[int]bool, len(univ))
	for _, u := range univ {
		inUniv[u] = true
	}
	for v := range final {
		if !inUniv[v] {
			return fail("final:invented", fmt.Sprintf("final set contains %d which was never added", v))
		}
	}
	// conservation over the whole run
	adds, removes := 0, 0
	perAdd, perRem := map[int]int{}, map[int]int{}
	for _, r := range h {
		if r.Op == opAdd && r.Ok {
			adds++
			perAdd[r.Key]++
		}
		if r.Op == opRemove && r.Ok {
			removes++
			perRem[r.Key]++
		}
	}
	if gained >= 1<<30 || lost >= 1<<30 {
		return fail("AddSet/RemoveSet:count-out-of-range", "a multi-element AddSet/RemoveSet returned a count outside 0..|argument|")
	}
	if len(init)+adds+gained-removes-lost != len(final) {
		return fail("conservation", fmt.Sprintf("initial %d + successful Adds %d + AddSet counts %d - successful Removes %d - RemoveSet counts %d = %d, but the final set has %d members",
			len(init), adds, gained, removes, lost, len(init)+adds+gained-removes-lost, len(final)))
	}
	for _, v := range univ {
		if multi[v] {
			continue
		}
		i := 0
		if init[v] {
			i = 1
		}
		net := i + perAdd[v] - perRem[v]
		want := 0
		if final[v] {
			want = 1
		}
		if net != want {
			return fail("per-value-balance", fmt.Sprintf("value %d: initial %d + %d successful Adds - %d successful Removes = %d, final membership %d", v, i, perAdd[v], perRem[v], net, want))
		}
	}
	c.Count(mode+"_conservation_checks", 1)
	// Len during the run: between the number of never-touched initial members and the
	// universe minus never-touched initial non-members
	touched := map[int]bool{}
	for _, r := range h {
		if r.Op != opHas {
			touched[r.Key] = true
		}
	}
	lo, hi := 0, len(univ)
	for _, v := range univ {
		if !touched[v] && !multi[v] {
			if init[v] {
				lo++
			} else {
				hi--
			}
		}
	}
	for _, l := range lens {
		if int(l.Val) < lo || int(l.Val) > hi {
			return fail("Len:out-of-bounds", fmt.Sprintf("Len() returned %d during the run; %d members were never touched and at most %d values could be present", l.Val, lo, hi))
		}
	}
	c.Count(mode+"_len_observations", int64(len(lens)))
	if h == nil || h[0].Call == 0 && h[0].Ret == 0 {
		return true // unrecorded (race) round: no timestamps
	}
	// porcupine per value; a final Has observation pins the end state
	byKey := map[int][]porcupine.Operation{}
	maxT := int64(0)
	for _, r := range h {
		if multi[r.Key] {
			continue
		}
		byKey[r.Key] = append(byKey[r.Key], porcupine.Operation{ClientId: r.Client, Input: pin{Op: r.Op}, Output: pout{Ok: r.Ok}, Call: r.Call, Return: r.Ret})
		if r.Ret > maxT {
			maxT = r.Ret
		}
	}
	for _, v := range univ {
		if multi[v] {
			continue
		}
		byKey[v] = append(byKey[v], porcupine.Operation{ClientId: 999, Input: pin{Op: opHas}, Output: pout{Ok: final[v]}, Call: maxT + 1, Return: maxT + 2})
	}
	res := checkPerKey(setStep, func(k int) any { return init[k] }, byKey, 20*time.Second)
	c.Count(mode+"_histories_checked", 1)
	c.Count(mode+"_value_subhistories_checked", int64(res.checked))
	c.Count(mode+"_operations_checked", int64(res.ops))
	if res.illegal {
		extra["illegal_value"] = res.illegalKey
		extra["value_subhistory"] = res.witness
		return fail("not-linearizable", fmt.Sprintf("the calls on value %d are not linearizable to an atomic set (initially member=%v)", res.illegalKey, init[res.illegalKey]))
	}
	if res.unknown {
		c.Inconclusive("porcupine timed out on a value sub-history")
	}
	return true
}

func c05tierb(c *core.Ctx) {
	if !hooksAvailable {
		c.Inconclusive("tier B needs the verif hooks")
		return
	}
	r := c.R
	hooksOff()
	var s sync2.Set[int]
	nu := r.Range(1, 3)
	univ := make([]int, nu)
	for i := range univ {
		univ[i] = i
	}
	// a quarter of the cases start on a brand-new zero-value set, with no sequential prefix:
	// the very first calls ever made on the value are the concurrent ones
	init, pre := map[int]bool{}, []string{"(brand-new set, no prefix)"}
	if !r.Chance(1, 4) {
		init, pre = c05prefix(r, &s, univ)
	}
	nw := r.Range(2, 4)
	allowMulti := r.Chance(1, 5)
	sc := sched.New(r.Fork(), r.Intn(3))
	hooksTierB(sc)
	defer hooksOff()
	var clk clock
	logs := make([]*setLog, nw)
	progs := make([]func(int), nw)
	for w := 0; w < nw; w++ {
		ops := genSetOps(r.Fork(), r.Range(1, 6), univ, allowMulti)
		logs[w] = &setLog{multiTouched: map[int]bool{}}
		w := w
		progs[w] = func(int) {
			for _, o := range ops {
				doSetOp(&s, o, w+1, &clk, logs[w])
			}
		}
	}
	sc.Run(progs)
	hooksOff()
	c.Count("tierb_schedules", 1)
	c.Count("tierb_steps", int64(sc.Steps))
	c.Count("tierb_worker_switches", int64(sc.Switches))
	c.Distinct("tierb_distinct_schedules", sc.Trace)
	for p := range sc.SwitchPairs {
		c.Distinct("tierb_switch_site_pairs", uint64(p))
	}
	extra := map[string]any{"prefix": pre, "workers": nw, "schedule_hash": sc.Trace}
	if sc.Panic != nil {
		c.Violate("tierb:panic", fmt.Sprintf("a set operation panicked: %v", sc.Panic), extra)
		return
	}
	if sc.Deadlock {
		c.Violate("tierb:deadlock", fmt.Sprintf("all unfinished workers are blocked (sites %v)", sc.BlockedAt), extra)
		return
	}
	if sc.Overrun {
		c.Inconclusive("schedule exceeded the step bound")
		return
	}
	if !judgeSet(c, "tierb", &s, univ, init, logs, extra) {
		return
	}
	if sc.Switches >= 1 {
		c.NonTrivial(sc.Trace)
	}
	if c.WantSample() {
		var h []rec
		for _, l := range logs {
			h = append(h, l.recs...)
		}
		sort.Slice(h, func(i, j int) bool { return h[i].Call < h[j].Call })
		c.Sample(map[string]any{"mode": "tierb", "prefix": pre, "workers": nw, "steps": sc.Steps, "history": histStrings(h, 30)})
	}
}

func c05free(c *core.Ctx, record bool) {
	r := c.R
	hooksOff()
	var s sync2.Set[int]
	nu := r.Range(1, 4)
	univ := make([]int, nu)
	for i := range univ {
		univ[i] = i
	}
	// a quarter of the cases start on a brand-new zero-value set, with no sequential prefix:
	// the very first calls ever made on the value are the concurrent ones
	init, pre := map[int]bool{}, []string{"(brand-new set, no prefix)"}
	// one case in twelve: the set also holds 1025..3000 values that no call of the round
	// names (listed once, so that they sit wherever listed values sit); they must all be
	// there afterwards, and every Len of the round counts them
	full := univ
	ballast := 0
	if r.Chance(1, 12) {
		ballast = r.Range(1025, 3000)
		if r.Chance(1, 4) {
			ballast = r.Range(200, 1030)
		}
		full = append([]int(nil), univ...)
		for i := 0; i < ballast; i++ {
			s.Add(10000 + i)
			full = append(full, 10000+i)
		}
		s.Len()
		c.Count("rounds_on_a_set_with_200_to_3000_bystander_values", 1)
	}
	if ballast > 0 || !r.Chance(1, 4) {
		init, pre = c05prefix(r, &s, univ)
		for i := 0; i < ballast; i++ {
			init[10000+i] = true
		}
		if ballast > 0 {
			pre = append([]string{fmt.Sprintf("Add(10000..%d);Len()", 10000+ballast-1)}, pre...)
		}
	}
	ng, nops := r.Range(2, 8), r.Range(10, 120)
	if !record {
		ng, nops = r.Range(2, 16), r.Range(10, 150)
		if r.Chance(1, 8) {
			ng = r.Range(17, 64)
		}
	} else if c.Build != "plain" {
		ng, nops = r.Range(2, 6), r.Range(10, 60)
	}
	policy := tierAHooks(r)
	allowMulti := r.Chance(1, 5) && ballast == 0
	defer hooksOff()
	var clk *clock
	if record {
		clk = &clock{atomic: true}
	}
	logs := make([]*setLog, ng)
	var wg sync.WaitGroup
	start := make(chan struct{})
	for w := 0; w < ng; w++ {
		ops := genSetOps(r.Fork(), nops, univ, allowMulti)
		logs[w] = &setLog{multiTouched: map[int]bool{}}
		w := w
		wg.Add(1)
		go func() {
			defer wg.Done()
			<-start
			l := logs[w]
			for _, o := range ops {
				doSetOp(&s, o, w+1, clk, l)
			}
		}()
	}
	close(start)
	if !joinOrDeadlock(c, &wg, "free", "a round of concurrent set calls", map[string]any{"goroutines": ng, "ops_each": nops, "hook_policy": policy}) {
		return
	}
	hooksOff()
	mode := "lin"
	if !record {
		mode = "race"
	}
	c.Count(mode+"_rounds", 1)
	c.Count(mode+"_policy_"+policy, 1)
	c.Count(mode+"_goroutines", int64(ng))
	c.Count(mode+"_calls", int64(ng*nops))
	extra := map[string]any{"prefix": pre, "goroutines": ng, "ops_each": nops, "hook_policy": policy, "gomaxprocs": runtime.GOMAXPROCS(0)}
	if !judgeSet(c, mode, &s, full, init, logs, extra) {
		return
	}
	c.NonTrivial(core.Mix(c.Seed, uint64(ng), uint64(nops)))
	if c.WantSample() {
		var h []rec
		for _, l := range logs {
			h = append(h, l.recs...)
		}
		c.Sample(map[string]any{"mode": mode, "prefix": pre, "goroutines": ng, "ops_each": nops, "universe": nu, "hook_policy": policy, "history_prefix": histStrings(h, 16)})
	}
}
