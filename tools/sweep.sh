#!/bin/bash
# tools/sweep.sh "<seeds>" [props...]: run the quick checks at several VERIF_SEED values on the current tree;
# prints only what is not a clean pass. Evidence files are rewritten by each run (re-run seed 1 before committing).
here=$(cd "$(dirname "$0")/.." && pwd); cd $here
seeds=$1; shift
props="$@"
[ -z "$props" ] && props=$(python3 -c "import json;print(' '.join(c['property_id'] for c in json.load(open('MANIFEST.json'))['checks']))")
bad=0
for s in $seeds; do
  for p in $props; do
    out=$(VERIF_SEED=$s ./check $p quick 2>&1); e=$?
    if [ $e -ne 0 ] || echo "$out" | grep -q -E '^(VIOLATION|INCONCLUSIVE)'; then
      bad=1; echo "seed=$s $p exit=$e"; echo "$out" | grep -E '^(VIOLATION|INCONCLUSIVE|  sig)' | cut -c1-220 | head -6
    fi
  done
  echo "seed $s done"
done
exit $bad
