package props

import (
	"container/list"
	"container/ring"
	"fmt"
	"os"
	"runtime/debug"
	"strings"

	"gopkg.in/typ.v4/lists"
	"verifharness/internal/core"
)

// C06 — lists.List/Element and lists.Ring behave exactly like container/list
// and container/ring. Differential lock-step monitor: every call is made on
// both libraries through parallel handle tables; after every call the return
// value, all lengths, forward and backward traversals and the neighbours of
// EVERY handle ever issued are compared.

func init() { register("C06", runC06) }

// c06sweep: ALL sequences of up to 5 calls starting with call `first` of a 10-call
// alphabet on one list (zero value), in lock-step with container/list. Element
// arguments are "the oldest handle ever returned" (h0) and "the newest" (hN) - live or
// already removed: PushFront, PushBack, Remove(h0), Remove(hN), MoveToFront(hN),
// MoveToBack(h0), MoveBefore(hN,h0), MoveAfter(hN,h0), InsertBefore(v,h0),
// InsertAfter(v,hN). After every call: Len, both traversals and the returned element.
func c06sweep(c *core.Ctx, first int) {
	const nOps = 10
	names := []string{"PushFront", "PushBack", "Remove(h0)", "Remove(hN)", "MoveToFront(hN)", "MoveToBack(h0)", "MoveBefore(hN,h0)", "MoveAfter(hN,h0)", "InsertBefore(v,h0)", "InsertAfter(v,hN)"}
	seqs := 0
	for L := 1; L <= 5; L++ {
		total := 1
		for i := 1; i < L; i++ {
			total *= nOps
		}
		for code := 0; code < total; code++ {
			g, s := new(lists.List[int]), new(list.List)
			var hs []eh
			var hist []string
			fail := func(sig, msg string) {
				c.Violate("List.sweep:"+sig, fmt.Sprintf("%s [exhaustive sweep on a zero-value list, calls %v]", msg, hist), map[string]any{"history": hist})
			}
			v := 0
			for x, k := code, 0; k < L; k++ {
				op := first
				if k > 0 {
					op = x % nOps
					x /= nOps
				}
				hist = append(hist, names[op])
				if op >= 2 && len(hs) == 0 {
					continue // no handle yet
				}
				var h0, hN eh
				if len(hs) > 0 {
					h0, hN = hs[0], hs[len(hs)-1]
				}
				v++
				var ng *lists.Element[int]
				var ns *list.Element
				added := false
				switch op {
				case 0:
					ng, ns, added = g.PushFront(v), s.PushFront(v), true
				case 1:
					ng, ns, added = g.PushBack(v), s.PushBack(v), true
				case 2:
					if a, b := g.Remove(h0.g), s.Remove(h0.s); a != b.(int) {
						fail("Remove:value", fmt.Sprintf("Remove(h0) returned %d, container/list %v", a, b))
						return
					}
				case 3:
					if a, b := g.Remove(hN.g), s.Remove(hN.s); a != b.(int) {
						fail("Remove:value", fmt.Sprintf("Remove(hN) returned %d, container/list %v", a, b))
						return
					}
				case 4:
					g.MoveToFront(hN.g)
					s.MoveToFront(hN.s)
				case 5:
					g.MoveToBack(h0.g)
					s.MoveToBack(h0.s)
				case 6:
					g.MoveBefore(hN.g, h0.g)
					s.MoveBefore(hN.s, h0.s)
				case 7:
					g.MoveAfter(hN.g, h0.g)
					s.MoveAfter(hN.s, h0.s)
				case 8:
					ng, ns, added = g.InsertBefore(v, h0.g), s.InsertBefore(v, h0.s), true
				case 9:
					ng, ns, added = g.InsertAfter(v, hN.g), s.InsertAfter(v, hN.s), true
				}
				if added {
					if (ng == nil) != (ns == nil) {
						fail("insert:nil", fmt.Sprintf("%s returned nil=%v, container/list nil=%v", names[op], ng == nil, ns == nil))
						return
					}
					if ng != nil {
						hs = append(hs, eh{ng, ns})
					}
				}
				if g.Len() != s.Len() {
					fail("Len", fmt.Sprintf("Len()=%d, container/list %d", g.Len(), s.Len()))
					return
				}
				eg, es := g.Front(), s.Front()
				for es != nil {
					if eg == nil || eg.Value != es.Value.(int) {
						fail("forward", "forward traversal differs from container/list")
						return
					}
					eg, es = eg.Next(), es.Next()
				}
				if eg != nil {
					fail("forward", "forward traversal is longer than container/list's")
					return
				}
				eg, es = g.Back(), s.Back()
				for es != nil {
					if eg == nil || eg.Value != es.Value.(int) {
						fail("backward", "backward traversal differs from container/list")
						return
					}
					eg, es = eg.Prev(), es.Prev()
				}
				if eg != nil {
					fail("backward", "backward traversal is longer than container/list's")
					return
				}
				// every handle: same neighbours (removed handles have none in both)
				for i, h := range hs {
					gn, sn := h.g.Next(), h.s.Next()
					gp, sp := h.g.Prev(), h.s.Prev()
					if (gn == nil) != (sn == nil) || (gp == nil) != (sp == nil) || (gn != nil && gn.Value != sn.Value.(int)) || (gp != nil && gp.Value != sp.Value.(int)) {
						fail("neighbours", fmt.Sprintf("handle %d has other neighbours than in container/list", i))
						return
					}
				}
			}
			seqs++
		}
	}
	c.Count("exhaustive_sweep_sequences", int64(seqs))
	c.Count("exhaustive_sweeps_completed", 1)
	c.NonTrivial(core.Mix(6, uint64(first), 0x5eeb))
}

func runC06(c *core.Ctx) {
	if c.Index < 10 {
		c06sweep(c, int(c.Index))
		return
	}
	if c.Index%100 == 42 && c.Mode != "par" {
		c06big(c)
		return
	}
	if c.Index%2 == 0 {
		c06list(c)
	} else {
		c06ring(c)
	}
}

type eh struct {
	g *lists.Element[int]
	s *list.Element
}

type lh struct {
	g *lists.List[int]
	s *list.List
}

func c06list(c *core.Ctx) {
	r := c.R
	var hist []string
	failed := false
	fail := func(sig, msg string) {
		failed = true
		sig = stripDigits(sig)
		c.Violate("List."+sig, msg+fmt.Sprintf(" [after %d calls]", len(hist)), map[string]any{"history": append([]string{}, hist...)})
	}
	nl := r.Range(2, 3)
	ls := make([]lh, nl)
	for i := range ls {
		if r.Bool() {
			ls[i] = lh{g: new(lists.List[int]), s: new(list.List)} // zero values
			c.Count("lists_zero_value", 1)
		} else {
			ls[i] = lh{g: lists.New[int](), s: list.New()}
			c.Count("lists_new", 1)
		}
	}
	var hs []eh
	gid := map[*lists.Element[int]]int{}
	sid := map[*list.Element]int{}
	reg := func(g *lists.Element[int], s *list.Element) (int, bool) {
		if (g == nil) != (s == nil) {
			return -1, false
		}
		if g == nil {
			return -1, true
		}
		ig, okg := gid[g]
		is, oks := sid[s]
		if okg != oks || (okg && ig != is) {
			return -1, false
		}
		if okg {
			return ig, true
		}
		id := len(hs)
		hs = append(hs, eh{g, s})
		gid[g], sid[s] = id, id
		return id, true
	}
	// never-inserted zero elements
	for k := 0; k < 2; k++ {
		reg(&lists.Element[int]{Value: -1 - k}, &list.Element{Value: -1 - k})
	}
	idOfG := func(e *lists.Element[int]) int {
		if e == nil {
			return -1
		}
		if id, ok := gid[e]; ok {
			return id
		}
		return -2
	}
	idOfS := func(e *list.Element) int {
		if e == nil {
			return -1
		}
		if id, ok := sid[e]; ok {
			return id
		}
		return -2
	}
	compare := func(op string) bool {
		c.Count("observations", 1)
		for li, l := range ls {
			if l.g.Len() != l.s.Len() {
				fail(op+":Len", fmt.Sprintf("after %s list %d: Len()=%d, container/list %d", op, li, l.g.Len(), l.s.Len()))
				return false
			}
			limit := len(hs) + 2
			var fg, fs, bg, bs []int
			for e, n := l.g.Front(), 0; e != nil && n <= limit; e, n = e.Next(), n+1 {
				fg = append(fg, idOfG(e))
			}
			for e, n := l.s.Front(), 0; e != nil && n <= limit; e, n = e.Next(), n+1 {
				fs = append(fs, idOfS(e))
			}
			for e, n := l.g.Back(), 0; e != nil && n <= limit; e, n = e.Prev(), n+1 {
				bg = append(bg, idOfG(e))
			}
			for e, n := l.s.Back(), 0; e != nil && n <= limit; e, n = e.Prev(), n+1 {
				bs = append(bs, idOfS(e))
			}
			if !eqSlice(fg, fs) {
				fail(op+":forward-traversal", fmt.Sprintf("after %s list %d: forward handles %v, container/list %v", op, li, fg, fs))
				return false
			}
			if !eqSlice(bg, bs) {
				fail(op+":backward-traversal", fmt.Sprintf("after %s list %d: backward handles %v, container/list %v", op, li, bg, bs))
				return false
			}
		}
		for id, h := range hs {
			ng, ns := idOfG(h.g.Next()), idOfS(h.s.Next())
			pg, ps := idOfG(h.g.Prev()), idOfS(h.s.Prev())
			if ng != ns || pg != ps {
				fail(op+":neighbours", fmt.Sprintf("after %s element %d: Next/Prev = %d/%d, container/list %d/%d", op, id, ng, pg, ns, ps))
				return false
			}
			if sv, _ := h.s.Value.(int); h.g.Value != sv {
				fail(op+":value", fmt.Sprintf("after %s element %d: Value %d vs %d", op, id, h.g.Value, h.s.Value))
				return false
			}
		}
		return true
	}
	// Elements that were inside a list when Init() was called on it keep a stale
	// owner pointer in BOTH libraries (container/list does not reset them). Using
	// them afterwards relinks orphans, makes Len disagree with the traversals and
	// can expose the sentinel - in both libraries alike. Three quarters of the
	// cases retire such elements (clean regime); one quarter keeps using them
	// ("orphan regime"): "every sequence of operations" includes these, the two
	// libraries must still agree call by call. There all traversals are bounded,
	// the sentinel is an anonymous handle (-2), and a panic inside container/list
	// itself ends the case without a verdict.
	banned := map[int]bool{}
	useOrphans := r.Chance(1, 4)
	if useOrphans {
		c.Count("list_cases_orphan_regime", 1)
	}
	pickElem := func(li int) (int, string) {
		// classes: live in this list, live in another list, removed, never inserted
		if len(hs) == 0 {
			return -1, ""
		}
		for try := 0; try < 8; try++ {
			id := r.Intn(len(hs))
			if !banned[id] || useOrphans {
				return id, ""
			}
		}
		return -1, ""
	}
	classOf := func(id, li int) string {
		h := hs[id]
		// classify via the reference implementation's observable behaviour: walk lists
		for k, l := range ls {
			for e := l.s.Front(); e != nil; e = e.Next() {
				if e == h.s {
					if k == li {
						return "live-here"
					}
					return "live-elsewhere"
				}
			}
		}
		if id < 2 {
			return "never-inserted"
		}
		if banned[id] && hs[id].s.Next() != nil {
			return "orphaned-by-Init"
		}
		return "removed"
	}
	nops := r.Range(1, 120)
	val := 0
	var hh uint64 = 6
	nontrivial := false
	// sane: Len agrees with both traversals of the REFERENCE list (always true in the
	// clean regime). PushBackList/PushFrontList iterate a length fixed up-front and
	// dereference nil - in both libraries - when it lies.
	sane := func(x lh) bool {
		n, m := 0, 0
		for e := x.s.Front(); e != nil && n <= len(hs)+2; e = e.Next() {
			if _, ok := e.Value.(int); !ok {
				return false
			}
			n++
		}
		for e := x.s.Back(); e != nil && m <= len(hs)+2; e = e.Prev() {
			m++
		}
		return x.s.Len() >= 0 && n == x.s.Len() && m == n
	}
	for step := 0; step < nops; step++ {
		li := r.Intn(nl)
		l := ls[li]
		op := r.Pick(14, 14, 8, 8, 10, 6, 6, 6, 6, 1, 5, 5, 3)
		if useOrphans && r.Chance(1, 12) {
			op = 9 // Init is rare in the clean regime, less so here
		}
		var name string
		stop := false
		func() {
			defer func() {
				if pv := recover(); pv != nil {
					st := string(debug.Stack())
					stop = true
					if useOrphans && strings.Contains(st, "container/list.") && !strings.Contains(st, "typ.v4/lists.") {
						c.Count("list_orphan_cases_ended_by_reference_panic", 1)
						return
					}
					fail("panic", fmt.Sprintf("%s panicked: %v\n%s", name, pv, st))
				}
			}()
			switch op {
			case 0, 1:
				val++
				var g *lists.Element[int]
				var s *list.Element
				if op == 0 {
					name = fmt.Sprintf("l%d.PushFront(%d)", li, val)
					g, s = l.g.PushFront(val), l.s.PushFront(val)
				} else {
					name = fmt.Sprintf("l%d.PushBack(%d)", li, val)
					g, s = l.g.PushBack(val), l.s.PushBack(val)
				}
				hist = append(hist, name)
				if _, ok := reg(g, s); !ok {
					fail("Push:return", name+": returned element differs in nil-ness / identity from container/list")
					return
				}
			case 2, 3:
				id, _ := pickElem(li)
				if id < 0 {
					return
				}
				val++
				cl := classOf(id, li)
				var g *lists.Element[int]
				var s *list.Element
				if op == 2 {
					name = fmt.Sprintf("l%d.InsertBefore(%d, e%d[%s])", li, val, id, cl)
					g, s = l.g.InsertBefore(val, hs[id].g), l.s.InsertBefore(val, hs[id].s)
				} else {
					name = fmt.Sprintf("l%d.InsertAfter(%d, e%d[%s])", li, val, id, cl)
					g, s = l.g.InsertAfter(val, hs[id].g), l.s.InsertAfter(val, hs[id].s)
				}
				hist = append(hist, name)
				c.Count("insert_mark_"+cl, 1)
				if cl != "live-here" {
					nontrivial = true
				}
				if _, ok := reg(g, s); !ok {
					fail("Insert:return", fmt.Sprintf("%s: returned nil=%v, container/list nil=%v", name, g == nil, s == nil))
					return
				}
			case 4:
				id, _ := pickElem(li)
				if id < 0 {
					return
				}
				cl := classOf(id, li)
				name = fmt.Sprintf("l%d.Remove(e%d[%s])", li, id, cl)
				hist = append(hist, name)
				vg, vs := l.g.Remove(hs[id].g), l.s.Remove(hs[id].s)
				c.Count("remove_"+cl, 1)
				if cl != "live-here" {
					nontrivial = true
				}
				if vsi, _ := vs.(int); vg != vsi {
					fail("Remove:return", fmt.Sprintf("%s returned %d, container/list %v", name, vg, vs))
					return
				}
			case 5, 6:
				id, _ := pickElem(li)
				if id < 0 {
					return
				}
				cl := classOf(id, li)
				if op == 5 {
					name = fmt.Sprintf("l%d.MoveToFront(e%d[%s])", li, id, cl)
					l.g.MoveToFront(hs[id].g)
					l.s.MoveToFront(hs[id].s)
				} else {
					name = fmt.Sprintf("l%d.MoveToBack(e%d[%s])", li, id, cl)
					l.g.MoveToBack(hs[id].g)
					l.s.MoveToBack(hs[id].s)
				}
				hist = append(hist, name)
				c.Count("move_"+cl, 1)
			case 7, 8:
				id, _ := pickElem(li)
				mk, _ := pickElem(li)
				if id < 0 || mk < 0 {
					return
				}
				if r.Chance(1, 6) {
					mk = id
				}
				c1, c2 := classOf(id, li), classOf(mk, li)
				if op == 7 {
					name = fmt.Sprintf("l%d.MoveBefore(e%d[%s], e%d[%s])", li, id, c1, mk, c2)
					l.g.MoveBefore(hs[id].g, hs[mk].g)
					l.s.MoveBefore(hs[id].s, hs[mk].s)
				} else {
					name = fmt.Sprintf("l%d.MoveAfter(e%d[%s], e%d[%s])", li, id, c1, mk, c2)
					l.g.MoveAfter(hs[id].g, hs[mk].g)
					l.s.MoveAfter(hs[id].s, hs[mk].s)
				}
				hist = append(hist, name)
				c.Count("movepair_"+c1+"/"+c2, 1)
				if c1 != "live-here" || c2 != "live-here" {
					nontrivial = true
				}
			case 9:
				name = fmt.Sprintf("l%d.Init()", li)
				hist = append(hist, name)
				for e := l.s.Front(); e != nil; e = e.Next() {
					banned[idOfS(e)] = true
				}
				if l.g.Init() != l.g {
					fail("Init:return", "Init did not return its receiver")
					return
				}
				l.s.Init()
				c.Count("init", 1)
			case 10, 11:
				oi := r.Intn(nl)
				o := ls[oi]
				if op == 10 {
					name = fmt.Sprintf("l%d.PushBackList(l%d)", li, oi)
				} else {
					name = fmt.Sprintf("l%d.PushFrontList(l%d)", li, oi)
				}
				hist = append(hist, name)
				if o.s.Len() > 260 || (o.s.Len() > 60 && !r.Chance(1, 3)) || !sane(o) || !sane(l) {
					name = ""
					return
				}
				fmt.Fprintf(os.Stderr, "VWORK-OP %s (len %d)\n", name, o.s.Len())
				// the library under test first: a broken implementation of the self-push never returns
				if op == 10 {
					l.g.PushBackList(o.g)
					l.s.PushBackList(o.s)
				} else {
					l.g.PushFrontList(o.g)
					l.s.PushFrontList(o.s)
				}
				if oi == li {
					c.Count("pushlist_self", 1)
					nontrivial = true
				} else {
					c.Count("pushlist_other", 1)
				}
				// the copies are new elements: register them pairwise by walking both lists
				eg, es := l.g.Front(), l.s.Front()
				for n := 0; eg != nil && es != nil && n < 4000; n++ {
					if _, ok := reg(eg, es); !ok {
						fail("PushList:elements", name+": element identities diverge from container/list")
						return
					}
					eg, es = eg.Next(), es.Next()
				}
			case 12:
				name = fmt.Sprintf("l%d.Front/Back", li)
				hist = append(hist, name)
				if idOfG(l.g.Front()) != idOfS(l.s.Front()) || idOfG(l.g.Back()) != idOfS(l.s.Back()) {
					fail("Front/Back", fmt.Sprintf("Front/Back = %d/%d, container/list %d/%d", idOfG(l.g.Front()), idOfG(l.g.Back()), idOfS(l.s.Front()), idOfS(l.s.Back())))
					return
				}
			}
		}()
		if stop || failed {
			return
		}
		if name == "" {
			continue
		}
		hh = core.Mix(hh, core.HashString(name))
		c.Count("list_calls", 1)
		if !compare(name) {
			return
		}
	}
	if nontrivial {
		c.NonTrivial(hh)
	}
	if c.WantSample() {
		h := hist
		if len(h) > 30 {
			h = h[:30]
		}
		c.Sample(map[string]any{"kind": "list", "calls": len(hist), "history_prefix": h})
	}
}

type rh struct {
	g *lists.Ring[int]
	s *ring.Ring
}

func c06ring(c *core.Ctx) {
	r := c.R
	var hist []string
	fail := func(sig, msg string) {
		sig = stripDigits(sig)
		c.Violate("Ring."+sig, msg+fmt.Sprintf(" [after %d calls]", len(hist)), map[string]any{"history": append([]string{}, hist...)})
	}
	var hs []rh
	gid := map[*lists.Ring[int]]int{}
	sid := map[*ring.Ring]int{}
	reg := func(g *lists.Ring[int], s *ring.Ring) {
		id := len(hs)
		hs = append(hs, rh{g, s})
		gid[g], sid[s] = id, id
		g.Value, s.Value = id, id
	}
	idG := func(x *lists.Ring[int]) int {
		if x == nil {
			return -1
		}
		if id, ok := gid[x]; ok {
			return id
		}
		return -2
	}
	idS := func(x *ring.Ring) int {
		if x == nil {
			return -1
		}
		if id, ok := sid[x]; ok {
			return id
		}
		return -2
	}
	newRing := func(n int) bool {
		g, s := lists.NewRing[int](n), ring.New(n)
		hist = append(hist, fmt.Sprintf("NewRing(%d)", n))
		if (g == nil) != (s == nil) {
			fail("NewRing:nil", fmt.Sprintf("NewRing(%d) nil=%v, container/ring nil=%v", n, g == nil, s == nil))
			return false
		}
		if g == nil {
			c.Count("newring_nonpositive", 1)
			return true
		}
		// walk n steps on both, registering pairwise; then it must close
		pg, ps := g, s
		for i := 0; i < n; i++ {
			if _, seen := gid[pg]; seen {
				fail("NewRing:shape", fmt.Sprintf("NewRing(%d) closes after %d elements", n, i))
				return false
			}
			reg(pg, ps)
			pg, ps = pg.Next(), ps.Next()
		}
		if pg != g {
			fail("NewRing:shape", fmt.Sprintf("NewRing(%d) does not close after %d elements", n, n))
			return false
		}
		return true
	}
	structure := func(op string) bool {
		c.Count("observations", 1)
		for id, h := range hs {
			// zero-value rings initialise lazily on Next/Prev in both libraries
			ng, ns := idG(h.g.Next()), idS(h.s.Next())
			pg, ps := idG(h.g.Prev()), idS(h.s.Prev())
			if ng != ns || pg != ps {
				fail(op+":neighbours", fmt.Sprintf("after %s element %d: Next/Prev = %d/%d, container/ring %d/%d", op, id, ng, pg, ns, ps))
				return false
			}
			if h.g.Value != h.s.Value.(int) {
				fail(op+":value", fmt.Sprintf("after %s element %d carries %d vs %d", op, id, h.g.Value, h.s.Value))
				return false
			}
		}
		// the structure now equals the reference's, so Len and Do terminate
		for k := 0; k < 3 && len(hs) > 0; k++ {
			id := r.Intn(len(hs))
			h := hs[id]
			if h.g.Len() != h.s.Len() {
				fail(op+":Len", fmt.Sprintf("after %s Len from element %d is %d, container/ring %d", op, id, h.g.Len(), h.s.Len()))
				return false
			}
			var dg, ds []int
			// one Do in four: a callback that itself walks the ring (Len, a nested Do, Move)
			nestAt, nestBad := -1, ""
			if r.Chance(1, 4) {
				nestAt = r.Intn(h.s.Len())
			}
			h.g.Do(func(v int) {
				if len(dg) == nestAt {
					inner := 0
					h.g.Do(func(int) { inner++ })
					if inner != h.s.Len() || h.g.Len() != h.s.Len() || idG(h.g.Move(3)) != idS(h.s.Move(3)) {
						nestBad = fmt.Sprintf("nested Do made %d calls, nested Len()=%d, container/ring Len %d", inner, h.g.Len(), h.s.Len())
					}
					c.Count("nested_calls_in_do_callback", 1)
				}
				dg = append(dg, v)
			})
			h.s.Do(func(v any) { ds = append(ds, v.(int)) })
			// a callback may assign the Value of an element the walk has not reached yet (the
			// ring's structure is untouched): the later callback receives the new value
			if n := h.s.Len(); n >= 3 && nestAt < 0 && r.Chance(1, 4) {
				var ag, as []int
				tg, ts := h.g.Move(n-1), h.s.Move(n-1) // the last element of the walk
				og, os := tg.Value, ts.Value
				h.g.Do(func(v int) {
					if len(ag) == 0 {
						tg.Value = 424242
					}
					ag = append(ag, v)
				})
				h.s.Do(func(v any) {
					if len(as) == 0 {
						ts.Value = 424242
					}
					as = append(as, v.(int))
				})
				tg.Value, ts.Value = og, os
				if !eqSlice(ag, as) {
					fail(op+":Do-value-assigned-ahead", fmt.Sprintf("after %s a Do callback assigned the Value of the last element ahead of the walk: Do passed %v, container/ring passes %v", op, ag, as))
					return false
				}
				c.Count("ring_do_value_assigned_ahead", 1)
			}
			if nestBad != "" {
				fail(op+":Do-nested", fmt.Sprintf("after %s, inside the Do callback from element %d: %s", op, id, nestBad))
				return false
			}
			if !eqSlice(dg, ds) {
				fail(op+":Do", fmt.Sprintf("after %s Do from element %d visits %v, container/ring %v", op, id, dg, ds))
				return false
			}
		}
		return true
	}
	// initial rings
	k0 := r.Range(1, 3)
	for k := 0; k < k0; k++ {
		switch r.Intn(4) {
		case 0:
			reg(&lists.Ring[int]{}, &ring.Ring{}) // zero value ring
			hist = append(hist, "zero-value Ring")
			c.Count("ring_zero_value", 1)
			// the FIRST call on an untouched zero ring initialises it lazily: let it be
			// any of the calls, not always the Next/Prev of the structure check
			h := hs[len(hs)-1]
			first := r.Intn(6)
			name := []string{"Do", "Len", "Move(0)", "Move(3)", "Unlink(0)", "none"}[first]
			hist = append(hist, "first call on the zero ring: "+name)
			var bad string
			if p, pv := core.Catch(func() {
				switch first {
				case 0:
					var dg, ds []int
					h.g.Do(func(v int) { dg = append(dg, v) })
					h.s.Do(func(v any) { ds = append(ds, v.(int)) })
					if !eqSlice(dg, ds) {
						bad = fmt.Sprintf("Do visits %v, container/ring %v", dg, ds)
					}
				case 1:
					if h.g.Len() != h.s.Len() {
						bad = fmt.Sprintf("Len %d vs %d", h.g.Len(), h.s.Len())
					}
				case 2, 3:
					n := []int{0, 3}[first-2]
					if idG(h.g.Move(n)) != idS(h.s.Move(n)) {
						bad = "Move result differs"
					}
				case 4:
					if idG(h.g.Unlink(0)) != idS(h.s.Unlink(0)) {
						bad = "Unlink(0) result differs"
					}
				}
			}); p {
				fail("zero-ring-first-call:panic", fmt.Sprintf("%s as the first call on a zero-value Ring panicked: %v", name, pv))
				return
			}
			if bad != "" {
				fail("zero-ring-first-call", name+" as the first call on a zero-value Ring: "+bad)
				return
			}
		default:
			n := r.Range(-1, 7)
			if r.Chance(1, 12) {
				n = r.Range(50, 300)
			}
			if !newRing(n) {
				return
			}
		}
	}
	if len(hs) == 0 {
		if !newRing(r.Range(1, 5)) {
			return
		}
	}
	if !structure("setup") {
		return
	}
	nops := r.Range(1, 80)
	var hh uint64 = 66
	nontrivial := false
	for step := 0; step < nops; step++ {
		id := r.Intn(len(hs))
		h := hs[id]
		var name string
		switch r.Pick(6, 6, 10, 14, 10, 2, 4) {
		case 0:
			name = fmt.Sprintf("r%d.Next()", id)
			if idG(h.g.Next()) != idS(h.s.Next()) {
				fail("Next:return", name+" differs")
				return
			}
		case 1:
			name = fmt.Sprintf("r%d.Prev()", id)
			if idG(h.g.Prev()) != idS(h.s.Prev()) {
				fail("Prev:return", name+" differs")
				return
			}
		case 2:
			n := r.Range(-12, 12)
			if r.Chance(1, 6) {
				n = r.Range(-700, 700) // many laps
			}
			name = fmt.Sprintf("r%d.Move(%d)", id, n)
			if a, b := idG(h.g.Move(n)), idS(h.s.Move(n)); a != b {
				fail("Move:return", fmt.Sprintf("%s = element %d, container/ring %d", name, a, b))
				return
			}
			c.Count("ring_move", 1)
		case 3:
			o := r.Intn(len(hs))
			if r.Chance(1, 8) {
				o = id
			}
			rel := "other-or-same-ring"
			if o == id {
				rel = "itself"
			}
			name = fmt.Sprintf("r%d.Link(r%d)[%s]", id, o, rel)
			// same ring? decide on the reference
			same := false
			h.s.Do(func(v any) {
				if v.(int) == o {
					same = true
				}
			})
			if same {
				c.Count("ring_link_same_ring", 1)
			} else {
				c.Count("ring_link_other_ring", 1)
			}
			var a, b int
			if r.Chance(1, 12) {
				// the empty ring is the nil *Ring in both libraries
				name = fmt.Sprintf("r%d.Link(nil)[empty ring]", id)
				a, b = idG(h.g.Link(nil)), idS(h.s.Link(nil))
				c.Count("ring_link_empty_ring", 1)
			} else {
				a, b = idG(h.g.Link(hs[o].g)), idS(h.s.Link(hs[o].s))
			}
			nontrivial = true
			if a != b {
				fail("Link:return", fmt.Sprintf("%s returned element %d, container/ring %d", name, a, b))
				return
			}
		case 4:
			n := r.Range(-1, 9)
			switch r.Intn(8) {
			case 0: // many laps
				n = r.Range(10, 700)
			case 1: // whole laps: an exact multiple of the ring's length (removes nothing) and its neighbours
				n = h.s.Len()*r.Range(1, 80) + r.Range(-1, 1)
				c.Count("ring_unlink_whole_laps", 1)
			}
			name = fmt.Sprintf("r%d.Unlink(%d)", id, n)
			a, b := idG(h.g.Unlink(n)), idS(h.s.Unlink(n))
			c.Count("ring_unlink", 1)
			nontrivial = true
			if a != b {
				fail("Unlink:return", fmt.Sprintf("%s returned element %d, container/ring %d", name, a, b))
				return
			}
		case 5:
			if len(hs) > 60 {
				continue
			}
			if !newRing(r.Range(-1, 6)) {
				return
			}
			name = hist[len(hist)-1]
			hist = hist[:len(hist)-1]
		case 6:
			name = fmt.Sprintf("r%d.Len()", id)
		}
		hist = append(hist, name)
		hh = core.Mix(hh, core.HashString(name))
		c.Count("ring_calls", 1)
		if !structure(name) {
			return
		}
	}
	if nontrivial {
		c.NonTrivial(hh)
	}
	if c.WantSample() {
		hp := hist
		if len(hp) > 30 {
			hp = hp[:30]
		}
		c.Sample(map[string]any{"kind": "ring", "calls": len(hist), "history_prefix": hp})
	}
}

// stripDigits makes a call description a stable signature (handle numbers and
// values removed, argument classes kept).
func stripDigits(s string) string {
	out := make([]byte, 0, len(s))
	for i := 0; i < len(s); i++ {
		if s[i] >= '0' && s[i] <= '9' || s[i] == '-' && i+1 < len(s) && s[i+1] >= '0' && s[i+1] <= '9' {
			continue
		}
		out = append(out, s[i])
	}
	return string(out)
}

// c06big: one list and one ring with 1100..2600 elements, built by a mix of calls,
// walked in both directions, then emptied element by element and used again - sizes
// at which a fork with its own bookkeeping (cached lengths, index tables, free
// lists) changes behaviour, compared with the standard library all the way.
func c06big(c *core.Ctx) {
	r := c.R
	n := r.Range(1100, 2600)
	var phase string
	fail := func(sig, msg string) {
		c.Violate("big:"+sig, fmt.Sprintf("%s [%d elements, phase %s]", msg, n, phase), nil)
	}
	g, s := new(lists.List[int]), new(list.List)
	var es []eh
	same := func() bool {
		if g.Len() != s.Len() {
			fail("List.Len", fmt.Sprintf("Len()=%d, container/list %d", g.Len(), s.Len()))
			return false
		}
		eg, esd := g.Front(), s.Front()
		for i := 0; esd != nil; i++ {
			if eg == nil || eg.Value != esd.Value.(int) {
				fail("List.forward", fmt.Sprintf("forward traversal differs at position %d", i))
				return false
			}
			eg, esd = eg.Next(), esd.Next()
		}
		if eg != nil {
			fail("List.forward", "forward traversal is longer than container/list's")
			return false
		}
		eg, esd = g.Back(), s.Back()
		for i := 0; esd != nil; i++ {
			if eg == nil || eg.Value != esd.Value.(int) {
				fail("List.backward", fmt.Sprintf("backward traversal differs at position %d from the back", i))
				return false
			}
			eg, esd = eg.Prev(), esd.Prev()
		}
		if eg != nil {
			fail("List.backward", "backward traversal is longer than container/list's")
			return false
		}
		return true
	}
	phase = "fill"
	for i := 0; i < n; i++ {
		var e eh
		switch k := r.Intn(4); {
		case k == 0 || len(es) == 0:
			e = eh{g.PushBack(i), s.PushBack(i)}
		case k == 1:
			e = eh{g.PushFront(i), s.PushFront(i)}
		case k == 2:
			at := es[r.Intn(len(es))]
			e = eh{g.InsertAfter(i, at.g), s.InsertAfter(i, at.s)}
		default:
			at := es[r.Intn(len(es))]
			e = eh{g.InsertBefore(i, at.g), s.InsertBefore(i, at.s)}
		}
		if (e.g == nil) != (e.s == nil) {
			fail("List.insert", fmt.Sprintf("insertion %d returned nil in one library only", i))
			return
		}
		es = append(es, e)
		if i%512 == 511 && !same() {
			return
		}
	}
	if !same() {
		return
	}
	phase = "moves"
	for i := 0; i < 200; i++ {
		a, b := es[r.Intn(len(es))], es[r.Intn(len(es))]
		switch r.Intn(4) {
		case 0:
			g.MoveToFront(a.g)
			s.MoveToFront(a.s)
		case 1:
			g.MoveToBack(a.g)
			s.MoveToBack(a.s)
		case 2:
			g.MoveBefore(a.g, b.g)
			s.MoveBefore(a.s, b.s)
		case 3:
			g.MoveAfter(a.g, b.g)
			s.MoveAfter(a.s, b.s)
		}
	}
	if !same() {
		return
	}
	phase = "drain"
	for _, i := range r.Perm(len(es)) {
		e := es[i]
		switch r.Intn(3) {
		case 0:
			e = eh{g.Front(), s.Front()}
		case 1:
			e = eh{g.Back(), s.Back()}
		}
		if e.g == nil || e.s == nil {
			break // already removed through Front/Back: Remove of a removed element is a no-op in both
		}
		vg, vs := g.Remove(e.g), s.Remove(e.s)
		if vg != vs.(int) {
			fail("List.Remove", fmt.Sprintf("Remove returned %d, container/list %v", vg, vs))
			return
		}
		if g.Len()%256 == 0 && !same() {
			return
		}
	}
	for s.Len() > 0 {
		if g.Front() == nil {
			fail("List.Front", "Front() is nil although container/list still has elements")
			return
		}
		if vg, vs := g.Remove(g.Front()), s.Remove(s.Front()); vg != vs.(int) {
			fail("List.Remove", fmt.Sprintf("Remove(Front) returned %d, container/list %v", vg, vs))
			return
		}
	}
	if !same() {
		return
	}
	phase = "reuse"
	for i := 0; i < 10; i++ {
		if r.Bool() {
			g.PushBack(-i)
			s.PushBack(-i)
		} else {
			g.PushFront(-i)
			s.PushFront(-i)
		}
		if !same() {
			return
		}
	}
	// ring: n elements linked from pieces, walked, unlinked in laps down to one, re-linked
	phase = "ring"
	rg, rs := lists.NewRing[int](1), ring.New(1)
	rg.Value, rs.Value = 0, 0
	for built := 1; built < n; {
		k := r.Range(1, 300)
		pg, ps := lists.NewRing[int](k), ring.New(k)
		for j := 0; j < k; j++ {
			pg.Value, ps.Value = built+j, built+j
			pg, ps = pg.Next(), ps.Next()
		}
		rg.Link(pg)
		rs.Link(ps)
		built += k
		if r.Bool() {
			m := r.Range(-400, 400)
			rg, rs = rg.Move(m), rs.Move(m)
		}
	}
	sameRing := func() bool {
		if rg.Len() != rs.Len() {
			fail("Ring.Len", fmt.Sprintf("Len()=%d, container/ring %d", rg.Len(), rs.Len()))
			return false
		}
		var a, b []int
		rg.Do(func(v int) { a = append(a, v) })
		rs.Do(func(v any) { b = append(b, v.(int)) })
		if !eqSlice(a, b) {
			fail("Ring.Do", "Do visits other values than container/ring")
			return false
		}
		pg, ps := rg, rs
		for i := 0; i < len(b); i++ {
			pg, ps = pg.Prev(), ps.Prev()
			if pg.Value != ps.Value.(int) {
				fail("Ring.Prev", fmt.Sprintf("backward walk differs after %d steps", i+1))
				return false
			}
		}
		return true
	}
	if !sameRing() {
		return
	}
	for rs.Len() > 1 {
		k := r.Range(1, 400)
		ug, us := rg.Unlink(k), rs.Unlink(k)
		if (ug == nil) != (us == nil) || (us != nil && (ug.Len() != us.Len() || ug.Value != us.Value.(int))) {
			fail("Ring.Unlink", fmt.Sprintf("Unlink(%d) on a ring of %d returned another sub-ring than container/ring", k, rs.Len()))
			return
		}
		if !sameRing() {
			return
		}
		m := r.Range(-50, 50)
		rg, rs = rg.Move(m), rs.Move(m)
	}
	rg.Link(lists.NewRing[int](5))
	rs.Link(ring.New(5))
	if rg.Len() != rs.Len() {
		fail("Ring.Len", "Len differs after re-linking the shrunk ring")
		return
	}
	c.Count("big_list_and_ring_cases", 1)
	c.Max("max_list_or_ring_elements", int64(n))
	c.NonTrivial(core.Mix(c.Seed, uint64(n), 6))
}
