// Package plan is the fixed table of what each check runs: per property and
// tier, a list of modes with a constant number of cases (never a time budget).
// It is shared by the driver (which schedules worker processes) and the worker.
package plan

// Mode is one workload family of one property under one build.
type Mode struct {
	Name      string // workload family
	Build     string // plain | race | asan
	Cases     int64  // number of cases in this tier
	Batch     int64  // cases per worker process
	Par       int    // worker processes in parallel
	Procs     []int  // GOMAXPROCS, cycled per batch (nil: runtime default)
	NeedTag   bool   // needs the -tags verif hooks (skipped with an INCONCLUSIVE line otherwise)
	WatchdogS int    // per-case watchdog, seconds
	HangIs    string // "violation": deterministic case, confirmed by a re-run; "inconclusive"
	Go        string // "" (default toolchain) or "go1.26.8"
}

func seq(name string, cases, batch int64) Mode {
	return Mode{Name: name, Build: "plain", Cases: cases, Batch: batch, Par: 16, WatchdogS: 120, HangIs: "violation"}
}

func conc(name, build string, cases, batch int64, par int, procs ...int) Mode {
	return Mode{Name: name, Build: build, Cases: cases, Batch: batch, Par: par, Procs: procs, WatchdogS: 120, HangIs: "inconclusive"}
}

func tagged(m Mode) Mode           { m.NeedTag = true; return m }
func withGo(m Mode, g string) Mode { m.Go = g; return m }

// parProps: properties whose monitors are sequential; they get the extra mode "par"
// (several sequential cases at the same time on separate goroutines, race build and
// plain build) - see props.runPar.
var parProps = map[string]bool{"C01": true, "C02": true, "C03": true, "C06": true, "C07": true, "C08": true, "C11": true,
	"C12": true, "C13": true, "C14": true, "C15": true, "C16": true, "C20": true}

// Plan returns the modes of a property in a tier ("quick" or "thorough").
func Plan(prop, tier string) []Mode {
	ms := plan0(prop, tier)
	if parProps[prop] && len(ms) > 0 {
		q := tier != "thorough"
		n, b := int64(2000), int64(100)
		if q {
			n, b = 48, 6
		}
		ms = append(ms,
			Mode{Name: "par", Build: "race", Cases: n, Batch: b, Par: 8, Procs: []int{4, 16, 2, 8}, WatchdogS: 300, HangIs: "inconclusive"},
			Mode{Name: "par", Build: "plain", Cases: n, Batch: b, Par: 8, Procs: []int{16, 4, 2, 8}, WatchdogS: 300, HangIs: "inconclusive"})
	}
	if readersProps[prop] && len(ms) > 0 {
		q := tier != "thorough"
		n, b := int64(3000), int64(150)
		if q {
			n, b = 64, 8
		}
		ms = append(ms, Mode{Name: "readers", Build: "race", Cases: n, Batch: b, Par: 8, Procs: []int{4, 16, 2, 8}, WatchdogS: 120, HangIs: "inconclusive"})
	}
	return ms
}

// readersProps: sequential containers that get mode "readers" (one unmodified object read
// by several goroutines at once, race build) - see props/readers.go. C14 has its own.
var readersProps = map[string]bool{"C01": true, "C06": true, "C07": true, "C08": true, "C11": true, "C16": true}

func plan0(prop, tier string) []Mode {
	q := tier != "thorough"
	pick := func(quick, thorough int64) int64 {
		if q {
			return quick
		}
		return thorough
	}
	_ = pick
	switch prop {
	case "C01":
		return []Mode{seq("seq", pick(4000, 1000000), pick(250, 10000))}
	case "C07":
		return []Mode{seq("seq", pick(6000, 2500000), pick(400, 15000))}
	case "C08":
		return []Mode{seq("seq", pick(449, 100049), pick(30, 1000))}
	case "C11":
		return []Mode{seq("seq", pick(3625, 2000625), pick(125, 12500))}
	case "C12":
		return []Mode{seq("seq", pick(281, 100081), pick(20, 1000))}
	case "C13":
		return []Mode{seq("seq", pick(365, 30065), pick(25, 600))}
	case "C14":
		return []Mode{seq("seq", pick(2007, 600007), pick(130, 5000)),
			conc("readers", "race", pick(300, 20000), pick(50, 1000), 8, 4, 16, 2)}
	case "C15":
		return []Mode{seq("seq", pick(1008, 500008), pick(64, 4000))}
	case "C16":
		ms := []Mode{seq("seq", pick(10000, 5000000), pick(700, 40000))}
		if !q {
			// 2^32 + 2^22 values through ONE queue (case 0) and ONE stack (case 1): several minutes each
			ms = append(ms, Mode{Name: "marathon", Build: "plain", Cases: 2, Batch: 1, Par: 2, WatchdogS: 7200, HangIs: "inconclusive"})
		}
		return ms
	case "C20":
		ms := []Mode{seq("seq", pick(928, 100528), pick(32, 1000))}
		if !q {
			ms = append(ms, seq("full32", 256, 4))
		}
		return ms
	case "C03":
		return []Mode{seq("seq", pick(6000, 3000000), pick(400, 20000))}
	case "C06":
		return []Mode{seq("seq", pick(10000, 4000000), pick(700, 25000))}
	case "C04":
		ms := []Mode{
			seq("seq", pick(2000, 200000), pick(250, 5000)),
			tagged(Mode{Name: "tierb", Build: "plain", Cases: pick(60000, 20000000), Batch: pick(4000, 100000), Par: 16, WatchdogS: 120, HangIs: "violation"}),
			conc("lin", "plain", pick(3000, 90000), pick(250, 2000), 6, 1, 2, 4, 16),
			conc("lin", "race", pick(400, 20000), pick(50, 1000), 8, 2, 4, 16),
			conc("race", "race", pick(1000, 30000), pick(125, 1000), 6, 2, 4, 16, 8),
		}
		if !q {
			ms = append(ms, conc("race", "asan", 3000, 250, 6, 4, 16))
			ms = append(ms, withGo(conc("lin", "plain", 30000, 1000, 6, 1, 2, 4, 16), "go1.26.8"))
			ms = append(ms, withGo(conc("race", "race", 10000, 500, 6, 2, 4, 16), "go1.26.8"))
		}
		return ms
	case "C05":
		ms := []Mode{
			tagged(Mode{Name: "tierb", Build: "plain", Cases: pick(40000, 8000000), Batch: pick(2500, 50000), Par: 16, WatchdogS: 120, HangIs: "violation"}),
			conc("lin", "plain", pick(2000, 100000), pick(200, 2000), 6, 1, 2, 4, 16),
			conc("lin", "race", pick(300, 10000), pick(50, 500), 8, 2, 4, 16),
			conc("race", "race", pick(1000, 50000), pick(125, 1000), 6, 2, 4, 16, 8),
		}
		if !q {
			ms = append(ms, conc("race", "asan", 3000, 250, 6, 4, 16))
			ms = append(ms, withGo(conc("lin", "plain", 30000, 1000, 6, 1, 2, 4, 16), "go1.26.8"))
			ms = append(ms, withGo(conc("race", "race", 10000, 500, 6, 2, 4, 16), "go1.26.8"))
		}
		return ms
	case "C09":
		ms := []Mode{
			tagged(Mode{Name: "tierb", Build: "plain", Cases: pick(40000, 8000000), Batch: pick(2500, 50000), Par: 16, WatchdogS: 120, HangIs: "violation"}),
			conc("free", "plain", pick(600, 30000), pick(60, 600), 6, 1, 2, 4, 16),
			conc("free", "race", pick(500, 25000), pick(50, 500), 8, 2, 4, 16, 8),
		}
		if !q {
			ms = append(ms, withGo(conc("free", "race", 6000, 300, 6, 2, 4, 16), "go1.26.8"))
		}
		return ms
	case "C17":
		ms := []Mode{
			conc("free", "plain", pick(1500, 80000), pick(150, 2000), 6, 1, 2, 4, 16),
			conc("free", "race", pick(800, 40000), pick(100, 1000), 8, 2, 4, 16, 8),
		}
		if !q {
			ms = append(ms, withGo(conc("free", "race", 8000, 500, 6, 2, 4, 16), "go1.26.8"))
		}
		return ms
	case "C18":
		ms := []Mode{
			conc("reg", "plain", pick(3000, 150000), pick(250, 3000), 6, 1, 2, 4, 16),
			conc("reg", "race", pick(300, 10000), pick(50, 500), 8, 2, 4, 16),
			conc("race", "race", pick(800, 40000), pick(100, 1000), 8, 2, 4, 16, 8),
			conc("pool", "plain", pick(1000, 50000), pick(100, 1000), 6, 2, 4, 16),
			conc("pool", "race", pick(800, 40000), pick(100, 1000), 8, 2, 4, 16, 8),
		}
		if !q {
			ms = append(ms, withGo(conc("pool", "race", 8000, 500, 6, 2, 4, 16), "go1.26.8"))
			ms = append(ms, withGo(conc("race", "race", 8000, 500, 6, 2, 4, 16), "go1.26.8"))
		}
		return ms
	case "C19":
		ms := []Mode{
			seq("queued", 72, 6),
			conc("timed", "plain", pick(1500, 60000), pick(125, 1500), 12, 2, 4, 16, 1),
			conc("timed", "race", pick(500, 20000), pick(50, 500), 10, 2, 4, 16),
		}
		if !q {
			ms = append(ms, withGo(conc("timed", "race", 5000, 250, 10, 2, 4, 16), "go1.26.8"))
		}
		return ms
	case "C10":
		ms := []Mode{
			conc("stable", "plain", pick(2400, 100000), pick(100, 1000), 12, 2, 4, 16, 1),
			conc("stable", "race", pick(800, 30000), pick(50, 500), 10, 2, 4, 16),
			conc("churn", "plain", pick(1000, 40000), pick(50, 500), 12, 2, 4, 16, 1),
			conc("churn", "race", pick(400, 15000), pick(40, 400), 10, 2, 4, 16),
			conc("churn-sub", "plain", pick(600, 30000), pick(50, 500), 12, 2, 4, 16, 1),
			conc("churn-sub", "race", pick(200, 8000), pick(40, 400), 10, 2, 4, 16),
			conc("churn-async", "plain", pick(64, 640), 4, 8, 4, 16),
			conc("churn-withonly", "plain", pick(32, 320), 4, 8, 4, 16),
		}
		return ms
	case "C02":
		return []Mode{seq("seq", pick(600, 160000), pick(40, 1000))}
	}
	return nil
}

// Props lists the property ids that have a plan.
func Props() []string {
	var out []string
	for _, p := range []string{"C01", "C02", "C03", "C04", "C05", "C06", "C07", "C08", "C09", "C10",
		"C11", "C12", "C13", "C14", "C15", "C16", "C17", "C18", "C19", "C20"} {
		if len(Plan(p, "quick")) > 0 {
			out = append(out, p)
		}
	}
	return out
}

var _ = []any{seq, conc, tagged, withGo}
