package core

import (
	"regexp"
	"runtime"
	"strings"
	"sync"
	"time"
)

// Deadlock detection as a LOGICAL fact, not a timeout: runtime.Stack(all)
// stops the world and lists every goroutine with its wait state. If every
// goroutine of the scenario is parked on a channel operation, a mutex, a
// WaitGroup or a Cond - none running, runnable, sleeping, in a select (which
// may contain a timer) or in a system call - then nothing can ever wake any
// of them: the scenario is deadlocked. Goroutines of the harness itself (the
// caller, the worker's watchdog) are ignored: by construction they do not
// touch the scenario until it has finished.
//
// Only usable in scenarios without hidden wake-up sources (time.AfterFunc,
// pending context deadlines): those have no goroutine to show for them.

var reGoHeader = regexp.MustCompile(`^goroutine (\d+) \[([^\]]+)\]:`)

var blockedStates = []string{"chan receive", "chan send", "semacquire", "sync.Mutex.Lock", "sync.RWMutex.RLock",
	"sync.RWMutex.Lock", "sync.WaitGroup.Wait", "sync.Cond.Wait", "select (no cases)"}

// Deadlocked reports whether all goroutines other than harness ones are parked
// for good, and a compact description of where they are parked.
func Deadlocked() (bool, string) {
	buf := make([]byte, 1<<20)
	n := runtime.Stack(buf, true)
	blocks := strings.Split(string(buf[:n]), "\n\n")
	var where []string
	scenario := 0
	for _, b := range blocks {
		lines := strings.Split(strings.TrimSpace(b), "\n")
		if len(lines) == 0 {
			continue
		}
		m := reGoHeader.FindStringSubmatch(lines[0])
		if m == nil {
			continue
		}
		state := m[2]
		if i := strings.Index(state, ","); i >= 0 {
			state = state[:i] // drop ", 2 minutes" / ", locked to thread"
		}
		// harness goroutines
		if strings.Contains(b, "internal/core.Deadlocked") || strings.Contains(b, "internal/core.WaitOrDeadlock") ||
			strings.Contains(b, "main.main.func") || strings.Contains(b, "os/signal.") || strings.Contains(b, "runtime.ensureSigM") {
			continue
		}
		scenario++
		ok := false
		for _, s := range blockedStates {
			if state == s || strings.HasPrefix(state, s+" ") {
				ok = true
			}
		}
		if !ok {
			return false, ""
		}
		top := ""
		for _, l := range lines[1:] {
			l = strings.TrimSpace(l)
			if strings.HasPrefix(l, "gopkg.in/typ.v4/") {
				top = l
				if i := strings.LastIndex(top, "("); i > 0 {
					top = top[:i]
				}
				break
			}
		}
		where = append(where, state+" in "+strings.TrimPrefix(top, "gopkg.in/typ.v4/"))
	}
	if scenario == 0 {
		return false, ""
	}
	return true, strings.Join(where, "; ")
}

// WaitOrDeadlock waits for wg. It returns "done" when wg finished, "deadlock"
// (with a description) when the scenario is provably deadlocked, or "timeout"
// when the generous wall clock expired without such a proof (inconclusive).
func WaitOrDeadlock(wg *sync.WaitGroup, first, max time.Duration) (string, string) {
	done := make(chan struct{})
	go func() { wg.Wait(); close(done) }()
	start := time.Now()
	wait := first
	for {
		select {
		case <-done:
			return "done", ""
		case <-time.After(wait):
		}
		// the helper goroutine above is parked in WaitGroup.Wait: part of the picture, fine
		if dl, where := Deadlocked(); dl {
			// confirm on a second snapshot a little later (belt and braces)
			time.Sleep(50 * time.Millisecond)
			if dl2, _ := Deadlocked(); dl2 {
				select {
				case <-done:
					return "done", ""
				default:
				}
				return "deadlock", where
			}
		}
		if time.Since(start) > max {
			return "timeout", ""
		}
		wait = 500 * time.Millisecond
	}
}

// PatientWait waits for done, at most d - where d is counted in forty steps and no single
// step counts for more than two: a stall of the whole process or a jump of the clock (a
// virtual machine that is paused and resumed) uses up two steps, not the whole budget, and
// the goroutines being waited for get the remaining steps to finish. Returns whether done
// was closed. For verdicts of the kind "has not returned after 60 s although everything it
// could wait for happened within milliseconds".
func PatientWait(done <-chan struct{}, d time.Duration) bool {
	step := d / 40
	if step <= 0 {
		step = time.Millisecond
	}
	var elapsed time.Duration
	for elapsed < d {
		t0 := time.Now()
		select {
		case <-done:
			return true
		case <-time.After(step):
		}
		dt := time.Since(t0)
		if dt > 2*step {
			dt = 2 * step
		}
		elapsed += dt
	}
	select {
	case <-done:
		return true
	default:
		return false
	}
}
