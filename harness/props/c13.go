package props

import (
	"fmt"
	"math"
	"runtime"
	"sync"

	"gopkg.in/typ.v4/slices"
	"verifharness/internal/core"
)

// C13 — Chunk, Windowed and Pairs partition a slice exactly.
// Naive-loop reference. Every (n, size) with n 0..64 and size 1..70 is checked
// in every run (case index i < 65 <-> n = i, all sizes); further cases draw
// random n <= 5000. Contents only: whether pieces alias the input is not part
// of the property.

func init() { register("C13", runC13) }

func runC13(c *core.Ctx) {
	r := c.R
	if c.Index < 65 {
		n := int(c.Index)
		for size := 1; size <= 70; size++ {
			if !partCheck(c, n, size) {
				return
			}
		}
		// sizes used as "no limit": arithmetic on them must not overflow
		for _, size := range []int{math.MaxInt, math.MaxInt - 1, math.MaxInt - n, math.MaxInt - n + 1, math.MaxInt/2 + 1, 1 << 62, 1 << 31} {
			if size >= 1 && !partCheck(c, n, size) {
				return
			}
		}
		if n == 64 {
			// once per run: inputs far beyond any internal threshold (parallel paths,
			// float arithmetic on lengths)
			big := 65536 + 4321
			for _, size := range []int{1, 2, 1000, big - 1, big, big + 1} {
				if !partCheck(c, big, size) {
					return
				}
			}
			if !hugeChunks(c) {
				return
			}
			// several goroutines, each on a big slice of its own, inside the helpers at the same
			// time (results of >= 32768 pieces): nothing may be shared between the calls
			{
				var wg sync.WaitGroup
				bad := make([]string, 4)
				for g := 0; g < 4; g++ {
					wg.Add(1)
					go func(g int) {
						defer wg.Done()
						m := 40000 + 1000*g
						own := make([]int, m)
						for i := range own {
							own[i] = g*1000000 + i
						}
						for rep := 0; rep < 3 && bad[g] == ""; rep++ {
							w := slices.Windowed(own, 2)
							ch := slices.Chunk(own, 1)
							pr := slices.Pairs(own)
							if len(w) != m-1 || len(ch) != m || len(pr) != m-1 {
								bad[g] = fmt.Sprintf("counts %d/%d/%d for %d elements", len(w), len(ch), len(pr), m)
								break
							}
							for i := 0; i < m-1; i += 97 {
								if len(w[i]) != 2 || w[i][0] != own[i] || w[i][1] != own[i+1] || len(ch[i]) != 1 || ch[i][0] != own[i] || pr[i] != [2]int{own[i], own[i+1]} {
									bad[g] = fmt.Sprintf("piece %d is wrong", i)
									break
								}
							}
						}
					}(g)
				}
				wg.Wait()
				for g, b := range bad {
					if b != "" {
						c.Violate("concurrent-calls-on-separate-slices", fmt.Sprintf("goroutine %d of 4, each calling Windowed/Chunk/Pairs on a big slice of its own at the same time: %s", g, b), nil)
						return
					}
				}
				c.Count("concurrent_big_calls_on_separate_slices", 1)
			}
			// the same big input under other processor settings (1 < GOMAXPROCS < NumCPU
			// included): work that is split by one number and started by another
			old := runtime.GOMAXPROCS(0)
			for _, procs := range []int{1, 2, 3, runtime.NumCPU()/2 + 1, 2 * runtime.NumCPU()} {
				runtime.GOMAXPROCS(procs)
				ok := partCheck(c, big, 1) && partCheck(c, big, 2) && partCheck(c, 40000, 1)
				runtime.GOMAXPROCS(old)
				if !ok {
					return
				}
				c.Count("big_inputs_under_other_GOMAXPROCS", 1)
			}
			c.Count("big_inputs_checked", 1)
		}
		// Pairs/PairsFunc around block boundaries of a chunked implementation, and all
		// three helpers over an element type larger than 128 bytes
		for _, base := range []int{64, 128, 256, 512, 768, 1024, 2048, 4096} {
			m := base + n%9 - 4
			if !pairsCheck(c, m) {
				return
			}
		}
		if !bigElemCheck(c, n) {
			return
		}
		c.Count("exhaustive_sweeps_completed", 1)
		c.NonTrivial(core.Mix(13, uint64(n)))
		if c.WantSample() {
			c.Sample(map[string]any{"systematic": true, "n": n, "sizes": "1..70"})
		}
		return
	}
	n := r.Range(0, 5000)
	if c.Mode == "par" {
		n = r.Range(0, 600) // several cases at once under the race detector: smaller inputs
	}
	if !pairsCheck(c, n) || !bigElemCheck(c, n%300) {
		return
	}
	for k := 0; k < 12; k++ {
		var size int
		switch r.Intn(5) {
		case 0:
			size = r.Range(1, 8)
		case 1:
			size = r.Range(1, n+1)
		case 2:
			size = n + r.Range(0, 3)
		case 3:
			if n > 0 {
				size = n/r.Range(1, 9) + r.Intn(2)
			}
		case 4:
			size = r.Range(1, 5100)
		}
		if size < 1 {
			size = 1
		}
		if !partCheck(c, n, size) {
			return
		}
	}
	c.NonTrivial(core.Mix(14, c.Seed))
}

// c13nested runs the three callback variants on a small second slice and reports
// whether they behaved; used from inside callbacks of an outer call (a helper that
// keeps scratch state between calls mixes the two up).
func c13nested(n, size int) string {
	in := make([]int, n)
	for i := range in {
		in[i] = 70000 + i
	}
	var cat []int
	pieces := 0
	slices.ChunkFunc(in, size, func(ch []int) { cat = append(cat, ch...); pieces++ })
	if !eqSlice(cat, in) || pieces != (n+size-1)/size {
		return fmt.Sprintf("a nested ChunkFunc over %d elements by %d saw %d pieces / wrong contents", n, size, pieces)
	}
	w := 0
	bad := false
	slices.WindowedFunc(in, size, func(win []int) {
		if len(win) != size || win[0] != 70000+w {
			bad = true
		}
		w++
	})
	if wantW := n - size + 1; bad || (wantW > 0 && w != wantW) || (wantW <= 0 && w != 0) {
		return fmt.Sprintf("a nested WindowedFunc over %d elements by %d saw %d windows (bad=%v)", n, size, w, bad)
	}
	np := 0
	slices.PairsFunc(in, func(a, b int) {
		if a != 70000+np || b != a+1 {
			bad = true
		}
		np++
	})
	if bad || (n > 0 && np != n-1) || (n == 0 && np != 0) {
		return fmt.Sprintf("a nested PairsFunc over %d elements made %d calls (bad=%v)", n, np, bad)
	}
	return ""
}

func partCheck(c *core.Ctx, n, size int) bool {
	// the input has spare capacity holding sentinels: pieces must be cut from
	// len(slice), never from cap(slice)
	spare := (n + size%4) % 4
	in := make([]int, n, n+spare)
	if n == 0 && size%2 == 0 {
		in, spare = nil, 0 // the nil slice is an empty input too
	}
	for i := range in {
		in[i] = i + 1
	}
	for i := n; i < n+spare; i++ {
		in[:n+spare][i] = -1000 - i
	}
	snap := append([]int(nil), in...)
	tag := fmt.Sprintf("[n=%d size=%d rem=%d spare-capacity=%d]", n, size, n%size, spare)
	cls := "rem0"
	switch {
	case size > n:
		cls = "size>n"
	case size == n:
		cls = "size=n"
	case n%size == 1:
		cls = "rem1"
	case n%size > 1:
		cls = "rem>=2"
	}
	fail := func(sig, msg string) bool {
		c.Violate(sig+"["+cls+"]", msg+" "+tag, map[string]any{"n": n, "size": size})
		return false
	}
	c.Count("pairs_n_size_checked", 1)
	c.Count("class_"+cls, 1)
	// ---- Chunk
	var want [][]int
	for i := 0; i < n; {
		j := n
		if size < n-i {
			j = i + size
		}
		want = append(want, snap[i:j])
		i = j
	}
	var got [][]int
	if p, pv := core.Catch(func() { got = slices.Chunk(in, size) }); p {
		return fail("Chunk:panic", fmt.Sprintf("Chunk panicked: %v", pv))
	}
	if len(got) != len(want) {
		return fail("Chunk:count", fmt.Sprintf("Chunk returned %d pieces (lengths %v), ceil(n/size)=%d", len(got), pieceLens(got), len(want)))
	}
	var cat []int
	for i := range got {
		if len(got[i]) == 0 {
			return fail("Chunk:empty-piece", fmt.Sprintf("piece %d is empty", i))
		}
		if !eqSlice(got[i], want[i]) {
			return fail("Chunk:piece", fmt.Sprintf("piece %d is %v want %v", i, clip(got[i]), clip(want[i])))
		}
		cat = append(cat, got[i]...)
	}
	if !eqSlice(cat, snap) {
		return fail("Chunk:concatenation", "concatenation of chunks differs from the input")
	}
	var cb [][]int
	// one callback in four also calls the helpers itself, on another slice
	r := c.R
	nestAt, nestMsg := -1, ""
	if r.Chance(1, 4) {
		nestAt = r.Intn(len(want) + 1)
	}
	nestAll := nestAt >= 0 && r.Bool() // ... or every one of the first six callbacks does
	nest := func(k int) {
		if (k == nestAt || nestAll && k < 6) && nestMsg == "" {
			nestMsg = c13nested(r.Intn(40), r.Range(1, 9))
			c.Count("nested_calls_in_callbacks", 1)
		}
	}
	if p, pv := core.Catch(func() {
		slices.ChunkFunc(in, size, func(ch []int) { nest(len(cb)); cb = append(cb, append([]int(nil), ch...)) })
	}); p {
		return fail("ChunkFunc:panic", fmt.Sprintf("ChunkFunc panicked: %v", pv))
	}
	if nestMsg != "" {
		return fail("ChunkFunc:nested-call", "inside a ChunkFunc callback: "+nestMsg)
	}
	if !eq2D(cb, want) {
		return fail("ChunkFunc:sequence", fmt.Sprintf("ChunkFunc callback saw %d pieces (lengths %v), expected %d", len(cb), pieceLens(cb), len(want)))
	}
	// ---- Windowed
	want = nil
	for i := 0; size <= n-i; i++ {
		want = append(want, snap[i:i+size])
	}
	got = nil
	if p, pv := core.Catch(func() { got = slices.Windowed(in, size) }); p {
		return fail("Windowed:panic", fmt.Sprintf("Windowed panicked: %v", pv))
	}
	if !eq2D(got, want) {
		return fail("Windowed:windows", fmt.Sprintf("Windowed returned %d windows (lengths %v), expected %d of length %d", len(got), pieceLens(got), len(want), size))
	}
	cb = nil
	if p, pv := core.Catch(func() {
		slices.WindowedFunc(in, size, func(w []int) { nest(len(cb)); cb = append(cb, append([]int(nil), w...)) })
	}); p {
		return fail("WindowedFunc:panic", fmt.Sprintf("WindowedFunc panicked: %v", pv))
	}
	if nestMsg != "" {
		return fail("WindowedFunc:nested-call", "inside a WindowedFunc callback: "+nestMsg)
	}
	if !eq2D(cb, want) {
		return fail("WindowedFunc:sequence", fmt.Sprintf("WindowedFunc callback saw %d windows, expected %d", len(cb), len(want)))
	}
	// ---- Pairs (size plays no role; checked once per n and class to keep the work bounded)
	if size == 1 || size == n || size == n+1 {
		var wp [][2]int
		for i := 0; i+1 < n; i++ {
			wp = append(wp, [2]int{snap[i], snap[i+1]})
		}
		var gp [][2]int
		if p, pv := core.Catch(func() { gp = slices.Pairs(in) }); p {
			return fail("Pairs:panic", fmt.Sprintf("Pairs panicked: %v", pv))
		}
		if !eqSlice(gp, wp) {
			return fail("Pairs:pairs", fmt.Sprintf("Pairs returned %d pairs, expected %d", len(gp), len(wp)))
		}
		var cp [][2]int
		if p, pv := core.Catch(func() {
			slices.PairsFunc(in, func(a, b int) { nest(len(cp)); cp = append(cp, [2]int{a, b}) })
		}); p {
			return fail("PairsFunc:panic", fmt.Sprintf("PairsFunc panicked: %v", pv))
		}
		if nestMsg != "" {
			return fail("PairsFunc:nested-call", "inside a PairsFunc callback: "+nestMsg)
		}
		if !eqSlice(cp, wp) {
			return fail("PairsFunc:sequence", fmt.Sprintf("PairsFunc callback saw %d pairs, expected %d", len(cp), len(wp)))
		}
		c.Count("pairs_checked", 1)
	}
	if !eqSlice(in, snap) {
		return fail("input-modified", "the input slice was modified")
	}
	// the helpers instantiated with a DEFINED slice type (type myInts []int): same pieces
	{
		type myInts []int
		mi := myInts(in)
		gc, gw := slices.Chunk(mi, size), slices.Windowed(mi, size)
		pc, pw := slices.Chunk(in, size), slices.Windowed(in, size)
		okN := len(gc) == len(pc) && len(gw) == len(pw)
		for i := 0; okN && i < len(gc); i++ {
			okN = eqSlice([]int(gc[i]), pc[i])
		}
		for i := 0; okN && i < len(gw); i++ {
			okN = eqSlice([]int(gw[i]), pw[i])
		}
		var fc int
		slices.ChunkFunc(mi, size, func(myInts) { fc++ })
		if !okN || fc != len(pc) || len(slices.Pairs(mi)) != len(slices.Pairs(in)) {
			return fail("defined-slice-type", fmt.Sprintf("with a defined slice type (type myInts []int) Chunk/Windowed/ChunkFunc/Pairs give %d/%d/%d pieces, with []int %d/%d/%d", len(gc), len(gw), fc, len(pc), len(pw), len(pc)))
		}
	}
	// a callback that panics half way (the caller recovers), then ordinary calls
	if n >= 2 && size <= n {
		try := func(f func()) { defer func() { recover() }(); f() }
		k := 0
		try(func() {
			slices.WindowedFunc(in, size, func([]int) {
				k++
				if k == 2 || n-size+1 < 2 {
					panic("callback panics")
				}
			})
		})
		k = 0
		try(func() {
			slices.ChunkFunc(in, size, func([]int) {
				k++
				if k == 2 || (n+size-1)/size < 2 {
					panic("callback panics")
				}
			})
		})
		k = 0
		try(func() {
			slices.PairsFunc(in, func(a, b int) {
				k++
				if k == 2 || n < 3 {
					panic("callback panics")
				}
			})
		})
		w, ch, pr := 0, 0, 0
		slices.WindowedFunc(in, size, func([]int) { w++ })
		slices.ChunkFunc(in, size, func([]int) { ch++ })
		slices.PairsFunc(in, func(a, b int) { pr++ })
		if w != n-size+1 || ch != (n+size-1)/size || pr != n-1 {
			return fail("after-panicking-callback", fmt.Sprintf("after calls whose callbacks panicked (recovered by the caller), WindowedFunc/ChunkFunc/PairsFunc made %d/%d/%d calls, expected %d/%d/%d", w, ch, pr, n-size+1, (n+size-1)/size, n-1))
		}
	}
	// the same slice changed in place and passed again: the helpers must look at it
	// afresh (a result remembered by the slice's identity would be stale)
	if n >= 2 {
		p1 := slices.Pairs(in)
		w1 := slices.Windowed(in, size)
		c1 := slices.Chunk(in, size)
		_, _, _ = p1, w1, c1
		in[0], in[n-1] = -4242, -4343
		p2 := slices.Pairs(in)
		var fp [][2]int
		slices.PairsFunc(in, func(a, b int) { fp = append(fp, [2]int{a, b}) })
		if len(p2) != n-1 || p2[0][0] != -4242 || p2[n-2][1] != -4343 || !eqSlice(p2, fp) {
			in[0], in[n-1] = snap[0], snap[n-1]
			return fail("Pairs:stale-after-in-place-change", "Pairs called again after the slice was changed in place does not show the change (or disagrees with PairsFunc)")
		}
		c2 := slices.Chunk(in, size)
		if len(c2) == 0 || c2[0][0] != -4242 || c2[len(c2)-1][len(c2[len(c2)-1])-1] != -4343 {
			in[0], in[n-1] = snap[0], snap[n-1]
			return fail("Chunk:stale-after-in-place-change", "Chunk called again after the slice was changed in place does not show the change")
		}
		if size <= n {
			w2 := slices.Windowed(in, size)
			if len(w2) == 0 || w2[0][0] != -4242 || w2[len(w2)-1][size-1] != -4343 {
				in[0], in[n-1] = snap[0], snap[n-1]
				return fail("Windowed:stale-after-in-place-change", "Windowed called again after the slice was changed in place does not show the change")
			}
		}
		in[0], in[n-1] = snap[0], snap[n-1]
	}
	// results kept across later calls on other data must not change
	if n > 0 && n <= 300 {
		kc, kw, kp := slices.Chunk(in, size), slices.Windowed(in, size), slices.Pairs(in)
		lc, lw := pieceLens(kc), pieceLens(kw)
		var firstC, firstW []int
		if len(kc) > 0 {
			firstC = append([]int(nil), kc[0]...)
		}
		if len(kw) > 0 {
			firstW = append([]int(nil), kw[0]...)
		}
		sp := append([][2]int(nil), kp...)
		otherIn := make([]int, n+3)
		for i := range otherIn {
			otherIn[i] = -5000 - i
		}
		_ = slices.Chunk(otherIn, size)
		_ = slices.Windowed(otherIn, size)
		_ = slices.Pairs(otherIn)
		if !eqSlice(pieceLens(kc), lc) || !eqSlice(pieceLens(kw), lw) || (len(kc) > 0 && !eqSlice(kc[0], firstC)) || (len(kw) > 0 && !eqSlice(kw[0], firstW)) || !eqSlice(kp, sp) {
			return fail("result-changed-by-later-call", "what Chunk/Windowed/Pairs returned changed when they were called again on another slice")
		}
	}
	return true
}

func pieceLens(p [][]int) []int {
	out := make([]int, 0, len(p))
	for i, x := range p {
		if i >= 12 {
			break
		}
		out = append(out, len(x))
	}
	return out
}

func eq2D(a, b [][]int) bool {
	if len(a) != len(b) {
		return false
	}
	for i := range a {
		if !eqSlice(a[i], b[i]) {
			return false
		}
	}
	return true
}

// hugeChunks: zero-size elements allow slices longer than 2^53 (where float64
// arithmetic on lengths stops being exact) at no memory cost. Only piece counts
// and lengths are judged; sizes are chosen so that few pieces result.
func hugeChunks(c *core.Ctx) bool {
	type z = struct{}
	cases := [][2]int{{1<<53 + 1, 1 << 52}, {1<<53 + 3, 1<<52 + 1}, {1<<62 + 5, 1 << 61}, {1<<55 + 1, 1 << 55}, {1 << 60, math.MaxInt},
		{math.MaxInt, math.MaxInt}, {math.MaxInt, math.MaxInt - 2}, {math.MaxInt, math.MaxInt/2 + 1}, {math.MaxInt - 1, math.MaxInt}, {math.MaxInt, 1 << 61}}
	// Windowed / WindowedFunc at the largest possible lengths: few windows, huge sizes
	for _, cs := range [][2]int{{math.MaxInt, math.MaxInt}, {math.MaxInt, math.MaxInt - 3}, {math.MaxInt - 1, math.MaxInt - 2}, {math.MaxInt - 1, math.MaxInt}, {1 << 62, 1<<62 - 2}} {
		n, size := cs[0], cs[1]
		in := make([]z, n)
		want := n - size + 1
		if want < 0 {
			want = 0
		}
		calls, badLen := 0, false
		var got [][]z
		if p, pv := core.Catch(func() {
			slices.WindowedFunc(in, size, func(w []z) {
				calls++
				if len(w) != size {
					badLen = true
				}
			})
			got = slices.Windowed(in, size)
		}); p {
			c.Violate("WindowedFunc:panic[huge]", fmt.Sprintf("Windowed/WindowedFunc of %d zero-size elements by %d panicked after %d callback calls: %v", n, size, calls, pv), nil)
			return false
		}
		if calls != want || badLen || len(got) != want {
			c.Violate("WindowedFunc:sequence[huge]", fmt.Sprintf("WindowedFunc of %d zero-size elements by %d made %d calls (wrong length: %v), Windowed returned %d windows, expected %d", n, size, calls, badLen, len(got), want), nil)
			return false
		}
	}
	for _, cs := range cases {
		n, size := cs[0], cs[1]
		in := make([]z, n)
		var want []int
		for rest := n; rest > 0; {
			k := size
			if rest < size {
				k = rest
			}
			want = append(want, k)
			rest -= k
		}
		got := slices.Chunk(in, size)
		var gl []int
		for _, p := range got {
			gl = append(gl, len(p))
		}
		if !eqSlice(gl, want) {
			c.Violate("Chunk:count[huge]", fmt.Sprintf("Chunk of %d zero-size elements by %d returned pieces of lengths %v, expected %v", n, size, gl, want), nil)
			return false
		}
		var cl []int
		slices.ChunkFunc(in, size, func(p []z) { cl = append(cl, len(p)) })
		if !eqSlice(cl, want) {
			c.Violate("ChunkFunc:sequence[huge]", fmt.Sprintf("ChunkFunc of %d zero-size elements by %d saw pieces of lengths %v, expected %v", n, size, cl, want), nil)
			return false
		}
	}
	return true
}

func pairsCheck(c *core.Ctx, n int) bool {
	if n < 0 {
		n = 0
	}
	if n <= 300 {
		// zero-size elements: nothing to copy, but the number of pairs / pieces is the same
		type z = struct{}
		zs := make([]z, n)
		var gp [][2]z
		var gw, gc [][]z
		calls := 0
		if p, pv := core.Catch(func() {
			gp = slices.Pairs(zs)
			slices.PairsFunc(zs, func(a, b z) { calls++ })
			gw = slices.Windowed(zs, 2)
			gc = slices.Chunk(zs, 3)
		}); p {
			c.Violate("Pairs:zero-size-elements", fmt.Sprintf("Pairs/PairsFunc/Windowed/Chunk over %d zero-size elements panicked: %v", n, pv), nil)
			return false
		}
		wantP := n - 1
		if wantP < 0 {
			wantP = 0
		}
		if len(gp) != wantP || calls != wantP || len(gw) != wantP || len(gc) != (n+2)/3 {
			c.Violate("Pairs:zero-size-elements", fmt.Sprintf("over %d zero-size elements: Pairs %d, PairsFunc %d calls, Windowed(2) %d, Chunk(3) %d", n, len(gp), calls, len(gw), len(gc)), nil)
			return false
		}
	}
	in := make([]int, n, n+1)
	for i := range in {
		in[i] = i + 1
	}
	var want [][2]int
	for i := 0; i+1 < n; i++ {
		want = append(want, [2]int{i + 1, i + 2})
	}
	got := slices.Pairs(in)
	if !eqSlice(got, want) {
		c.Violate("Pairs:pairs[n-sweep]", fmt.Sprintf("Pairs of %d elements returned %d pairs (expected %d) or wrong contents", n, len(got), len(want)), map[string]any{"n": n})
		return false
	}
	var cb [][2]int
	slices.PairsFunc(in, func(a, b int) { cb = append(cb, [2]int{a, b}) })
	if !eqSlice(cb, want) {
		c.Violate("PairsFunc:sequence[n-sweep]", fmt.Sprintf("PairsFunc over %d elements made %d calls (expected %d) or passed wrong pairs", n, len(cb), len(want)), map[string]any{"n": n})
		return false
	}
	c.Count("pairs_checked", 1)
	return true
}

type bigElem [20]int64 // 160 bytes

// bigElemCheck runs the three helpers over a large value type.
func bigElemCheck(c *core.Ctx, n int) bool {
	if !elemCheck(c, "big-elements", n, func(i int) bigElem { return bigElem{int64(i + 1), 19: int64(-i - 1)} },
		func(e bigElem, i int) bool { return e[0] == int64(i+1) && e[19] == int64(-i-1) }) {
		return false
	}
	// element sizes that are not powers of two (3, 10, 12, 24 bytes), strings, slices, interfaces
	m := n % 130
	switch n % 7 {
	case 0:
		return elemCheck(c, "[3]byte", m, func(i int) [3]byte { return [3]byte{byte(i), byte(i >> 8), 0xA5} },
			func(e [3]byte, i int) bool { return e == [3]byte{byte(i), byte(i >> 8), 0xA5} })
	case 1:
		return elemCheck(c, "[5]uint16", m, func(i int) [5]uint16 { return [5]uint16{uint16(i), 1, 2, 3, uint16(-i)} },
			func(e [5]uint16, i int) bool { return e == [5]uint16{uint16(i), 1, 2, 3, uint16(-i)} })
	case 2:
		type t12 struct{ a, b, c int32 }
		return elemCheck(c, "struct{3 x int32}", m, func(i int) t12 { return t12{int32(i), 7, int32(-i)} },
			func(e t12, i int) bool { return e == t12{int32(i), 7, int32(-i)} })
	case 3:
		return elemCheck(c, "[3]int64", m, func(i int) [3]int64 { return [3]int64{int64(i), 9, int64(-i)} },
			func(e [3]int64, i int) bool { return e == [3]int64{int64(i), 9, int64(-i)} })
	case 4:
		return elemCheck(c, "[]int", m, func(i int) []int { return []int{i, -i} },
			func(e []int, i int) bool { return len(e) == 2 && e[0] == i && e[1] == -i })
	case 5:
		return elemCheck(c, "string", m, func(i int) string { return fmt.Sprint("s", i) },
			func(e string, i int) bool { return e == fmt.Sprint("s", i) })
	}
	return elemCheck(c, "any", m, func(i int) any {
		if i%3 == 0 {
			return nil
		}
		return i
	}, func(e any, i int) bool { return i%3 == 0 && e == nil || i%3 != 0 && e == i })
}

func elemCheck[E any](c *core.Ctx, tname string, n int, mk func(i int) E, ok func(e E, i int) bool) bool {
	in := make([]E, n)
	for i := range in {
		in[i] = mk(i)
	}
	ps := slices.Pairs(in)
	wantPairs := n - 1
	if wantPairs < 0 {
		wantPairs = 0
	}
	if len(ps) != wantPairs {
		c.Violate("Pairs:pairs["+tname+"]", fmt.Sprintf("Pairs over %d elements of type "+tname+" returned %d pairs", n, len(ps)), nil)
		return false
	}
	for i, p := range ps {
		if !ok(p[0], i) || !ok(p[1], i+1) {
			c.Violate("Pairs:pairs["+tname+"]", fmt.Sprintf("Pairs over %d elements of type "+tname+": pair %d is wrong", n, i), nil)
			return false
		}
	}
	calls := 0
	bad := -1
	slices.PairsFunc(in, func(a, b E) {
		if !ok(a, calls) || !ok(b, calls+1) {
			bad = calls
		}
		calls++
	})
	if calls != wantPairs || bad >= 0 {
		c.Violate("PairsFunc:sequence["+tname+"]", fmt.Sprintf("PairsFunc over %d elements of type "+tname+": %d calls, first bad %d", n, calls, bad), nil)
		return false
	}
	for _, size := range []int{1, 2, 3, 7} {
		total, idx := 0, 0
		for _, ch := range slices.Chunk(in, size) {
			for _, e := range ch {
				if !ok(e, idx) {
					c.Violate("Chunk:piece["+tname+"]", fmt.Sprintf("Chunk(size %d) over %d elements of type "+tname+": element %d wrong", size, n, idx), nil)
					return false
				}
				idx++
			}
			total += len(ch)
		}
		if total != n {
			c.Violate("Chunk:concatenation["+tname+"]", fmt.Sprintf("Chunk(size %d) over %d elements of type "+tname+" covers %d", size, n, total), nil)
			return false
		}
		ws := slices.Windowed(in, size)
		ww := n - size + 1
		if ww < 0 {
			ww = 0
		}
		if len(ws) != ww {
			c.Violate("Windowed:windows["+tname+"]", fmt.Sprintf("Windowed(size %d) over %d elements of type "+tname+" returned %d windows", size, n, len(ws)), nil)
			return false
		}
		for i, w := range ws {
			good := len(w) == size
			for j := 0; good && j < size; j++ {
				good = ok(w[j], i+j)
			}
			if !good {
				c.Violate("Windowed:windows["+tname+"]", fmt.Sprintf("Windowed(size %d) over %d elements of type "+tname+": window %d wrong", size, n, i), nil)
				return false
			}
		}
	}
	return true
}
