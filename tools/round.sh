#!/bin/bash
# tools/round.sh <suffix> [parallelism] ["props"]: run tools/mutant2.sh on every /tmp/mut/C??<suffix>/m* (scratch worktrees,
# /repo untouched), a few at a time; demo directory and go test flags are taken from the demo's header comment.
sfx=$1; par=${2:-3}; only=" ${3:-} "   # optional third argument: "C01 C07 ..." = only these properties
here=$(cd "$(dirname "$0")/.." && pwd)
declare -A dflt=( [C01]=avl [C02]=avl [C03]=sync2 [C04]=sync2 [C05]=sync2 [C06]=lists [C07]=slices [C08]=arrays [C09]=sync2 [C10]=chans [C11]=maps [C12]=slices [C13]=slices [C14]=slices [C15]=slices [C16]=lists [C17]=sync2 [C18]=sync2 [C19]=chans [C20]=. )
jobs=()
for d in /tmp/mut/C??$sfx/m*; do
  [ -f $d/patch.diff ] || continue
  prop=$(basename $(dirname $d)); prop=${prop%$sfx}
  [ "$only" != "  " ] && [[ "$only" != *" $prop "* ]] && continue
  demo=$(ls $d/*_test.go 2>/dev/null | head -1); [ -z "$demo" ] && continue
  hdr=$(head -25 $demo)
  # directory: ".../<wt>/<dir>/<file>_test.go" or "./<dir>/" in a go test command
  ddir=$(echo "$hdr" | grep -oE '(/tmp/wt/[A-Za-z0-9]+|<worktree>)/[A-Za-z0-9_/]+/[A-Za-z0-9_]+_test\.go' | head -1 | sed -E 's#^(/tmp/wt/[A-Za-z0-9]+|<worktree>)/##; s#/[^/]+_test\.go$##')
  [ -z "$ddir" ] && ddir=$(echo "$hdr" | grep -oE 'go test[^\n]* \./[A-Za-z0-9_/]+/?' | head -1 | grep -oE '\./[A-Za-z0-9_/]+/?$' | sed -E 's#^\./##; s#/$##')
  [ -z "$ddir" ] && ddir=${dflt[$prop]}
  extra=""
  echo "$hdr" | grep -q -- '-race' && extra="$extra -race"
  echo "$hdr" | grep -q -- '-tags verif' && extra="$extra -tags verif"
  jobs+=("$prop|$d|$ddir|$extra")
done
run() { IFS='|' read prop d ddir extra <<< "$1"; timeout 2700 $here/tools/mutant2.sh $prop $d $ddir $extra > $d/round_result.txt 2>&1; head -4 $d/round_result.txt | cut -c1-250; }
i=0
for j in "${jobs[@]}"; do
  run "$j" &
  i=$((i+1)); if [ $((i % par)) -eq 0 ]; then wait; fi
done
wait
echo "round $sfx: ${#jobs[@]} mutants processed"
grep -l 'check_exit=0' /tmp/mut/C??$sfx/m*/round_result.txt 2>/dev/null | sed 's/^/MISSED: /'
grep -L 'demo_with=FAIL demo_without=ok' /tmp/mut/C??$sfx/m*/round_result.txt 2>/dev/null | sed 's/^/CHECK-DEMO: /'
