#!/bin/bash
# tools/keepmutant.sh <prop> <mutant-dir> <name> <demo-dir> "<needs>" "<result line>"
prop=$1; mdir=$2; name=$3; ddir=$4; needs=$5; result=$6
here=$(cd "$(dirname "$0")/.." && pwd)
d=$here/seeded/$name
mkdir -p $d
cp $mdir/patch.diff $d/patch.diff
cp $(ls $mdir/*_test.go | head -1) $d/demo_test.go
[ -f $mdir/notes.md ] && cp $mdir/notes.md $d/notes.md
grep -E '^(VIOLATION|  sig=|SUMMARY|KNOWN|INCONCLUSIVE)' $mdir/check_output.txt | cut -c1-400 | head -20 > $d/check_output.txt
python3 - "$prop" "$name" "$ddir" "$needs" "$result" "$d" <<'PY'
import json,sys,subprocess
prop,name,ddir,needs,result,d=sys.argv[1:7]
head=subprocess.run(['git','-C','/repo','rev-parse','--short','HEAD'],capture_output=True,text=True).stdout.strip()
json.dump({"property":prop,"name":name,"breaks":prop,"needs_to_manifest":needs,
 "demo":"copy demo_test.go to <repo>/%s/ and run: go test -count=1 ./%s/ (fails with patch.diff applied, passes without)"%(ddir,ddir),
 "confirmed":"tools/mutant.sh in a scratch worktree of /repo@%s: existing tests pass with the patch; demo fails with it and passes without it"%head,
 "check_result":result,"repo_commit":head},open(d+'/meta.json','w'),indent=1)
PY
