package props

import (
	"fmt"
	"math"

	"gopkg.in/typ.v4/avl"
	"verifharness/internal/core"
)

// C02 — the AVL tree stays height-balanced after every Add and Remove.
// The shape is read through the public API only (SlicePreOrder+SliceInOrder of
// a distinct-valued tree determine it uniquely) and the AVL invariant is
// asserted at every node after every mutation. Auxiliary monitor: a counting
// comparator bounds the work of Contains/Add/Remove by the depth bound.

func init() { register("C02", runC02) }

// depthBound is the property's bound on the number of levels of an n-element tree.
func depthBound(n int) int {
	return int(math.Floor(1.4405 * math.Log2(float64(n)+2)))
}

// avlShape reconstructs the tree from pre+in (distinct ints, in must be sorted
// ascending as the comparator is the natural one) and returns the height in
// levels, the first unbalanced node (if any) and a structural error.
type shapeInfo struct {
	height     int
	unbalanced bool
	badNode    int
	hl, hr     int
	err        string
	hash       uint64
}

func avlShape(pre, in []int) shapeInfo {
	var si shapeInfo
	if len(pre) != len(in) {
		si.err = "pre/in length mismatch"
		return si
	}
	pos := make(map[int]int, len(in))
	for i, v := range in {
		if _, dup := pos[v]; dup {
			si.err = "duplicate value in a distinct-valued history"
			return si
		}
		pos[v] = i
	}
	pi := 0
	var rec func(lo, hi int) int
	rec = func(lo, hi int) int {
		if lo > hi || si.err != "" {
			si.hash = si.hash*1099511628211 + 1
			return 0
		}
		if pi >= len(pre) {
			si.err = "pre-order too short"
			return 0
		}
		root := pre[pi]
		k, ok := pos[root]
		if !ok || k < lo || k > hi {
			si.err = fmt.Sprintf("pre-order element %d does not split its in-order range (not a binary search tree traversal pair)", root)
			return 0
		}
		pi++
		si.hash = si.hash*1099511628211 + 2
		hl := rec(lo, k-1)
		hr := rec(k+1, hi)
		d := hl - hr
		if (d > 1 || d < -1) && !si.unbalanced {
			si.unbalanced, si.badNode, si.hl, si.hr = true, root, hl, hr
		}
		if hl > hr {
			return hl + 1
		}
		return hr + 1
	}
	si.height = rec(0, len(in)-1)
	return si
}

// balancedHeights returns, as a bit mask, the heights of all HEIGHT-BALANCED
// binary trees whose pre-, in- and post-order traversals are exactly the given
// sequences (values may repeat, so several trees can fit). 0 = none.
func balancedHeights(pre, in, post []int) uint32 {
	n := len(in)
	if len(pre) != n || len(post) != n {
		return 0
	}
	if n == 0 {
		return 1 // height 0
	}
	root := pre[0]
	if post[n-1] != root {
		return 0
	}
	var out uint32
	for k := 0; k < n; k++ {
		if in[k] != root {
			continue
		}
		hl := balancedHeights(pre[1:1+k], in[:k], post[:k])
		if hl == 0 {
			continue
		}
		hr := balancedHeights(pre[1+k:], in[k+1:], post[k:n-1])
		if hr == 0 {
			continue
		}
		for a := 0; a < 16; a++ {
			if hl>>uint(a)&1 == 0 {
				continue
			}
			for b := a - 1; b <= a+1; b++ {
				if b >= 0 && hr>>uint(b)&1 == 1 {
					h := a
					if b > h {
						h = b
					}
					out |= 1 << uint(h+1)
				}
			}
		}
	}
	return out
}

// c02duplicates: small trees with repeated values. The shape is ambiguous from
// the traversals, so the check is existential: SOME binary tree with exactly
// these three traversals must be height-balanced (and sorted in-order).
func c02duplicates(c *core.Ctx) {
	r := c.R
	tr := avl.NewOrdered[int]()
	t := &tr
	var model []int
	var hist []string
	u := r.Range(1, 4)
	nops := r.Range(4, 60)
	for i := 0; i < nops; i++ {
		v := r.Intn(u)
		if len(model) >= 12 || (len(model) > 0 && r.Chance(2, 5)) {
			v = model[r.Intn(len(model))]
			hist = append(hist, fmt.Sprintf("Remove(%d)", v))
			if !t.Remove(v) {
				c.Violate("dup:Remove:returned-false", fmt.Sprintf("Remove(%d) of a present value returned false", v), map[string]any{"history": hist})
				return
			}
			for k, x := range model {
				if x == v {
					model = append(model[:k:k], model[k+1:]...)
					break
				}
			}
		} else {
			hist = append(hist, fmt.Sprintf("Add(%d)", v))
			t.Add(v)
			model = append(model, v)
		}
		if r.Chance(1, 15) {
			cl := t.Clone()
			t = &cl
			hist = append(hist, "t = t.Clone()")
		}
		pre, in, post := t.SlicePreOrder(), t.SliceInOrder(), t.SlicePostOrder()
		c.Count("duplicate_shapes_checked", 1)
		if len(in) != len(model) {
			c.Violate("dup:size", fmt.Sprintf("tree has %d values, %d expected", len(in), len(model)), map[string]any{"history": hist})
			return
		}
		if balancedHeights(pre, in, post) == 0 {
			c.Violate("dup:"+hist[len(hist)-1][:3]+":unbalanced", fmt.Sprintf("no height-balanced binary tree has the traversals pre=%v in=%v post=%v (values repeat; all consistent shapes were tried)", pre, in, post), map[string]any{"history": hist})
			return
		}
	}
	c.Count("family_duplicates-small", 1)
	c.NonTrivial(core.Mix(c.Seed, 2))
	if c.WantSample() {
		h := hist
		if len(h) > 30 {
			h = h[:30]
		}
		c.Sample(map[string]any{"family": "duplicates-small", "history_prefix": h})
	}
}

// c02deep: one very deep tree per run - the sparsest AVL shape of height 26 (317 810
// values, built in level order without a single rotation), then insertions below its
// deepest leaves and deletions on its shallow side, which retrace (and rebalance along)
// search paths of more than 24 nodes; balance is re-derived from the traversals after
// every batch.
func c02deep(c *core.Ctx) {
	r := c.R
	h := 26
	if c.Tier == "thorough" {
		h = r.Range(25, 27)
	}
	tr := avl.New(cmpInt)
	t := &tr
	n := 0
	fail := func(sig, msg string) {
		c.Violate(sig+"[deep]", fmt.Sprintf("%s [sparsest AVL tree of height %d built in level order, then batches of Add/Remove; n=%d]", msg, h, n), nil)
	}
	check := func(op string) bool {
		pre, in := t.SlicePreOrder(), t.SliceInOrder()
		if len(in) != n {
			fail(op+":size", fmt.Sprintf("tree has %d elements, %d expected", len(in), n))
			return false
		}
		si := avlShape(pre, in)
		c.Count("shapes_checked", 1)
		if si.err != "" {
			fail(op+":not-a-tree", si.err)
			return false
		}
		if si.unbalanced {
			fail(op+":unbalanced", fmt.Sprintf("after %s node %d has left height %d and right height %d (tree height %d)", op, si.badNode, si.hl, si.hr, si.height))
			return false
		}
		if si.height > depthBound(n) {
			fail(op+":too-deep", fmt.Sprintf("after %s height %d exceeds 1.4405*log2(n+2)=%d", op, si.height, depthBound(n)))
			return false
		}
		c.Max("max_height_checked", int64(si.height))
		c.Max("max_n", int64(n))
		return true
	}
	// keys are spaced by 4 so that new values fit between any two
	for _, v := range fibLevelOrder(h) {
		t.Add(4 * v)
		n++
	}
	if !check("Add") {
		return
	}
	lo, hi := -4, 4*n+4
	present := map[int]bool{}
	for batch := 0; batch < 8; batch++ {
		switch batch % 4 {
		case 0: // below the deepest leaves (the smallest keys sit deepest in this shape)
			for i := 0; i < 3; i++ {
				t.Add(lo)
				lo -= 4
				n++
			}
		case 1: // between existing keys near the deep end
			for i := 0; i < 3; i++ {
				v := 4*r.Intn(200) + 1 + r.Intn(3)
				if !present[v] {
					present[v] = true
					t.Add(v)
					n++
				}
			}
		case 2: // deletions on the shallow side: the long paths must be rebalanced on the way up
			for i := 0; i < 40; i++ {
				hi -= 4
				if t.Remove(hi - 4) {
					n--
				}
			}
		case 3: // anywhere
			for i := 0; i < 5; i++ {
				v := 4*r.Intn(n) + 2
				if !present[v] {
					present[v] = true
					t.Add(v)
					n++
				}
			}
		}
		if !check([]string{"Add", "Add", "Remove", "Add"}[batch%4]) {
			return
		}
	}
	c.Count("deep_trees_checked", 1)
	c.NonTrivial(core.Mix(c.Seed, uint64(h), 2))
	if c.WantSample() {
		c.Sample(map[string]any{"family": "deep", "height": h, "values": n})
	}
}

func runC02(c *core.Ctx) {
	if c.Index == 77 || (c.Tier == "thorough" && c.Index%4000 == 77) {
		c02deep(c)
		return
	}
	if c.Index%8 == 5 {
		c02duplicates(c)
		return
	}
	r := c.R
	var cmpCalls int64
	cmp := func(a, b int) int {
		cmpCalls++
		return cmpInt(a, b)
	}
	tr := avl.New(cmp)
	t := &tr
	present := map[int]bool{}
	var keys []int // present keys, arbitrary order (for random deletion)
	var hist []string
	maxN := 255
	switch {
	case c.Tier == "thorough" && c.Index%200 == 7:
		maxN = 20000
	case c.Index%50 == 13:
		maxN = 5000 // quick tier too: sizes beyond 1024, 2048, 4096
	case c.Index%10 == 3:
		maxN = 1023
	case c.Index%3 == 0:
		maxN = 40
	}
	n0 := r.Range(1, maxN)
	checkEvery := 1
	if n0 > 4096 {
		checkEvery = 64
	} else if n0 > 1100 {
		checkEvery = 8
	}
	family := r.Intn(9)
	fam := []string{"ascending", "descending", "zigzag", "random", "fibonacci-then-delete", "delete-root", "delete-min", "delete-max", "interleaved"}[family]
	var hh uint64 = core.Mix(uint64(family), uint64(n0))
	stepNo := 0
	rotations, doubles := int64(0), int64(0)
	var prevPre []int
	fail := func(sig, msg string) {
		h := hist
		if len(h) > 400 {
			h = append(append([]string{}, h[:200]...), h[len(h)-200:]...)
		}
		c.Violate(sig, fmt.Sprintf("%s [family=%s, %d mutations so far, n=%d]", msg, fam, stepNo, len(keys)),
			map[string]any{"family": fam, "history": h, "history_len": len(hist)})
	}
	var sib *avl.Tree[int]
	var sibIn []int
	sibCheck := func(op string) bool {
		pre, in := sib.SlicePreOrder(), sib.SliceInOrder()
		c.Count("sibling_tree_checks", 1)
		if !eqSlice(in, sibIn) {
			fail(op+":sibling-changed", fmt.Sprintf("a tree related by Clone to the one being mutated held %d values and now holds %d (or other ones)", len(sibIn), len(in)))
			return false
		}
		if si := avlShape(pre, in); si.err != "" || si.unbalanced {
			fail(op+":sibling-unbalanced", fmt.Sprintf("after %s on one tree, the tree related to it by Clone (not touched since) has a node %d with left height %d and right height %d %s", op, si.badNode, si.hl, si.hr, si.err))
			return false
		}
		return true
	}
	check := func(op string, force bool) bool {
		stepNo++
		if !force && stepNo%checkEvery != 0 {
			return true
		}
		if sib != nil && len(sibIn) <= 3000 && (force || len(sibIn) < 64 || r.Chance(1, 8)) && !sibCheck(op) {
			return false
		}
		pre, in := t.SlicePreOrder(), t.SliceInOrder()
		n := len(in)
		if n != len(keys) {
			fail(op+":size", fmt.Sprintf("tree has %d elements, %d expected", n, len(keys)))
			return false
		}
		for i := 1; i < n; i++ {
			if in[i-1] >= in[i] {
				fail(op+":in-order-not-sorted", fmt.Sprintf("in-order not strictly ascending at %d: %d,%d", i, in[i-1], in[i]))
				return false
			}
		}
		si := avlShape(pre, in)
		c.Count("shapes_checked", 1)
		if si.err != "" {
			fail(op+":not-a-tree", si.err)
			return false
		}
		if si.unbalanced {
			fail(op+":unbalanced", fmt.Sprintf("after %s node %d has left height %d and right height %d (tree height %d, n=%d)", op, si.badNode, si.hl, si.hr, si.height, n))
			return false
		}
		if n > 0 && si.height > depthBound(n) {
			fail(op+":too-deep", fmt.Sprintf("after %s height %d exceeds 1.4405*log2(n+2)=%d for n=%d", op, si.height, depthBound(n), n))
			return false
		}
		if n > 0 {
			c.Max("max_height_over_bound_permille", int64(1000*si.height/depthBound(n)))
			c.Max("max_n", int64(n))
		}
		if n <= 7 {
			c.Distinct("balanced_shapes_n_le_7", si.hash)
		}
		// classify rebalancing: more than one new/removed leaf position changed
		if checkEvery == 1 && prevPre != nil && n <= 64 {
			if d := preDiff(prevPre, pre); d > 2 {
				rotations++
				if d > 4 {
					doubles++
				}
			}
		}
		if checkEvery == 1 && n <= 64 {
			prevPre = pre
		} else {
			prevPre = nil
		}
		return true
	}
	costOK := func(op string, n int, calls int64) bool {
		limit := int64(4*depthBound(n+1) + 8)
		c.Max("max_cmp_calls_per_op", calls)
		if calls > limit {
			fail(op+":comparator-calls", fmt.Sprintf("%s on a tree of %d elements made %d comparator calls; 4*depth bound+8 = %d", op, n, calls, limit))
			return false
		}
		return true
	}
	cloneSwaps := r.Chance(1, 3)
	maybeClone := func() {
		if cloneSwaps && r.Chance(1, 25) {
			// the sibling about to be replaced gets a last look (small ones only: a look costs O(n))
			if sib != nil && len(sibIn) <= 3000 && !sibCheck("Clone") {
				return
			}
			// continue on a clone: "after every Add or Remove" also holds for trees that came out of Clone
			cl := t.Clone()
			// the tree that is not continued on stays around as a sibling: mutations of one
			// must leave the other exactly as it was, balanced node for node
			sibIn = t.SliceInOrder()
			if r.Bool() {
				sib = t
				t = &cl
				hist = append(hist, "sibling = t; t = t.Clone()")
			} else {
				sib = &cl
				hist = append(hist, "sibling = t.Clone()")
			}
			c.Count("clone_swaps", 1)
		}
	}
	// read-only calls right before a mutation (of the value about to be added or removed,
	// or of a random one): whatever a lookup remembers must not change how the mutation
	// rebalances. A third of the histories make them, so that both regimes are seen.
	withLookups := r.Chance(1, 3)
	lookups := func(v int) {
		if !withLookups || r.Bool() {
			return
		}
		target := v
		if r.Chance(1, 3) && len(keys) > 0 {
			target = keys[r.Intn(len(keys))]
		}
		if got := t.Contains(target); got != present[target] {
			fail("Contains:wrong", fmt.Sprintf("Contains(%d)=%v, expected %v", target, got, present[target]))
		}
		hist = append(hist, fmt.Sprintf("Contains(%d)", target))
		c.Count("lookups_before_mutations", 1)
		// ... sometimes the whole tree is cleared and rebuilt from a few values (nodes or
		// bookkeeping recycled by Clear must come back clean)
		if r.Chance(1, 40) && len(keys) >= 3 {
			t.Clear()
			hist = append(hist, "Clear()")
			for k := range present {
				delete(present, k)
			}
			keys = keys[:0]
			c.Count("clears_then_rebuild", 1)
		}
		// ... and a Remove of a value that is not in the tree: it must fail and leave
		// nothing behind that changes how later mutations rebalance
		if r.Bool() {
			absent := -1000000 - r.Intn(50)
			if r.Bool() {
				absent = 1 << 40
			}
			if t.Remove(absent) {
				fail("Remove:absent-returned-true", fmt.Sprintf("Remove(%d) of a value that is not in the tree returned true", absent))
			}
			hist = append(hist, fmt.Sprintf("Remove(%d)[absent]", absent))
			c.Count("failed_removes_before_mutations", 1)
		}
	}
	add := func(v int) bool {
		if present[v] {
			return true
		}
		maybeClone()
		lookups(v)
		hist = append(hist, fmt.Sprintf("Add(%d)", v))
		hh = core.Mix(hh, uint64(v)*2)
		cmpCalls = 0
		n := len(keys)
		if p, pv := core.Catch(func() { t.Add(v) }); p {
			fail("Add:panic", fmt.Sprintf("Add(%d) panicked: %v", v, pv))
			return false
		}
		calls := cmpCalls
		present[v] = true
		keys = append(keys, v)
		c.Count("adds", 1)
		return costOK("Add", n, calls) && check("Add", false)
	}
	remove := func(v int) bool {
		if !present[v] {
			return true
		}
		maybeClone()
		lookups(v)
		if !present[v] {
			return true // the tree was cleared by the step above
		}
		hist = append(hist, fmt.Sprintf("Remove(%d)", v))
		hh = core.Mix(hh, uint64(v)*2+1)
		cmpCalls = 0
		n := len(keys)
		var ok bool
		if p, pv := core.Catch(func() { ok = t.Remove(v) }); p {
			fail("Remove:panic", fmt.Sprintf("Remove(%d) panicked: %v", v, pv))
			return false
		}
		calls := cmpCalls
		if !ok {
			fail("Remove:returned-false", fmt.Sprintf("Remove(%d) of a present value returned false", v))
			return false
		}
		delete(present, v)
		for i, k := range keys {
			if k == v {
				keys[i] = keys[len(keys)-1]
				keys = keys[:len(keys)-1]
				break
			}
		}
		c.Count("removes", 1)
		return costOK("Remove", n, calls) && check("Remove", false)
	}
	contains := func(v int) bool {
		cmpCalls = 0
		got := t.Contains(v)
		if got != present[v] {
			fail("Contains:wrong", fmt.Sprintf("Contains(%d)=%v, expected %v", v, got, present[v]))
			return false
		}
		c.Count("contains", 1)
		return costOK("Contains", len(keys), cmpCalls)
	}
	minKey := func() int {
		m := keys[0]
		for _, k := range keys {
			if k < m {
				m = k
			}
		}
		return m
	}
	maxKey := func() int {
		m := keys[0]
		for _, k := range keys {
			if k > m {
				m = k
			}
		}
		return m
	}
	root := func() int { return t.SlicePreOrder()[0] }

	ok := true
	switch family {
	case 0:
		for i := 0; i < n0 && ok; i++ {
			ok = add(i)
		}
	case 1:
		for i := n0; i > 0 && ok; i-- {
			ok = add(i)
		}
	case 2:
		lo, hi := 0, n0
		for lo <= hi && ok {
			ok = add(lo)
			if ok && hi != lo {
				ok = add(hi)
			}
			lo++
			hi--
		}
	case 3:
		for i := 0; i < n0 && ok; i++ {
			ok = add(r.Intn(4 * n0))
		}
	case 4:
		// Build the sparsest (Fibonacci) AVL tree shape by inserting its keys in
		// level order (no rotation happens), then delete from the shallow side.
		h := 2
		for fibSize(h+1) <= n0 && h < 22 {
			h++
		}
		order := fibLevelOrder(h)
		for _, v := range order {
			if ok = add(v); !ok {
				break
			}
		}
		for ok && len(keys) > 0 {
			// delete the maximum (right side is the shallow one in our builder)
			if r.Chance(3, 4) {
				ok = remove(maxKey())
			} else {
				ok = remove(keys[r.Intn(len(keys))])
			}
		}
	case 5, 6, 7:
		for i := 0; i < n0 && ok; i++ {
			ok = add(r.Intn(4*n0) + 1)
		}
		for ok && len(keys) > 0 {
			switch family {
			case 5:
				ok = remove(root())
			case 6:
				ok = remove(minKey())
			case 7:
				ok = remove(maxKey())
			}
		}
	case 8:
		span := 2*n0 + 2
		for i := 0; i < 3*n0 && ok; i++ {
			switch {
			case len(keys) == 0 || r.Chance(5, 10):
				ok = add(r.Intn(span))
			case r.Chance(4, 5):
				ok = remove(keys[r.Intn(len(keys))])
			default:
				ok = contains(r.Intn(span))
			}
		}
	}
	if !ok {
		return
	}
	// final: forced shape check, a few membership probes with cost bound, then drain randomly
	if !check("final", true) {
		return
	}
	for i := 0; i < 8 && len(keys) > 0; i++ {
		if !contains(keys[r.Intn(len(keys))]) || !contains(-1-r.Intn(100)) {
			return
		}
	}
	drain := len(keys)
	if drain > 600 {
		drain = 600
	}
	for i := 0; i < drain && len(keys) > 0; i++ {
		if !remove(keys[r.Intn(len(keys))]) {
			return
		}
	}
	if !check("final", true) {
		return
	}
	c.Count("rebalancing_events_inferred", rotations)
	c.Count("rebalancing_events_large", doubles)
	c.Count("family_"+fam, 1)
	if len(hist) >= 3 {
		c.NonTrivial(hh)
	}
	if c.WantSample() {
		h := hist
		if len(h) > 30 {
			h = h[:30]
		}
		c.Sample(map[string]any{"family": fam, "mutations": len(hist), "history_prefix": h})
	}
}

// preDiff counts positions at which two pre-orders differ after aligning for
// the single inserted/removed value (rough: used for evidence only).
func preDiff(a, b []int) int {
	// longest common prefix + suffix
	i := 0
	for i < len(a) && i < len(b) && a[i] == b[i] {
		i++
	}
	j := 0
	for j < len(a)-i && j < len(b)-i && a[len(a)-1-j] == b[len(b)-1-j] {
		j++
	}
	da, db := len(a)-i-j, len(b)-i-j
	if da > db {
		return da
	}
	return db
}

func fibSize(h int) int {
	if h <= 0 {
		return 0
	}
	if h == 1 {
		return 1
	}
	return 1 + fibSize(h-1) + fibSize(h-2)
}

// fibLevelOrder returns the keys (in-order ranks) of the sparsest AVL tree of
// height h - every node's left subtree one level taller than its right one -
// in LEVEL order. Inserting them in this order into a correct AVL tree never
// triggers a rotation (every prefix is a truncation of the final shape, which
// is itself balanced), so the tree ends up with exactly this maximal-height
// shape. (Pre-order insertion, used at first, does rotate: the left spine grows
// before the right siblings exist.)
func fibLevelOrder(h int) []int {
	type nd struct{ h, base int }
	var out []int
	q := []nd{{h, 0}}
	for len(q) > 0 {
		x := q[0]
		q = q[1:]
		if x.h <= 0 {
			continue
		}
		l := fibSize(x.h - 1)
		out = append(out, x.base+l)
		q = append(q, nd{x.h - 1, x.base}, nd{x.h - 2, x.base + l + 1})
	}
	return out
}
