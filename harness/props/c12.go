package props

import (
	"fmt"
	"math"
	"runtime"

	"gopkg.in/typ.v4/slices"
	"verifharness/internal/core"
)

// C12 — slice splicing helpers equal the splice model for every index and capacity.
// Systematic sweep in every run (case index < 81 <-> (len 0..8, spare cap 0..8):
// every valid index x inserted-slice length 0..5 x removal length), spare
// capacity pre-filled with sentinels so stale data would show; plus Fill/Repeat
// for every length 0..300, Reverse 0..65, Concat/Clone/Grow; then random cases
// with lengths up to 5000.

func init() { register("C12", runC12) }

const sentinel = -777

// mkSlice returns a slice of n unique positive values with `spare` extra
// capacity holding sentinels.
func mkSlice(n, spare, base int) []int {
	s := make([]int, n+spare)
	for i := range s {
		if i < n {
			s[i] = base + i + 1
		} else {
			s[i] = sentinel - i
		}
	}
	return s[:n:len(s)]
}

func runC12(c *core.Ctx) {
	r := c.R
	fail := func(sig, msg string, detail any) { c.Violate(sig, msg, detail) }
	spliceAll := func(n, spare int, sampled bool) bool {
		idxs := func(max int) []int {
			if !sampled {
				out := make([]int, max+1)
				for i := range out {
					out[i] = i
				}
				return out
			}
			return []int{0, max, r.Intn(max + 1), r.Intn(max + 1), max / 2}
		}
		for _, idx := range idxs(n) {
			// Insert
			{
				s := mkSlice(n, spare, 0)
				orig := append([]int(nil), s...)
				want := append(append(append([]int{}, orig[:idx]...), 9999), orig[idx:]...)
				if p, pv := core.Catch(func() { slices.Insert(&s, idx, 9999) }); p {
					fail("Insert:panic", fmt.Sprintf("Insert(len=%d cap=%d, index=%d) panicked: %v", n, n+spare, idx, pv), nil)
					return false
				}
				c.Count("insert", 1)
				if !eqSlice(s, want) {
					fail("Insert:contents", fmt.Sprintf("Insert(len=%d spare=%d index=%d): got %v want %v", n, spare, idx, s, want), nil)
					return false
				}
			}
			// InsertSlice, inserted lengths 0..5
			for il := 0; il <= 5; il++ {
				if sampled && il != 0 && il != 5 && il != r.Range(1, 4) {
					continue
				}
				m := il
				if sampled && il == 5 {
					m = r.Range(5, 2*n+5)
				}
				s := mkSlice(n, spare, 0)
				orig := append([]int(nil), s...)
				ins := mkSlice(m, (m+idx)%3, 50000) // 0..2 elements of spare capacity on the argument
				insSnap := append([]int(nil), ins...)
				want := append(append(append([]int{}, orig[:idx]...), ins...), orig[idx:]...)
				if p, pv := core.Catch(func() { slices.InsertSlice(&s, idx, ins) }); p {
					fail("InsertSlice:panic", fmt.Sprintf("InsertSlice(len=%d cap=%d, index=%d, %d values) panicked: %v", n, n+spare, idx, m, pv), nil)
					return false
				}
				c.Count("insertslice", 1)
				if !eqSlice(s, want) {
					fail("InsertSlice:contents", fmt.Sprintf("InsertSlice(len=%d spare=%d index=%d n=%d): got %v want %v", n, spare, idx, m, clip(s), clip(want)), nil)
					return false
				}
				if !eqSlice(ins, insSnap) {
					fail("InsertSlice:modified-argument", "the inserted slice was modified", nil)
					return false
				}
				for i, v := range ins[:cap(ins)][len(ins):] {
					if v != sentinel-(len(ins)+i) {
						fail("InsertSlice:wrote-into-argument-capacity", fmt.Sprintf("InsertSlice(len=%d index=%d, %d values with spare capacity) wrote into the spare capacity of the inserted slice", n, idx, m), nil)
						return false
					}
				}
			}
		}
		for _, idx := range idxs(n) {
			if idx >= n {
				// Remove needs index < len; RemoveSlice(index=len, length=0) is valid
				s := mkSlice(n, spare, 0)
				orig := append([]int(nil), s...)
				if p, pv := core.Catch(func() { slices.RemoveSlice(&s, n, 0) }); p {
					fail("RemoveSlice:panic", fmt.Sprintf("RemoveSlice(len=%d, index=len, length=0) panicked: %v", n, pv), nil)
					return false
				}
				if !eqSlice(s, orig) {
					fail("RemoveSlice:contents", fmt.Sprintf("RemoveSlice(index=len,length=0) changed %v to %v", orig, s), nil)
					return false
				}
				continue
			}
			{
				s := mkSlice(n, spare, 0)
				orig := append([]int(nil), s...)
				want := append(append([]int{}, orig[:idx]...), orig[idx+1:]...)
				if p, pv := core.Catch(func() { slices.Remove(&s, idx) }); p {
					fail("Remove:panic", fmt.Sprintf("Remove(len=%d, index=%d) panicked: %v", n, idx, pv), nil)
					return false
				}
				c.Count("remove", 1)
				if !eqSlice(s, want) {
					fail("Remove:contents", fmt.Sprintf("Remove(len=%d spare=%d index=%d): got %v want %v", n, spare, idx, clip(s), clip(want)), nil)
					return false
				}
			}
			for ln := 0; idx+ln <= n; ln++ {
				if sampled && ln != 0 && idx+ln != n && ln != 1+r.Intn(n-idx) {
					continue
				}
				s := mkSlice(n, spare, 0)
				orig := append([]int(nil), s...)
				want := append(append([]int{}, orig[:idx]...), orig[idx+ln:]...)
				if p, pv := core.Catch(func() { slices.RemoveSlice(&s, idx, ln) }); p {
					fail("RemoveSlice:panic", fmt.Sprintf("RemoveSlice(len=%d, index=%d, length=%d) panicked: %v", n, idx, ln, pv), nil)
					return false
				}
				c.Count("removeslice", 1)
				if !eqSlice(s, want) {
					fail("RemoveSlice:contents", fmt.Sprintf("RemoveSlice(len=%d spare=%d index=%d length=%d): got %v want %v", n, spare, idx, ln, clip(s), clip(want)), nil)
					return false
				}
			}
		}
		// Grow
		for _, g := range []int{0, 1, spare, spare + 1, 2*spare + 3, 1024 * (1 + (n+spare)%6), 1 << ((3*n + spare) % 17)} {
			s := mkSlice(n, spare, 0)
			orig := append([]int(nil), s...)
			var out []int
			if p, pv := core.Catch(func() { out = slices.Grow(s, g) }); p {
				fail("Grow:panic", fmt.Sprintf("Grow(len=%d spare=%d, %d) panicked: %v", n, spare, g, pv), nil)
				return false
			}
			c.Count("grow", 1)
			if len(out) != n+g || !eqSlice(out[:n], orig) {
				fail("Grow:prefix-or-length", fmt.Sprintf("Grow(len=%d spare=%d,%d): len %d, prefix %v", n, spare, g, len(out), clip(out)), nil)
				return false
			}
			for i := n; i < len(out); i++ {
				if out[i] != 0 {
					fail("Grow:non-zero", fmt.Sprintf("Grow(len=%d spare=%d,%d): new element %d is %d, not zero", n, spare, g, i, out[i]), nil)
					return false
				}
			}
		}
		// Concat / Clone independence
		{
			a, b := mkSlice(n, spare, 0), mkSlice(spare, n%3, 7000)
			as, bs := append([]int(nil), a...), append([]int(nil), b...)
			res := slices.Concat(a, b)
			want := append(append([]int{}, as...), bs...)
			if !eqSlice(res, want) {
				fail("Concat:contents", fmt.Sprintf("Concat(%v,%v)=%v", clip(as), clip(bs), clip(res)), nil)
				return false
			}
			for i := range res {
				res[i] = -1
			}
			res = append(res, -2, -3)
			if !eqSlice(a, as) || !eqSlice(b, bs) || !eqSlice(a[:cap(a)][len(a):], mkSlice(n, spare, 0)[:n+spare][n:]) {
				fail("Concat:shares-memory", "mutating the result of Concat changed an input (or its spare capacity)", nil)
				return false
			}
			for i := range a {
				a[i] = -5
			}
			cl := slices.Clone(b)
			if !eqSlice(cl, bs) {
				fail("Clone:contents", fmt.Sprintf("Clone(%v)=%v", clip(bs), clip(cl)), nil)
				return false
			}
			for i := range cl {
				cl[i] = -6
			}
			cl = append(cl, -77, -78, -79) // growing the clone must not spill into the original's spare capacity
			if !eqSlice(b, bs) {
				fail("Clone:shares-memory", "mutating the clone changed the original", nil)
				return false
			}
			for i, v := range b[:cap(b)][len(b):] {
				if v != sentinel-(len(b)+i) {
					fail("Clone:shares-capacity", fmt.Sprintf("appending to Clone(len=%d cap=%d) wrote into the original's spare capacity", len(b), cap(b)), nil)
					return false
				}
			}
			ec := slices.Clone(a[:0])
			ec = append(ec, -81)
			if len(a) > 0 && a[:1][0] == -81 {
				fail("Clone:shares-capacity", "appending to the clone of an emptied slice (s[:0]) overwrote the original's backing array", nil)
				return false
			}
			_ = ec
			for i := range b {
				b[i] = -8
			}
			c.Count("concat_clone", 1)
		}
		return true
	}

	if c.Index < 81 {
		n, spare := int(c.Index/9), int(c.Index%9)
		if !spliceAll(n, spare, false) {
			return
		}
		// lengths attached to this systematic case: Fill/Repeat 0..300 and Reverse 0..65 are
		// spread over the 81 cases
		for ln := int(c.Index); ln <= 300; ln += 81 {
			if !fillRepeat(c, ln) {
				return
			}
		}
		for ln := int(c.Index); ln <= 65; ln += 81 {
			if !reverseCheck(c, ln) {
				return
			}
		}
		c.Count("exhaustive_sweeps_completed", 1)
		c.NonTrivial(core.Mix(12, uint64(c.Index)))
		if c.WantSample() {
			c.Sample(map[string]any{"systematic": true, "len": n, "spare_capacity": spare, "what": "every index x inserted length 0..5 x removal length; Grow; Concat; Clone"})
		}
		return
	}
	// a third of the random cases: other element types (sizes 0..320 bytes, strings,
	// pointers) and zero-capacity slices; big and round Grow amounts
	if c.Index%3 == 0 {
		ok := false
		switch (c.Index / 3) % 12 {
		case 10:
			// an interface element type whose values include the nil interface
			ok = typedSplice(c, "any(with nils)", func(i int) any {
				switch i % 4 {
				case 0:
					return nil
				case 1:
					return i
				case 2:
					return fmt.Sprint("a", i)
				}
				return [2]int32{int32(i), 7}
			})
		case 11:
			errs := map[int]error{}
			ok = typedSplice(c, "error(with nils)", func(i int) error {
				if i%2 == 0 {
					return nil
				}
				if errs[i] == nil {
					errs[i] = fmt.Errorf("e%d", i)
				}
				return errs[i]
			})
		case 7:
			ok = typedSplice(c, "int8", func(i int) int8 { return int8(-(i%120 + 2)) }) // negative values: sign extension
		case 8:
			ok = typedSplice(c, "int16", func(i int) int16 { return int16(i*7 + 1) })
		case 9:
			ok = typedSplice(c, "bool", func(i int) bool { return i%3 != 0 })
		case 0:
			ok = typedSplice(c, "[9]int64", func(i int) [9]int64 { return [9]int64{int64(i), 1, 2, 3, 4, 5, 6, 7, int64(-i)} })
		case 1:
			ok = typedSplice(c, "[40]int64", func(i int) [40]int64 { return [40]int64{0: int64(i), 39: int64(i) * 3} })
		case 2:
			ok = typedSplice(c, "string", func(i int) string { return fmt.Sprintf("s%d", i) })
		case 3:
			ok = typedSplice(c, "struct{}", func(i int) struct{} { return struct{}{} })
		case 4:
			ok = typedSplice(c, "record", func(i int) c12rec { return c12rec{byte(i), fmt.Sprint(i), i%3 == 0} })
		case 5:
			ok = typedSplice(c, "uint8", func(i int) uint8 { return uint8(i%250 + 1) })
		case 6:
			ptrs := map[int]*int{}
			ok = typedSplice(c, "*int", func(i int) *int {
				if ptrs[i] == nil {
					ptrs[i] = new(int)
				}
				return ptrs[i]
			})
		}
		if ok {
			c.NonTrivial(core.Mix(14, uint64(c.Index), c.Seed))
		}
		return
	}
	n := r.Range(0, 5000)
	if r.Chance(1, 2) {
		n = r.Range(0, 64)
	}
	if c.Index%100 == 91 && c.Mode != "par" {
		n = r.Range(65536, 140000) // beyond 2^16 (and sometimes 2^17) elements
		c.Count("slices_beyond_65536_elements", 1)
		if !fillRepeat(c, r.Range(65537, 200000)) || !reverseCheck(c, r.Range(65537, 200000)) {
			return
		}
	}
	spare := r.Intn(40)
	if !spliceAll(n, spare, true) {
		return
	}
	if !fillRepeat(c, r.Range(0, 5000)) || !reverseCheck(c, r.Range(0, 3000)) {
		return
	}
	c.NonTrivial(core.Mix(13, uint64(n), uint64(spare), c.Seed))
}

type c12rec struct {
	a byte
	b string
	c bool
}

// typedSplice: the splice model for an arbitrary comparable element type.
func typedSplice[T comparable](c *core.Ctx, tname string, val func(i int) T) bool {
	r := c.R
	var zero T
	mk := func(n, spare, base int) []T {
		if n+spare == 0 {
			switch r.Intn(3) {
			case 0:
				return nil
			case 1:
				return []T{}
			}
			return make([]T, 3)[:0:0]
		}
		s := make([]T, n+spare)
		for i := range s {
			if i < n {
				s[i] = val(base + i + 1)
			} else {
				s[i] = val(900000 + i)
			}
		}
		return s[:n:len(s)]
	}
	fail := func(sig, msg string) bool {
		c.Violate(sig+"["+tname+"]", msg+" [element type "+tname+"]", nil)
		return false
	}
	short := func(s []T) string {
		if len(s) > 12 {
			return fmt.Sprintf("%v... (len %d)", s[:12], len(s))
		}
		return fmt.Sprint(s)
	}
	for round := 0; round < 12; round++ {
		n := []int{0, 0, 1, 2, 3, r.Range(0, 40), r.Range(0, 40), r.Range(0, 300)}[r.Intn(8)]
		spare := []int{0, 0, 0, 1, r.Range(0, 8), r.Range(0, 70)}[r.Intn(6)]
		idx := r.Intn(n + 1)
		// Insert
		{
			s := mk(n, spare, 0)
			orig := append([]T(nil), s...)
			v := val(77777)
			want := append(append(append([]T{}, orig[:idx]...), v), orig[idx:]...)
			if p, pv := core.Catch(func() { slices.Insert(&s, idx, v) }); p {
				return fail("Insert:panic", fmt.Sprintf("Insert(len=%d cap=%d nil=%v, index=%d) panicked: %v", n, n+spare, orig == nil && n == 0, idx, pv))
			}
			if !eqSlice(s, want) {
				return fail("Insert:contents", fmt.Sprintf("Insert(len=%d spare=%d index=%d): got %s want %s", n, spare, idx, short(s), short(want)))
			}
			c.Count("typed_insert", 1)
		}
		// InsertSlice
		{
			m := []int{0, 1, r.Range(0, 20), r.Range(0, 2*n+5)}[r.Intn(4)]
			s := mk(n, spare, 0)
			orig := append([]T(nil), s...)
			ins := mk(m, r.Intn(3), 50000)
			insSnap := append([]T(nil), ins...)
			want := append(append(append([]T{}, orig[:idx]...), ins...), orig[idx:]...)
			if p, pv := core.Catch(func() { slices.InsertSlice(&s, idx, ins) }); p {
				return fail("InsertSlice:panic", fmt.Sprintf("InsertSlice(len=%d cap=%d, index=%d, %d values) panicked: %v", n, n+spare, idx, m, pv))
			}
			if !eqSlice(s, want) {
				return fail("InsertSlice:contents", fmt.Sprintf("InsertSlice(len=%d spare=%d index=%d n=%d): got %s want %s", n, spare, idx, m, short(s), short(want)))
			}
			if !eqSlice(ins, insSnap) {
				return fail("InsertSlice:modified-argument", "the inserted slice was modified")
			}
			for j, v := range ins[:cap(ins)][len(ins):] {
				if v != val(900000+len(ins)+j) {
					return fail("InsertSlice:wrote-into-argument-capacity", "InsertSlice wrote into the spare capacity of the inserted slice")
				}
			}
			c.Count("typed_insertslice", 1)
		}
		// InsertSlice where the inserted values and the target are carved from ONE buffer
		// (values = buf[:k], target = buf[k:k+m]): the target lies in the spare capacity of
		// the argument
		{
			k, m := r.Range(1, 3), r.Range(1, 5)
			buf := make([]T, k+m+6)
			for i := range buf {
				buf[i] = val(300 + i)
			}
			vals, tgt := buf[:k], buf[k:k+m]
			sv, st := append([]T(nil), vals...), append([]T(nil), tgt...)
			at := r.Intn(m + 1)
			want := append(append(append([]T{}, st[:at]...), sv...), st[at:]...)
			if p, pv := core.Catch(func() { slices.InsertSlice(&tgt, at, vals) }); p {
				return fail("InsertSlice:panic", fmt.Sprintf("InsertSlice with values and target carved from one buffer panicked: %v", pv))
			}
			if !eqSlice(tgt, want) {
				return fail("InsertSlice:contents[one-buffer]", fmt.Sprintf("InsertSlice(target=buf[%d:%d], index=%d, values=buf[:%d]): got %s want %s", k, k+m, at, k, short(tgt), short(want)))
			}
			c.Count("typed_insertslice_one_buffer", 1)
		}
		// the helpers instantiated with a DEFINED slice type
		{
			type myT []T
			d := myT(mk(n, spare, 0))
			orig := append([]T(nil), d...)
			v := val(88888)
			want := append(append(append([]T{}, orig[:idx]...), v), orig[idx:]...)
			slices.Insert(&d, idx, v)
			if !eqSlice([]T(d), want) {
				return fail("Insert:defined-slice-type", fmt.Sprintf("Insert through a defined slice type (len=%d index=%d): got %s want %s", n, idx, short(d), short(want)))
			}
			slices.Remove(&d, idx)
			if !eqSlice([]T(d), orig) {
				return fail("Remove:defined-slice-type", "Insert then Remove at the same index through a defined slice type did not restore the slice")
			}
			if cl := slices.Clone(d); !eqSlice([]T(cl), orig) || len(slices.Concat(d, d)) != 2*n || len(slices.Grow(d, 3)) != n+3 {
				return fail("Clone/Concat/Grow:defined-slice-type", "Clone/Concat/Grow through a defined slice type give wrong lengths or contents")
			}
		}
		// Remove / RemoveSlice
		if n > 0 {
			i := r.Intn(n)
			s := mk(n, spare, 0)
			orig := append([]T(nil), s...)
			want := append(append([]T{}, orig[:i]...), orig[i+1:]...)
			if p, pv := core.Catch(func() { slices.Remove(&s, i) }); p {
				return fail("Remove:panic", fmt.Sprintf("Remove(len=%d, index=%d) panicked: %v", n, i, pv))
			}
			if !eqSlice(s, want) {
				return fail("Remove:contents", fmt.Sprintf("Remove(len=%d spare=%d index=%d): got %s want %s", n, spare, i, short(s), short(want)))
			}
			c.Count("typed_remove", 1)
		}
		{
			ln := r.Intn(n - idx + 1)
			s := mk(n, spare, 0)
			orig := append([]T(nil), s...)
			want := append(append([]T{}, orig[:idx]...), orig[idx+ln:]...)
			if p, pv := core.Catch(func() { slices.RemoveSlice(&s, idx, ln) }); p {
				return fail("RemoveSlice:panic", fmt.Sprintf("RemoveSlice(len=%d, index=%d, length=%d) panicked: %v", n, idx, ln, pv))
			}
			if !eqSlice(s, want) {
				return fail("RemoveSlice:contents", fmt.Sprintf("RemoveSlice(len=%d spare=%d index=%d length=%d): got %s want %s", n, spare, idx, ln, short(s), short(want)))
			}
			c.Count("typed_removeslice", 1)
		}
		// Grow: small, exactly the spare capacity, round numbers, big
		{
			g := []int{0, 1, spare, spare + 1, 1024 * r.Range(1, 8), 1 << r.Range(0, 16), r.Range(0, 5000), 1023, 1025, 65536 + r.Range(-1, 1)}[r.Intn(10)]
			s := mk(n, spare, 0)
			orig := append([]T(nil), s...)
			var out []T
			if p, pv := core.Catch(func() { out = slices.Grow(s, g) }); p {
				return fail("Grow:panic", fmt.Sprintf("Grow(len=%d spare=%d, %d) panicked: %v", n, spare, g, pv))
			}
			if len(out) != n+g || !eqSlice(out[:n], orig) {
				return fail("Grow:prefix-or-length", fmt.Sprintf("Grow(len=%d spare=%d, %d): result has length %d, want %d", n, spare, g, len(out), n+g))
			}
			for i := n; i < len(out); i++ {
				if out[i] != zero {
					return fail("Grow:non-zero", fmt.Sprintf("Grow(len=%d spare=%d, %d): new element %d is not the zero value", n, spare, g, i))
				}
			}
			c.Count("typed_grow", 1)
			c.Distinct("grow_amounts", uint64(g))
		}
		// Concat (nil/empty arguments included) / Clone / Fill / Reverse / Repeat
		{
			k := 2
			args := make([][]T, k)
			var want []T
			for i := range args {
				args[i] = mk(r.Intn(n+2), r.Intn(3), 1000*i)
				want = append(want, args[i]...)
			}
			snaps := make([][]T, k)
			for i := range args {
				snaps[i] = append([]T(nil), args[i]...)
			}
			res := slices.Concat(args[0], args[1])
			if !eqSlice(res, want) {
				return fail("Concat:contents", fmt.Sprintf("Concat(%s, %s) gives %s", short(snaps[0]), short(snaps[1]), short(res)))
			}
			for i := range res {
				res[i] = val(31337)
			}
			res = append(res, val(1), val(2))
			for i := range args {
				if !eqSlice(args[i], snaps[i]) {
					return fail("Concat:shares-memory", "mutating the result of Concat changed an input")
				}
				for j, v := range args[i][:cap(args[i])][len(args[i]):] {
					if v != val(900000+len(args[i])+j) {
						return fail("Concat:shares-memory", "appending to the result of Concat wrote into an input's spare capacity")
					}
				}
			}
			a := mk(n, spare, 0)
			as := append([]T(nil), a...)
			cl := slices.Clone(a)
			if !eqSlice(cl, as) {
				return fail("Clone:contents", fmt.Sprintf("Clone(%s)=%s", short(as), short(cl)))
			}
			for i := range cl {
				cl[i] = val(4242)
			}
			cl = append(cl, val(5), val(6))
			if !eqSlice(a, as) {
				return fail("Clone:shares-memory", "mutating the clone changed the original")
			}
			for j, v := range a[:cap(a)][len(a):] {
				if v != val(900000+len(a)+j) {
					return fail("Clone:shares-capacity", "appending to the clone wrote into the original's spare capacity")
				}
			}
			fv := val(555)
			slices.Fill(a, fv)
			for i, v := range a {
				if v != fv {
					return fail("Fill:element", fmt.Sprintf("Fill on length %d left element %d unset", n, i))
				}
			}
			for j, v := range a[:cap(a)][len(a):] {
				if v != val(900000+len(a)+j) {
					return fail("Fill:beyond-length", fmt.Sprintf("Fill on length %d wrote beyond the slice", n))
				}
			}
			b := mk(n, spare, 0)
			bs := append([]T(nil), b...)
			slices.Reverse(b)
			for i := range b {
				if b[i] != bs[n-1-i] {
					return fail("Reverse:element", fmt.Sprintf("Reverse of length %d: element %d is wrong", n, i))
				}
			}
			rp := slices.Repeat(fv, n)
			if len(rp) != n {
				return fail("Repeat:length", fmt.Sprintf("Repeat(v,%d) has length %d", n, len(rp)))
			}
			for i, v := range rp {
				if v != fv {
					return fail("Repeat:element", fmt.Sprintf("Repeat(v,%d): element %d is not v", n, i))
				}
			}
			// the element type's zero value (a nil interface, a nil pointer, "", 0) is a value too
			zf := mk(n, spare, 0)
			var zr []T
			if p, pv := core.Catch(func() { slices.Fill(zf, zero); zr = slices.Repeat(zero, n) }); p {
				return fail("Fill:panic-on-zero-value", fmt.Sprintf("Fill/Repeat with the element type's zero value on length %d panicked: %v", n, pv))
			}
			if len(zr) != n {
				return fail("Repeat:length", fmt.Sprintf("Repeat(zero value,%d) has length %d", n, len(zr)))
			}
			for i := range zf {
				if zf[i] != zero || zr[i] != zero {
					return fail("Fill:element", fmt.Sprintf("Fill/Repeat with the zero value on length %d: element %d is not the zero value", n, i))
				}
			}
			for j, v := range zf[:cap(zf)][len(zf):] {
				if v != val(900000+len(zf)+j) {
					return fail("Fill:beyond-length", fmt.Sprintf("Fill(zero value) on length %d wrote beyond the slice", n))
				}
			}
			c.Count("typed_concat_clone_fill_reverse_repeat", 1)
		}
	}
	// results that are the only reference to what they hold must survive a garbage
	// collection (values built at run time, e.g. strings)
	{
		a, b := mk(30, 0, 0), mk(30, 0, 5000)
		res := slices.Concat(a, b)
		cl := slices.Clone(a)
		rp := slices.Repeat(val(4711), 20)
		a, b = nil, nil // res, cl and rp are now the ONLY references to what their elements point to
		for k := 0; k < 3; k++ {
			runtime.GC()
			junk := make([][]byte, 0, 256)
			for i := 0; i < 256; i++ {
				junk = append(junk, []byte(fmt.Sprint("junk-", i, k, "................................")))
			}
			_ = junk
		}
		// the expected values are built afresh (equal contents, other memory)
		ok := len(res) == 60 && len(cl) == 30 && len(rp) == 20 && rp[19] == val(4711) && rp[0] == val(4711)
		for i := 0; ok && i < 30; i++ {
			ok = res[i] == val(i+1) && res[30+i] == val(5000+i+1) && cl[i] == val(i+1)
		}
		if !ok {
			return fail("result-lost-after-GC", "the result of Concat/Clone/Repeat, kept as the only reference to its elements, reads differently after garbage collections and new allocations")
		}
	}
	// Fill on windows into a larger buffer that start at every offset 0..9 (alignment of
	// the first element varies) and are 64..200 elements long
	for k := 0; k < 10; k++ {
		ln := r.Range(64, 200)
		buf := make([]T, k+ln+5)
		for i := range buf {
			buf[i] = val(600 + i)
		}
		fv := val(31)
		slices.Fill(buf[k:k+ln], fv)
		for i := range buf {
			inside := i >= k && i < k+ln
			if (inside && buf[i] != fv) || (!inside && buf[i] != val(600+i)) {
				return fail("Fill:window", fmt.Sprintf("Fill on buf[%d:%d] of a buffer of %d elements: element %d is wrong (inside the window: %v)", k, k+ln, len(buf), i, inside))
			}
		}
	}
	c.Count("typed_cases_"+tname, 1)
	return true
}

func fillRepeat(c *core.Ctx, ln int) bool {
	s := mkSlice(ln, 3, 0)
	slices.Fill(s, 42)
	for i, v := range s {
		if v != 42 {
			c.Violate("Fill:element", fmt.Sprintf("Fill on length %d left element %d = %d", ln, i, v), nil)
			return false
		}
	}
	ext := s[:cap(s)]
	for i := ln; i < len(ext); i++ {
		if ext[i] != sentinel-i {
			c.Violate("Fill:beyond-length", fmt.Sprintf("Fill on length %d wrote beyond the slice at %d", ln, i), nil)
			return false
		}
	}
	rp := slices.Repeat("x", ln)
	if len(rp) != ln {
		c.Violate("Repeat:length", fmt.Sprintf("Repeat(x,%d) has length %d", ln, len(rp)), nil)
		return false
	}
	for i, v := range rp {
		if v != "x" {
			c.Violate("Repeat:element", fmt.Sprintf("Repeat(x,%d) element %d = %q", ln, i, v), nil)
			return false
		}
	}
	// element types and values where "is it the zero value?" shortcuts go wrong
	if ln <= 40 {
		nz := slices.Repeat(math.Copysign(0, -1), ln)
		for i, v := range nz {
			if !math.Signbit(v) {
				c.Violate("Repeat:negative-zero", fmt.Sprintf("Repeat(-0.0,%d) element %d is +0.0", ln, i), nil)
				return false
			}
		}
		tmpl := []int{7}
		var rs [][]int
		if p, pv := core.Catch(func() { rs = slices.Repeat(tmpl, ln) }); p {
			c.Violate("Repeat:uncomparable-element-type", fmt.Sprintf("Repeat of a slice-typed value panicked: %v", pv), nil)
			return false
		}
		for i := range rs {
			if len(rs[i]) != 1 || &rs[i][0] != &tmpl[0] {
				c.Violate("Repeat:element", fmt.Sprintf("Repeat of a slice-typed value: element %d is not the value", i), nil)
				return false
			}
		}
		var nilfn func()
		var fs []func()
		if p, pv := core.Catch(func() { fs = slices.Repeat(nilfn, ln); slices.Fill(fs, nilfn) }); p || len(fs) != ln {
			c.Violate("Repeat:uncomparable-element-type", fmt.Sprintf("Repeat/Fill of a func-typed value panicked or has the wrong length: %v", pv), nil)
			return false
		}
	}
	c.Count("fill_repeat_lengths", 1)
	c.Distinct("fill_lengths", uint64(ln))
	return true
}

func reverseCheck(c *core.Ctx, ln int) bool {
	s := mkSlice(ln, 2, 0)
	orig := append([]int(nil), s...)
	slices.Reverse(s)
	for i := range s {
		if s[i] != orig[ln-1-i] {
			c.Violate("Reverse:element", fmt.Sprintf("Reverse of length %d: element %d = %d want %d", ln, i, s[i], orig[ln-1-i]), nil)
			return false
		}
	}
	c.Count("reverse_lengths", 1)
	return true
}

func clip(s []int) []int {
	if len(s) > 24 {
		return s[:24]
	}
	return s
}
