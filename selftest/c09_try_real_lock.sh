python3 - <<'PY'
p='/repo/sync2/keyedmutex.go'
s=open(p).read()
a='''func (km *KeyedMutex[T]) TryLockKey(key T) bool {
	m, _ := km.m.LoadOrStore(key, &sync.Mutex{})
	return m.TryLock()
}'''
b='''func (km *KeyedMutex[T]) TryLockKey(key T) bool {
	m, _ := km.m.LoadOrStore(key, &sync.Mutex{})
	m.Lock()
	return true
}'''
assert s.count(a)==1
open(p,'w').write(s.replace(a,b))
PY
