package props

import (
	"fmt"

	"gopkg.in/typ.v4/lists"
	"verifharness/internal/core"
)

// C16 — Queue is FIFO and Stack is LIFO. Lock-step monitor against slice
// models from the zero value; the op mix is biased to drain to empty and refill.

func init() { register("C16", runC16) }

func runC16(c *core.Ctx) {
	r := c.R
	var q lists.Queue[int]
	var st lists.Stack[int]
	var qm, sm []int
	var hist []string
	fail := func(sig, msg string) {
		c.Violate(sig, msg+fmt.Sprintf(" [after %d calls]", len(hist)), map[string]any{"history": append([]string{}, hist...)})
	}
	nops := r.Range(1, 200)
	flipDen := 12
	obsEvery := 1
	if r.Chance(1, 3) {
		obsEvery = r.Range(2, 6)
	}
	if r.Chance(1, 16) {
		// long histories with long fill / drain phases: deep containers (growth and
		// shrink paths of the backing storage)
		nops = r.Range(200, 3000)
		flipDen = 150
	}
	next := 0
	// phases: fill-biased or drain-biased, switching at random
	fillBias := true
	emptied, refilled := 0, 0
	var hh uint64 = 16
	for i := 0; i < nops; i++ {
		if r.Chance(1, flipDen) {
			fillBias = !fillBias
		}
		wIn, wOut := 6, 3
		if !fillBias {
			wIn, wOut = 2, 7
		}
		onQueue := r.Bool()
		op := r.Pick(wIn, wOut, 2, 1)
		switch {
		case onQueue && op == 0:
			next++
			hist = append(hist, fmt.Sprintf("Enqueue(%d)", next))
			q.Enqueue(next)
			if len(qm) == 0 && emptied > 0 {
				refilled++
			}
			qm = append(qm, next)
		case onQueue && op == 1:
			hist = append(hist, "Dequeue()")
			v, ok := q.Dequeue()
			if len(qm) == 0 {
				if ok || v != 0 {
					fail("Dequeue:empty", fmt.Sprintf("Dequeue on empty queue returned (%d,%v)", v, ok))
					return
				}
				c.Count("dequeue_empty", 1)
			} else {
				if !ok || v != qm[0] {
					fail("Dequeue:order", fmt.Sprintf("Dequeue returned (%d,%v), FIFO order gives %d (queue model %v)", v, ok, qm[0], qm))
					return
				}
				qm = qm[1:]
				if len(qm) == 0 {
					emptied++
				}
			}
		case !onQueue && op == 0:
			next++
			hist = append(hist, fmt.Sprintf("Push(%d)", next))
			st.Push(next)
			if len(sm) == 0 && emptied > 0 {
				refilled++
			}
			sm = append(sm, next)
		case !onQueue && op == 1:
			hist = append(hist, "Pop()")
			v, ok := st.Pop()
			if len(sm) == 0 {
				if ok || v != 0 {
					fail("Pop:empty", fmt.Sprintf("Pop on empty stack returned (%d,%v)", v, ok))
					return
				}
				c.Count("pop_empty", 1)
			} else {
				if !ok || v != sm[len(sm)-1] {
					fail("Pop:order", fmt.Sprintf("Pop returned (%d,%v), LIFO order gives %d (stack model %v)", v, ok, sm[len(sm)-1], sm))
					return
				}
				sm = sm[:len(sm)-1]
				if len(sm) == 0 {
					emptied++
				}
			}
		default:
			hist = append(hist, "observe")
		}
		hh = core.Mix(hh, core.HashString(hist[len(hist)-1]))
		c.Count("calls", 1)
		// observation after every call (or, in a third of the histories, every 2..6
		// calls): Len, Peek twice (must not remove)
		if i%obsEvery != obsEvery-1 && i != nops-1 {
			continue
		}
		if q.Len() != len(qm) {
			fail("Queue.Len", fmt.Sprintf("Queue.Len()=%d model %d", q.Len(), len(qm)))
			return
		}
		if len(st) != len(sm) {
			fail("Stack.len", fmt.Sprintf("len(stack)=%d model %d", len(st), len(sm)))
			return
		}
		for k := 0; k < 2; k++ {
			v, ok := q.Peek()
			if len(qm) == 0 {
				if ok || v != 0 {
					fail("Queue.Peek:empty", fmt.Sprintf("Peek on empty queue returned (%d,%v)", v, ok))
					return
				}
			} else if !ok || v != qm[0] {
				fail("Queue.Peek", fmt.Sprintf("Queue.Peek()=(%d,%v) (call %d), next Dequeue must give %d", v, ok, k+1, qm[0]))
				return
			}
			v, ok = st.Peek()
			if len(sm) == 0 {
				if ok || v != 0 {
					fail("Stack.Peek:empty", fmt.Sprintf("Peek on empty stack returned (%d,%v)", v, ok))
					return
				}
			} else if !ok || v != sm[len(sm)-1] {
				fail("Stack.Peek", fmt.Sprintf("Stack.Peek()=(%d,%v) (call %d), next Pop must give %d", v, ok, k+1, sm[len(sm)-1]))
				return
			}
		}
		c.Count("observations", 1)
		c.Max("max_queue_len", int64(len(qm)))
		c.Max("max_stack_len", int64(len(sm)))
	}
	// Occasionally a deep phase: thousands of values inside at once (growth policy
	// of a re-implemented backing store), with light interleaved removals.
	if r.Chance(1, 25) {
		deep := r.Range(1000, 6000)
		for i := 0; i < deep; i++ {
			next++
			q.Enqueue(next)
			qm = append(qm, next)
			st.Push(next)
			sm = append(sm, next)
			if i%97 == 96 {
				v, ok := q.Dequeue()
				if !ok || v != qm[0] {
					fail("Dequeue:order", fmt.Sprintf("deep phase: Dequeue=(%d,%v) want %d with %d values inside", v, ok, qm[0], len(qm)))
					return
				}
				qm = qm[1:]
				v, ok = st.Pop()
				if !ok || v != sm[len(sm)-1] {
					fail("Pop:order", fmt.Sprintf("deep phase: Pop=(%d,%v) want %d with %d values inside", v, ok, sm[len(sm)-1], len(sm)))
					return
				}
				sm = sm[:len(sm)-1]
			}
			if i%64 == 63 {
				if q.Len() != len(qm) || len(st) != len(sm) {
					fail("Len:deep", fmt.Sprintf("deep phase: Queue.Len()=%d (model %d), len(stack)=%d (model %d)", q.Len(), len(qm), len(st), len(sm)))
					return
				}
				if v, ok := st.Peek(); !ok || v != sm[len(sm)-1] {
					fail("Stack.Peek", fmt.Sprintf("deep phase: Stack.Peek()=(%d,%v) want %d", v, ok, sm[len(sm)-1]))
					return
				}
				if v, ok := q.Peek(); !ok || v != qm[0] {
					fail("Queue.Peek", fmt.Sprintf("deep phase: Queue.Peek()=(%d,%v) want %d with %d values inside", v, ok, qm[0], len(qm)))
					return
				}
			}
		}
		c.Count("deep_phases", 1)
		c.Max("max_queue_len", int64(len(qm)))
		c.Max("max_stack_len", int64(len(sm)))
		hist = append(hist, fmt.Sprintf("deep phase: %d Enqueue+Push", deep))
	}
	// final drain: everything comes out in order, then empty behaviour
	for len(qm) > 0 {
		if v, ok := q.Peek(); !ok || v != qm[0] {
			fail("Queue.Peek", fmt.Sprintf("final drain: Queue.Peek()=(%d,%v), next Dequeue must give %d (%d values left)", v, ok, qm[0], len(qm)))
			return
		}
		v, ok := q.Dequeue()
		if !ok || v != qm[0] {
			fail("Dequeue:order", fmt.Sprintf("final drain: Dequeue=(%d,%v) want %d", v, ok, qm[0]))
			return
		}
		qm = qm[1:]
	}
	for len(sm) > 0 {
		if v, ok := st.Peek(); !ok || v != sm[len(sm)-1] {
			fail("Stack.Peek", fmt.Sprintf("final drain: Stack.Peek()=(%d,%v), next Pop must give %d", v, ok, sm[len(sm)-1]))
			return
		}
		v, ok := st.Pop()
		if !ok || v != sm[len(sm)-1] {
			fail("Pop:order", fmt.Sprintf("final drain: Pop=(%d,%v) want %d", v, ok, sm[len(sm)-1]))
			return
		}
		sm = sm[:len(sm)-1]
	}
	if v, ok := q.Dequeue(); ok || v != 0 || q.Len() != 0 {
		fail("Dequeue:empty", "drained queue not empty")
		return
	}
	if v, ok := st.Pop(); ok || v != 0 {
		fail("Pop:empty", "drained stack not empty")
		return
	}
	// other element types: zero-size, large (> 256 bytes), pointer-carrying
	if c.Index%10 == 4 {
		type bigT [40]int64
		var bs lists.Stack[bigT]
		var bq lists.Queue[bigT]
		var zs lists.Stack[struct{}]
		var ss lists.Stack[string]
		k := r.Range(1, 40)
		if p, pv := core.Catch(func() {
			for i := 0; i < k; i++ {
				bs.Push(bigT{int64(i), 1: int64(-i)})
				bq.Enqueue(bigT{int64(i)})
				zs.Push(struct{}{})
				ss.Push(fmt.Sprint(i))
			}
			for i := k - 1; i >= 0; i-- {
				v, ok := bs.Pop()
				w, ok2 := bq.Dequeue()
				_, ok3 := zs.Pop()
				sv, ok4 := ss.Pop()
				if !ok || !ok2 || !ok3 || !ok4 || v[0] != int64(i) || v[1] != int64(-i) || w[0] != int64(k-1-i) || sv != fmt.Sprint(i) {
					panic(fmt.Sprintf("wrong value at step %d: %v %v %q", i, v[:2], w[0], sv))
				}
			}
			if _, ok := bs.Pop(); ok {
				panic("big-element stack not empty")
			}
		}); p {
			fail("element-types", fmt.Sprintf("Stack/Queue over a 320-byte / zero-size / string element type: %v", pv))
			return
		}
		c.Count("other_element_types", 1)
	}
	c.Count("drained_to_empty", int64(emptied))
	c.Count("refilled_after_empty", int64(refilled))
	if nops >= 4 {
		c.NonTrivial(hh)
	}
	if c.WantSample() {
		h := hist
		if len(h) > 30 {
			h = h[:30]
		}
		c.Sample(map[string]any{"calls": len(hist), "history_prefix": h})
	}
}
